"""Interface-description generator for C02 (extends harness/gen/ir.py: falsy defaults on scalar and compound types,
Optional with falsy / None default, Union, complex, code defaults, return entries with and without default).

Every parameter list is legal as a Python signature: the parameters that carry a default form a suffix."""
from __future__ import annotations

from collections import OrderedDict

from harness.gen.ir import DOCS, MEMBERS, NAMES

NONE = "```(None)```"
SCALARS = ["int", "float", "str", "bool"]
DOTTED = ["np.ndarray", "tf.data.Dataset", "collections.OrderedDict"]
MORE_DOCS = DOCS + ["the beta weight", "weight decay factor", "an output folder", "kept for later"]
# descriptions carrying an ad-hoc type trigger of parse_adhoc_doc_for_typ (outside the domain; separate stream)
TRIGGER_DOCS = ["Number of items", "path to the file", "size of each batch", "name of dataset", "True to shuffle"]
# descriptions with the punctuation the format-level parsers use as separators (commas — one, several, trailing —, colons, semicolons,
# " - ", parentheses, "->", "=", quotes, "/"); free of default announcements and ad-hoc type triggers (checked against the real
# extract_default / parse_adhoc_doc_for_typ: the docstring-layer hypotheses hold on them)
PUNCT_DOCS = ["Train, validation and tests dataset splits.", "Alpha, beta and gamma weights", "Weights for alpha, beta, gamma, in that order",
              "The ratio: kept between runs", "First pass; second pass kept", "Upper bound - kept between runs", "The weight (kept between runs)",
              "Maps alpha -> beta weights", "Uses alpha = beta weights", "The 'alpha' weight kept", 'The "beta" weight kept', "Kept between runs,",
              "A value, kept; see (alpha) - beta: gamma", "Ratio of a/b, then c", "Kept as-is, e.g. between runs", "Either alpha, or beta",
              "One of: alpha, beta", "Kept, then dropped", "(kept) between runs", "Kept; dropped",
              "Keep 80% of the rows", "Formatted like %s or %(name)s", "100% kept"]  # per cent signs: argparse %-formats help strings, the interface must not
LIT_ODD = ["us-east-1", "a.b", "x y", "v1.2", "en-GB", "1st"]
INTS = [0, 0, 1, 5, -3, 42, 100, 2]
FLOATS = [0.0, 0.0, 0.5, 1.0, -2.5, 0.001, 3.14]
STRS = ["", "", "mnist", "foo", "bar baz", "a_b", "~/data", "x", "None0"]
BOOLS = [False, False, True]
COMPLEX = [0j, 1j, 1j, 2j, 1j, 2j, 2.5 + 1j]
RET_CODES = ["```np.empty(0)```", "```foo(3)```", "K", "K", "(a, b)", "```(1, 2)```", "np.empty(0)"]
CODES = ["```np.empty(0)```", "```tf.zeros(3)```", "```(1, 2)```"]


def gen_typ(r, kinds=None):
    """-> (type string, kind, base scalar types a default may be drawn from)"""
    kinds = kinds or ("scalar", "scalar", "optional", "optional", "union", "list", "literal", "dotted", "complex", "optunion")
    k = r.choice(kinds)
    if k == "scalar":
        t = r.choice(SCALARS)
        return t, k, [t]
    if k == "complex":
        return "complex", k, ["complex"]
    if k == "optional":
        t = r.choice(SCALARS)
        return "Optional[%s]" % t, k, [t]
    if k == "union":
        a, b = r.sample(SCALARS, 2)
        return "Union[%s, %s]" % (a, b), k, [a, b]
    if k == "optunion":
        a, b = r.sample(SCALARS, 2)
        return "Optional[Union[%s, %s]]" % (a, b), k, [a, b]
    if k == "list":
        t = r.choice(SCALARS)
        return "List[%s]" % t, k, []
    if k == "literal":
        # members that are not identifier-like (hyphens, dots, blanks) and enumerations of ONE member: the default must survive as a string, not as code
        ms = r.sample(MEMBERS + (LIT_ODD if r.random() < 0.35 else []), r.choice([1, 2, 2, 3]))
        return "Literal[%s]" % ", ".join("'%s'" % m for m in ms), k, ["lit:" + ms[0]]
    return r.choice(DOTTED), "dotted", ["code"]


def gen_default(r, typ, kind, bases, none_ok=True, p_falsy=0.45):
    """a default of a Python type admissible for `typ`; None = this type gets no default here"""
    if kind in ("optional", "optunion") and none_ok and r.random() < 0.3:
        return NONE
    if not bases:
        return None
    b = r.choice(bases)
    falsy = r.random() < p_falsy
    if b == "int":
        return 0 if falsy else r.choice(INTS)
    if b == "float":
        return 0.0 if falsy else r.choice(FLOATS)
    if b == "str":
        return "" if falsy else r.choice(STRS)
    if b == "bool":
        return False if falsy else r.choice(BOOLS)
    if b == "complex":
        return 0j if falsy else r.choice(COMPLEX)
    if b == "code":
        return r.choice(CODES)
    if b.startswith("lit:"):
        return b[4:]
    return None


def gen_ir(r, nparams=None, with_return=None, ret_default=None, with_doc=True, kinds=None, none_ok=True, name="F", p_falsy=0.45, ftype="static", trigger_docs=False, punct=0.0):
    """`punct` = probability that a description (parameter or return entry) comes from PUNCT_DOCS"""
    n = r.randint(0, 5) if nparams is None else nparams
    names = r.sample(NAMES, n)
    params = OrderedDict()
    first_default = r.randint(0, n)
    for i, nm in enumerate(names):
        typ, kind, bases = gen_typ(r, kinds)
        p = OrderedDict()
        if with_doc if isinstance(with_doc, bool) else r.random() < with_doc:
            p["doc"] = r.choice(PUNCT_DOCS if r.random() < punct else TRIGGER_DOCS if trigger_docs and r.random() < 0.5 else MORE_DOCS)
        p["typ"] = typ
        if i >= first_default:
            d = gen_default(r, typ, kind, bases, none_ok, p_falsy)
            if d is None:
                # a type without admissible default inside the defaulted suffix: make it an int with a (often falsy) default
                p["typ"] = r.choice(["int", "Optional[int]", "Union[int, float]"])
                d = r.choice([0, 7])
            p["default"] = d
        params[nm] = p
    ret = None
    if with_return is None:
        with_return = r.random() < 0.5
    if with_return:
        typ, kind, bases = gen_typ(r, kinds)
        rt = OrderedDict()
        if with_doc:
            rt["doc"] = r.choice(PUNCT_DOCS if r.random() < punct else MORE_DOCS)
        rt["typ"] = typ
        if ret_default if ret_default is not None else r.random() < 0.5:
            # the IR convention (all mocks): a return entry's default is the *source* of the returned expression
            rt["default"] = r.choice(RET_CODES)
        ret = OrderedDict((("return_type", rt),))
    return {"name": name, "doc": r.choice(["", "Summary line.", "Summary line.\n\nLonger description here."]), "params": params, "returns": ret, "type": ftype}


# ----------------------------------------------------------------------------------------------
# wrap-boundary stream: descriptions whose length is swept across textwrap.fill's width (100), so that with
# emit_default_doc=True the line break falls at every position of " Defaults to <value>" (and just before / after it)
# ----------------------------------------------------------------------------------------------
# prose without default announcements, ad-hoc type triggers, colons, backticks or full stops
WRAP_WORDS = ["tempo", "kept", "steady", "across", "every", "movement", "and", "again", "after", "each", "pause", "so", "that", "no", "bar", "drags",
              "rushes", "while", "others", "wait", "a", "we", "go", "on", "until", "dusk", "falls", "slowly", "over", "hills", "beyond", "town"]
WRAP_LENGTHS = list(range(52, 100))
WRAP_DEFAULTS = [("int", 5), ("int", 0), ("int", 42), ("float", 0.5), ("float", 0.0), ("float", 3.14), ("bool", True), ("bool", False),
                 ("str", "foo"), ("str", "a_b"), ("str", "x"), ("Optional[int]", 7), ("Union[int, float]", 0)]


def prose_of_length(r, n):
    """space-separated words, exactly `n` characters, no leading/trailing blank"""
    for _ in range(200):
        words, left = [], n
        while left > 0:
            cands = [w for w in WRAP_WORDS if len(w) == left or len(w) + 2 <= left]
            if not cands:
                break
            w = r.choice(cands)
            words.append(w)
            left -= len(w) + (1 if left > len(w) else 0)
        s = " ".join(words)
        if len(s) == n:
            return s[0].upper() + s[1:]
    return ("x" * n)


def gen_wrap_irs(r, lengths=None, per_length=1):
    """interfaces with 2-4 parameters, all with defaults (int / float / bool / short str, some compound types); the description
    lengths walk through `lengths` (every parameter takes the next one), so a run covers each length `per_length` times"""
    lengths = list(lengths or WRAP_LENGTHS) * per_length
    r.shuffle(lengths)
    out = []
    i = 0
    while i < len(lengths):
        n = min(r.randint(2, 4), max(2, len(lengths) - i))
        names = r.sample(NAMES, n)
        params = OrderedDict()
        for nm in names:
            typ, d = r.choice(WRAP_DEFAULTS)
            L = lengths[i % len(lengths)]
            i += 1
            params[nm] = OrderedDict((("doc", prose_of_length(r, L)), ("typ", typ), ("default", d)))
        ret = None
        if r.random() < 0.3:
            ret = OrderedDict((("return_type", OrderedDict((("doc", prose_of_length(r, r.choice(lengths))), ("typ", r.choice(["int", "List[int]"]))))),))
        out.append({"name": "F", "doc": r.choice(["", "Summary line."]), "params": params, "returns": ret, "type": r.choice(["static", "self"])})
    return out


# ----------------------------------------------------------------------------------------------
# quote stream: string defaults with quote characters in every position
# ----------------------------------------------------------------------------------------------
QUOTE_STRS = {
    "mixed": ["'{name}' is not \"{other}\"", "\"{a}\" or '{b}'", "'x\"", "\"x'", "'ab\"", "\"a b'"],
    "begin-only": ["'abc", "\"abc", "'a b c"],
    "end-only": ["abc'", "abc\"", "a b c\""],
    "inside": ["a'b", "a\"b", "it's", "say \"hi\" now", "it's \"x\" ok"],
    "same-wrapped": ["'x'", "\"x\"", "'a b'", "\"a'b\"", "''", "\"\""],
    "lone": ["'", "\""],
    "escaped": ["a\\'b", "a\\\"b", "\\'x\\'", "back\\\\slash"],
    # no quote characters, but text that looks like Python syntax (an annotated default, an arrow, a comment, a lambda): rendering must not touch it
    "syntax-like": ["%(name)s: %(key)s=%(value)s", "{host}: port={port}", "level: debug=1", "a -> b", "x: int=3", "k=v", "lambda x: x+1"],
}
QUOTE_TYPES = ["str", "str", "Optional[str]", "Union[str, int]", "Union[int, str]", "Optional[Union[str, float]]"]


def quote_shape(s):
    """where the quote characters of a string default sit"""
    if isinstance(s, str) and "\\" in s:
        return "escaped"
    if not isinstance(s, str) or not any(c in s for c in "'\""):
        return "none"
    if len(s) == 1:
        return "lone"
    a, b = s[0] in "'\"", s[-1] in "'\""
    if a and b:
        return "same-wrapped" if s[0] == s[-1] else "mixed"
    if a:
        return "begin-only"
    if b:
        return "end-only"
    return "inside"


def gen_quote_irs(r, n):
    """1-4 parameters, str-mentioning types, defaults drawn from QUOTE_STRS (every shape about equally often), some plain neighbours"""
    shapes = sorted(QUOTE_STRS)
    out = []
    for k in range(n):
        m = r.randint(1, 4)
        names = r.sample(NAMES, m)
        params = OrderedDict()
        first_default = r.randint(0, 1) if m > 1 else 0
        for i, nm in enumerate(names):
            p = OrderedDict((("doc", r.choice(MORE_DOCS)), ("typ", r.choice(QUOTE_TYPES))))
            if i >= first_default:
                p["default"] = r.choice(QUOTE_STRS[shapes[(k + i) % len(shapes)]]) if r.random() < 0.8 else r.choice(["foo", "", "a_b"])
            params[nm] = p
        ret = None
        if r.random() < 0.25:
            ret = OrderedDict((("return_type", OrderedDict((("doc", r.choice(MORE_DOCS)), ("typ", "Optional[str]")))),))
        out.append({"name": "F", "doc": r.choice(["", "Summary line."]), "params": params, "returns": ret, "type": r.choice(["static", "static", "self"])})
    return out


# ----------------------------------------------------------------------------------------------
# keyword stream: descriptions that mention, as prose, the section keywords of the docstring styles
# ----------------------------------------------------------------------------------------------
KEYWORD_DOCS = {
    "Args:": ["Same as Args: of the caller", "Kept as is, see Args: above"],
    "Returns:": ["Like Returns: of the caller", "Whatever it Returns: is kept"],
    "Raises:": ["Kept as is, e.g. Raises: nothing", "Never Raises: anything"],
    "Kwargs:": ["Passed as Kwargs: to the caller"],
    "Parameters": ["Same as Parameters of the caller", "Kept with the other Parameters"],
    "Returns+dashes": ["Kept as is\nReturns\n-------\nnothing new", "Same as the caller\nParameters\n----------\nall of them"],
    ":param": ["The :param of the caller, kept", "Same as :param x: of the caller"],
    ":return:": ["Same as :return: of the caller", "Kept until :return: is reached"],
    # controls: the same words without the marker syntax
    "control": ["Kept as is, e.g. Raises nothing", "Same as Args of the caller", "Like Returns of the caller", "The param of the caller, kept"],
}
KEYWORDS = [k for k in KEYWORD_DOCS if k != "control"]


def keywords_in(text):
    """which section keywords a text mentions"""
    if not isinstance(text, str):
        return []
    out = [k for k in ("Args:", "Returns:", "Raises:", "Kwargs:", ":param", ":return:") if k in text]
    import re

    if re.search(r"(?:Parameters|Returns)\s*\n\s*-{3,}", text):
        out.append("Returns+dashes")
    elif "Parameters" in text:
        out.append("Parameters")
    return out


def gen_keyword_irs(r, n):
    """interfaces where exactly one description — the interface's own, a parameter's, or the return entry's — mentions one keyword
    (round robin over keywords and over the three places); everything else plain, defaults on a suffix"""
    kws = sorted(KEYWORD_DOCS)
    out = []
    for k in range(n):
        kw = kws[k % len(kws)]
        place = ("interface", "param", "return")[(k // len(kws)) % 3]
        ir = gen_ir(r, nparams=r.randint(1, 3), with_return=True if place == "return" else None, ret_default=r.random() < 0.4,
                    kinds=("scalar", "scalar", "optional", "union", "list"), none_ok=False, ftype=r.choice(["static", "static", "self"]))
        text = r.choice(KEYWORD_DOCS[kw])
        if place == "interface":
            ir["doc"] = r.choice(["%s", "Summary line.\n\n%s", "%s\n\nLonger description here."]) % text
        elif place == "param":
            ir["params"][r.choice(list(ir["params"]))]["doc"] = text
        else:
            ir["returns"]["return_type"]["doc"] = text
        out.append(ir)
    return out


# ----------------------------------------------------------------------------------------------
# numeric stream: defaults whose repr is unusual — exponent notation with + / -, many digits, inf / nan, negative zero, huge ints,
# complex with exponent parts — each kind in first / middle / last position over a run
# ----------------------------------------------------------------------------------------------
NUM_DEFAULTS = [
    ("float", 1e20), ("float", 2.5e16), ("float", 1e16), ("float", -1e20), ("float", 1e-10), ("float", 5e-324), ("float", -2.5e-7),
    ("float", 123456789.125), ("float", 0.1 + 0.2), ("float", -0.0), ("float", float("inf")), ("float", float("-inf")), ("float", float("nan")),
    ("Optional[float]", 1e20), ("Union[int, float]", 2.5e16), ("Optional[float]", 1e-10), ("Union[float, str]", 1e20),
    ("int", 10 ** 30), ("int", -10 ** 30), ("Optional[int]", 10 ** 30), ("complex", 1e20j), ("complex", 1e-10j),
]
NUM_RET_SOURCES = ["1e+20", "2.5e+16", "1e-10", "-1e+20", "123456789.125", "10 ** 30", "K"]


def num_shape(v):
    """what is unusual about the repr of a numeric default"""
    import math

    if isinstance(v, bool) or not isinstance(v, (int, float, complex)):
        return "none"
    if isinstance(v, int):
        return "bigint" if abs(v) >= 10 ** 18 else "plain"
    if isinstance(v, float):
        if math.isnan(v):
            return "nan"
        if math.isinf(v):
            return "inf"
        if v == 0.0 and math.copysign(1.0, v) < 0:
            return "negzero"
    r = repr(v)
    if "e+" in r:
        return "exp+"
    if "e-" in r:
        return "exp-"
    if len(r.replace("-", "").replace(".", "")) >= 12:
        return "many-digits"
    return "plain"


def num_shape_json(d):
    """the same on the JSON encoding of a default"""
    if not d or d.get("t") not in ("int", "float", "complex"):
        return "none"
    try:
        return num_shape({"int": int, "float": float, "complex": complex}[d["t"]](d["v"]))
    except ValueError:
        return "none"


def gen_numeric_irs(r, n):
    """1-3 parameters, all with defaults; interface k puts NUM_DEFAULTS[k + 7 i] in position i, so over len(NUM_DEFAULTS) consecutive
    interfaces every kind occurs in every position (first / middle / last) of every shape; plain neighbours in between; some return entries
    whose default is the source of a number"""
    out = []
    N = len(NUM_DEFAULTS)
    for k in range(n):
        m = (1, 2, 3, 3, 3)[k % 5]
        names = r.sample(NAMES, m)
        params = OrderedDict()
        plain_at = r.randrange(m) if m == 3 and r.random() < 0.4 else None
        for i, nm in enumerate(names):
            typ, d = NUM_DEFAULTS[(k + 7 * i) % N] if i != plain_at else r.choice([("int", 5), ("float", 0.5), ("str", "foo")])
            params[nm] = OrderedDict((("doc", r.choice(MORE_DOCS)), ("typ", typ), ("default", d)))
        ret = None
        if r.random() < 0.35:
            ret = OrderedDict((("return_type", OrderedDict((("doc", r.choice(MORE_DOCS)), ("typ", r.choice(["float", "Optional[float]", "List[float]"])),
                                                            ("default", r.choice(NUM_RET_SOURCES))))),))
        out.append({"name": "F", "doc": r.choice(["", "Summary line."]), "params": params, "returns": ret, "type": r.choice(["static", "static", "self"])})
    return out


# ----------------------------------------------------------------------------------------------
# type-shape stream: type strings on which the string predicates the code applies ("[" in typ, startswith("Optional["),
# "Optional" in typ, in simple_types) DISAGREE with their near-equivalents (endswith("]"), "Optional[" in typ, startswith("Optional"), …)
# ----------------------------------------------------------------------------------------------
TYPE_SHAPES = [
    "List[int] | None", "Tuple[int, str] | None", "Dict[str, int] | None",      # subscripted, but not ending in "]" (PEP 604)
    "int | None", "str | None",                                                  # PEP 604 without any bracket
    "List[Optional[int]]", "Dict[str, Optional[int]]",                           # "Optional[" inside, not at the start
    "Optional[List[int]]", "Tuple[int, str]", "Dict[str, int]",                  # nested / several arguments
    "OptionalConfig", "strategy.Kind", "integer",                                # names that merely begin like Optional / a simple type
]
SHAPE_RET_DEFAULTS = [None, "K", "```foo(3)```"]


def gen_typeshape_irs(r, rounds=3):
    """deterministic coverage: in round j interface k has the return type TYPE_SHAPES[k] with return default SHAPE_RET_DEFAULTS[(j + k) % 3],
    one parameter without default typed TYPE_SHAPES[(k + 3) % N] and one with a code default typed TYPE_SHAPES[(k + 7) % N]"""
    N = len(TYPE_SHAPES)
    out = []
    for j in range(rounds):
        for k in range(N):
            names = r.sample(NAMES, 2)
            params = OrderedDict()
            params[names[0]] = OrderedDict((("doc", r.choice(MORE_DOCS)), ("typ", TYPE_SHAPES[(k + 3 + j) % N])))
            params[names[1]] = OrderedDict((("doc", r.choice(MORE_DOCS)), ("typ", TYPE_SHAPES[(k + 7 + 2 * j) % N]),
                                            ("default", r.choice(["```foo(3)```", "```bar(1)```"]))))
            rt = OrderedDict((("doc", r.choice(MORE_DOCS)), ("typ", TYPE_SHAPES[k])))
            d = SHAPE_RET_DEFAULTS[(j + k) % 3]
            if d is not None:
                rt["default"] = d
            out.append({"name": "F", "doc": r.choice(["", "Summary line."]), "params": params, "returns": OrderedDict((("return_type", rt),)),
                        "type": ("static", "self", "static")[j % 3]})
    return out
