"""
Adversarial inputs for C17 (analysing source never executes it).

Two families, both pure functions of the PRNG handed in:

* descriptions for `parse_adhoc_doc_for_typ` (token sequences and sentence grammars over trigger words, quotes, stray
  apostrophes, backticks, separators, parentheses, call expressions, dunder chains, non-ASCII whitespace / look-alikes);
* whole inputs for the parsers / emitters / doctrans / sync / gen / routes / openapi: modules, docstrings, JSON-schemas and
  YAML blocks whose defaults, type strings, descriptions, decorators and module-level statements contain call expressions,
  dunder attribute chains, import statements, `!!python/object/apply:` tags and sentinel-file writers.

Placeholders (replaced by the child process that runs the real code): `@SENTINEL@` — a path that must never come to exist;
`pwnmod_c17` — a module that exists on `sys.path` of the child and writes the sentinel when imported.
"""
from __future__ import annotations

SENT = "@SENTINEL@"
EVIL_MOD = "pwnmod_c17"
CANARY_MODULES = [EVIL_MOD, "this", "wave", "colorsys", "sunau"]

# ---------------------------------------------------------------------------------------------------------------------
# expressions an attacker would like to see evaluated
# ---------------------------------------------------------------------------------------------------------------------
PAYLOADS = [
    "__import__('os').system('touch %s')" % SENT,
    "open('%s', 'w').write('x')" % SENT,
    "__import__('subprocess').Popen(['touch', '%s'])" % SENT,
    "__import__('%s')" % EVIL_MOD,
    "exec(\"import %s\")" % EVIL_MOD,
    "eval(\"open('%s','w')\")" % SENT,
    "().__class__.__base__.__subclasses__()",
    "(lambda: __import__('%s'))()" % EVIL_MOD,
    "__import__('socket').socket().connect(('127.0.0.1', 9))",
    "[c for c in ().__class__.__mro__]",
    "globals()['__builtins__']",
    "getattr(__import__('os'), 'system')('touch %s')" % SENT,
    "__import__('pathlib').Path('%s').write_text('x')" % SENT,
    "__import__('os').makedirs('%s')" % SENT,
    "__import__('pickle').loads(b\"cos\\nsystem\\n(S'touch %s'\\ntR.\")" % SENT,
    "breakpoint()",
    "compile('import %s', '<x>', 'exec')" % EVIL_MOD,
]
# paren-free expressions: these stay inside SafeAlphabet (or nearly), so they exercise what *can* reach eval
PAREN_FREE = [
    "os.system", "sys.modules['os'].system", "sys.exit", "quit", "exit", "sys.modules", "cdd.shared.ast_utils", "collections.abc.Callable",
    "ast.literal_eval", "typing.List[int]", "sys.stdout.buffer", "%s.go" % EVIL_MOD, "this", "wave.open", "x.__class__.__bases__",
    "__import__", "__builtins__.eval", "sys.modules['%s']" % EVIL_MOD, "partial", "deepcopy", "eval", "exec", "open", "print", "input", "help", "license",
    "copyright", "credits", "sys.path", "sys.argv", "os.environ['HOME']", "List[os.system]", "Callable[[int], str]",
]

# ---------------------------------------------------------------------------------------------------------------------
# (1) descriptions for parse_adhoc_doc_for_typ
# ---------------------------------------------------------------------------------------------------------------------
NONASCII_WS = ["\xa0", "\u2003", "\u2028", "\u2029", "\u3000", "\x85", "\x1c", "\x1f", "\u1680", "\u205f", "\u202f", "\u200a", "\x0b", "\x0c"]
LOOKALIKES = ["\uff08", "\uff09", "\uff3f", "\uff1d", "\uff1a", "\u2018", "\u2019", "\u201c", "\u201d", "\u02bc", "\uff40", "\u00e9", "\u03bb", "\u0131", "\u212a",
              "\u00df", "\u0660", "\u00b2", "\uff21", "\u2044", "\u2215", "\uff5c", "\u200b", "\ufeff", "\u00ad"]
BASE_TOKENS = [
    # separators / whitespace
    " ", "  ", "\t", "\n", ",", ", ", ".", ". ", ";", "; ", ":", "-", "=", "_", "__",
    # quotes, apostrophes, backticks
    "'", '"', "`", "``", "```", "'a'", '"b"', "`c`", "'a',", "'it''s'", "user's", "don't", "'", "\\'", '\\"', "'a b'", "'(x)'", "`x()`", "'''", '"""',
    # structure words
    "or", "of", "and", "or,", "of:", "one", "One of", "Either", "either", "List", "Tuple", "Dictionary", "List of", "Tuple of", "Dictionary of",
    "None", "True", "False", "if", "on", "called", "at", "directory", "where", "floating", "point", "Filename", ", default", ", default 5", "Defaults to",
    "optional", "Optional", "whether", "Whether",
    # types / names
    "int", "str", "float", "bool", "Int", "String", "Bool", "Float", "complex", "integer", "boolean", "string", "number", "path", "filename", "dict",
    "list", "tuple", "int64", "`int64`castable", "a", "b", "x", "foo", "1", "2", "42", "3.5", "-1", "np.ndarray", "tf.Tensor",
    # brackets and operators
    "(", ")", "()", "[", "]", "{", "}", "/", "|", "a/b", "a|b", "int/str", "'a'/'b'", "*", "+", "@", "\\", "<", ">", "!", "~", "#", "$", "%", "^", "&",
    # code
    "lambda", "lambda: 0", "import", "import os", "exec", "eval", "yield", "await", "not", "in", "is", "for", "class", "def",
    "os.system", "open('x')", "os.system('id')", "exit()", "x.__class__", ".__class__", "__import__", "__import__('os')", "f()", "f(1, 2)", "a.b.c", "a .b", "`a`.b", ".5", "a.", ".a",
]


def adhoc_tokens(real_tables=None):
    """the token alphabet; trigger words are taken from the *current* tables of the real module so that new entries are exercised"""
    toks = list(BASE_TOKENS) + NONASCII_WS + LOOKALIKES + PAYLOADS[:8] + PAREN_FREE[:12]
    if real_tables:
        for k in real_tables.get("adhoc_type_to_type", {}):
            toks += [k, k.title()]
        for tbl in ("adhoc_3_tuple_to_type", "adhoc_3_tuple_to_collection"):
            for k in real_tables.get(tbl, {}):
                toks += ["".join(k), k[0], k[2]]
        for k in real_tables.get("type_to_name", {}):
            toks.append(k)
    seen, out = set(), []
    for t in toks:
        if t not in seen:
            seen.add(t)
            out.append(t)
    return out


def _lit(r):
    return r.choice(["'%s'" % w for w in ("a", "b", "mean", "sum", "it's", "x y", "(", "a,b", "")] + ['"%s"' % w for w in ("a", "valid", "same", "o'k", ")")] +
                    ["`%s`" % w for w in ("a", "np.ndarray", "os.system", "open('x')", "x()", "a`b", "__import__('os').system('id')", "().__class__")] +
                    ["1", "2", "0", "3.5", "-1", "1e3", "0x10"])


def _atom(r, toks):
    k = r.random()
    if k < 0.3:
        return _lit(r)
    if k < 0.55:
        return r.choice(["int", "str", "float", "bool", "None", "Int", "String", "integer", "boolean", "number", "list", "dict", "tuple", "path", "complex", "True", "False"])
    if k < 0.7:
        return r.choice(PAYLOADS)
    if k < 0.85:
        return r.choice(PAREN_FREE)
    return r.choice(toks)


def adhoc_sentence(r, toks):
    """a description shaped like the ones the function is written for, with adversarial atoms"""
    lead = r.choice(["", "", "One of ", "one of ", "Either ", "List of ", "Tuple of ", "Dictionary of ", "A list of ", "the mode; ", "Mode. ", "x. ", "`a`. ",
                     "Whether to ", "Filename of ", "True if ", "called at ", "directory where ", "floating point ", "The ", "foo bar "])
    n = r.randint(1, 5)
    atoms = [_atom(r, toks) for _ in range(n)]
    sep = r.choice([", ", ", ", " , ", ",", "; ", " ", r.choice(NONASCII_WS), ",\n    "])
    conj = r.choice([" or ", " or ", " of ", ", or ", " or\n", " or" + r.choice(NONASCII_WS), r.choice(NONASCII_WS) + "or ", " and ", " | ", "/", " or, ", " of: "])
    body = sep.join(atoms[:-1]) + (conj if len(atoms) > 1 else "") + atoms[-1] if atoms else ""
    tail = r.choice(["", "", ".", ". ", ", default 5", ", default `None`", ". Defaults to 5", ". Second sentence or other.", ". `x` of y.", ".foo or bar", "`.bar or baz",
                     " (optional)", ", optional", ". " + r.choice(PAYLOADS), " or " + r.choice(PAYLOADS) + ".", ";", "; int or str", "..", "...", ".\n\nMore text or None."])
    s = lead + body + tail
    if r.random() < 0.15:
        i = r.randrange(len(s) + 1)
        s = s[:i] + r.choice(toks) + s[i:]
    if r.random() < 0.07:
        s = s[: r.randrange(len(s) + 1)]
    return s


def adhoc_random(r, toks, lo=3, hi=14):
    return "".join(r.choice(toks) for _ in range(r.randint(lo, hi)))


ADHOC_NAMES = ["a", "x_y", "__import__", "name's", "", "kwargs", "*args", "os.system", "dataset_name", "\u00e9", "List of int"]

# ---------------------------------------------------------------------------------------------------------------------
# (2) whole inputs: docstrings, modules, schemas, YAML
# ---------------------------------------------------------------------------------------------------------------------
TYPE_STRINGS = ["int", "str", "Optional[int]", "List[str]", "Union[int, str]", "Literal['a', 'b']", "np.ndarray", "dict", "Callable[[int], str]"]


def adv_type(r):
    k = r.random()
    if k < 0.35:
        return r.choice(TYPE_STRINGS)
    if k < 0.7:
        return r.choice(PAYLOADS)
    if k < 0.85:
        return r.choice(PAREN_FREE)
    return "%s[%s]" % (r.choice(["Optional", "List", "Union", "Literal"]), r.choice(PAYLOADS + PAREN_FREE))


def adv_default_text(r):
    k = r.random()
    if k < 0.25:
        return r.choice(["5", "0.5", "'mnist'", "True", "None", "-3", "(1, 2)", "[1, 2]", "{'a': 1}", "`None`", "```None```"])
    if k < 0.8:
        p = r.choice(PAYLOADS + PAREN_FREE)
        return r.choice(["%s", "`%s`", "```%s```", "(%s)", "%s."]) % p
    return r.choice(["1 if %s else 2", "[%s]", "{%s: 1}", "f'{%s}'", "-%s", "not %s", "(%s, 1)"]) % r.choice(PAYLOADS)


def adv_desc(r, toks):
    k = r.random()
    if k < 0.5:
        d = adhoc_sentence(r, toks)
    elif k < 0.7:
        d = r.choice(["the thing", "dataset name", "a value", "flag"]) + " " + r.choice(PAYLOADS)
    else:
        d = adhoc_random(r, toks, 2, 8)
    d = d.replace("\r", " ")
    if r.random() < 0.5:
        d = d.rstrip(".") + r.choice([". Defaults to %s", ". defaults to %s", ", default %s", ". Default value is %s", " (default: %s)", " (defaults to %s)."]) % adv_default_text(r)
    return d


PNAMES = ["a", "b", "foo", "bar_baz", "dataset_name", "K", "lr", "kwargs", "n_items", "path_to"]


def _oneline(s):
    return " ".join(s.replace("\x0b", " ").replace("\x0c", " ").replace("\x1c", " ").replace("\x1d", " ").replace("\x1e", " ").replace("\x85", " ")
                    .replace("\u2028", " ").replace("\u2029", " ").split("\n"))


def adv_docstring(r, toks, style=None, names=None, with_return=True):
    style = style or r.choice(["rest", "google", "numpydoc"])
    names = names if names is not None else r.sample(PNAMES, r.randint(1, 4))
    head = r.choice(["Acquire things.", "Do %s now." % r.choice(PAYLOADS), "Short.", "", "x or y of z."])
    L = []
    if style == "rest":
        L += [head, ""]
        for n in names:
            L.append(":param %s: %s" % (n, _oneline(adv_desc(r, toks)) if r.random() < 0.8 else adv_desc(r, toks)))
            if r.random() < 0.7:
                L.append(":type %s: ```%s```" % (n, adv_type(r)))
            L.append("")
        if with_return:
            L.append(":return: %s" % _oneline(adv_desc(r, toks)))
            L.append(":rtype: ```%s```" % adv_type(r))
    elif style == "google":
        L += [head, "", "Args:"]
        for n in names:
            t = " (%s)" % adv_type(r) if r.random() < 0.5 else ""
            L.append("  %s%s: %s" % (n, t, _oneline(adv_desc(r, toks))))
        if with_return:
            L += ["", "Returns:", "  %s" % _oneline(adv_desc(r, toks))]
    else:
        L += [head, "", "Parameters", "----------"]
        for n in names:
            L.append("%s : %s" % (n, adv_type(r)))
            L.append("    %s" % _oneline(adv_desc(r, toks)))
        if with_return:
            L += ["", "Returns", "-------", "%s : %s" % ("out", adv_type(r)), "    %s" % _oneline(adv_desc(r, toks))]
    return "\n".join(L) + r.choice(["", "\n", "\n\n"])


def _q(doc):
    """a docstring literal for `doc` that is valid Python whatever the content"""
    return repr(doc)


MODULE_PRELUDE = [
    "import %s" % EVIL_MOD, "from %s import go" % EVIL_MOD, "import this", "import wave", "import colorsys",
    "open(%r, 'w').write('module-level')" % SENT, "__import__('os').system('touch %s')" % SENT, "import os, sys, ast, collections",
    "exec(\"open(%r,'w')\")" % SENT, "from typing import *", "X = %s" % PAYLOADS[0], "if True:\n    import %s" % EVIL_MOD,
    "try:\n    import sunau\nexcept ImportError:\n    pass", "__all__ = [%s]" % PAYLOADS[1], "def _side():\n    %s\n_side()" % PAYLOADS[1],
]


def _expr(r):
    """an expression that is valid Python source (so the module parses) and hostile if evaluated"""
    return r.choice(PAYLOADS + PAYLOADS + PAREN_FREE[:6] + ["5", "'s'", "None", "(1, 2)"])


def adv_function_src(r, toks, name="f", method=False):
    names = r.sample(PNAMES, r.randint(1, 4))
    args = []
    for n in names:
        a = n if n != "kwargs" else "**kwargs"
        if n != "kwargs":
            if r.random() < 0.6:
                a += ": " + r.choice([_expr(r), repr(adv_type(r)), "int", "str"])
            if r.random() < 0.7:
                a += " = " + _expr(r) if ":" in a else "=" + _expr(r)
        args.append(a)
    args.sort(key=lambda s: (s.startswith("**"), "=" in s))
    if method:
        args = ["self"] + args
    ret = " -> %s" % r.choice([_expr(r), "int", repr(adv_type(r))]) if r.random() < 0.5 else ""
    deco = "@%s\n" % r.choice(["staticmethod", "decorate(%s)" % _expr(r), PAREN_FREE[0]]) if r.random() < 0.3 else ""
    doc = adv_docstring(r, toks, names=[n for n in names])
    body = ["    " + _q(doc)]
    for _ in range(r.randint(0, 2)):
        body.append("    " + r.choice(["%s" % _expr(r), "x = %s" % _expr(r), "import %s" % EVIL_MOD, "pass"]))
    body.append("    return " + _expr(r))
    return "%sdef %s(%s)%s:\n%s\n" % (deco, name, ", ".join(args), ret, "\n".join(body))


def adv_class_src(r, toks, name="C", base=None):
    names = r.sample([n for n in PNAMES if n != "kwargs"], r.randint(1, 4))
    doc = adv_docstring(r, toks, style=r.choice(["rest", "google", "numpydoc"]), names=names, with_return=False)
    doc = doc.replace(":param ", ":cvar ") if r.random() < 0.7 else doc
    L = ["class %s(%s):" % (name, base or r.choice(["object", "Base", _expr(r)])), "    " + _q(doc)]
    for n in names:
        k = r.random()
        if k < 0.5:
            L.append("    %s: %s = %s" % (n, r.choice([_expr(r), "int", "str", repr(adv_type(r))]), _expr(r)))
        elif k < 0.8:
            L.append("    %s = %s" % (n, _expr(r)))
        else:
            L.append("    %s: %s" % (n, _expr(r)))
    if r.random() < 0.6:
        L.append("")
        L += ["    " + x for x in adv_function_src(r, toks, name="__call__", method=True).rstrip("\n").split("\n")]
    return "\n".join(L) + "\n"


def adv_argparse_src(r, toks, name="set_cli_args"):
    L = ["def %s(argument_parser):" % name, "    " + _q("Set CLI arguments\n\n:param argument_parser: argument parser\n:type argument_parser: ```ArgumentParser```\n\n"
                                                        ":return: argument_parser, %s\n:rtype: ```Tuple[ArgumentParser, %s]```\n" % (_oneline(adv_desc(r, toks)), adv_type(r))),
         "    argument_parser.description = %r" % r.choice(["desc", r.choice(PAYLOADS)])]
    for n in r.sample([n for n in PNAMES if n != "kwargs"], r.randint(1, 4)):
        kw = ["'--%s'" % n]
        if r.random() < 0.7:
            kw.append("type=%s" % r.choice(["int", "str", "loads", _expr(r), "pickle.loads"]))
        if r.random() < 0.7:
            kw.append("default=%s" % _expr(r))
        if r.random() < 0.3:
            kw.append("choices=(%s, 'b')" % _expr(r))
        if r.random() < 0.3:
            kw.append("action=%s" % r.choice(["'append'", "'store_true'", _expr(r)]))
        kw.append("help=%r" % _oneline(adv_desc(r, toks)))
        if r.random() < 0.3:
            kw.append("required=%s" % r.choice(["True", "False", _expr(r)]))
        L.append("    argument_parser.add_argument(%s)" % ", ".join(kw))
    L.append("    return argument_parser, %s" % _expr(r))
    return "\n".join(L) + "\n"


def adv_sqlalchemy_src(r, toks, name="Tbl", calls=True):
    """`calls=False`: hostile text only inside string literals (docs, comments), defaults are constants"""
    cols = r.sample([n for n in PNAMES if n != "kwargs"], r.randint(1, 3))
    _expr_ = _expr if calls else (lambda rr: rr.choice(["5", "'s'", "None", "0.5", repr(rr.choice(PAYLOADS))]))
    if r.random() < 0.5:
        L = ["class %s(Base):" % name, "    " + _q(adv_docstring(r, toks, style="rest", names=cols, with_return=False)), "    __tablename__ = %r" % r.choice(["tbl", PAYLOADS[0]])]
        for i, n in enumerate(cols):
            kw = [r.choice(["Integer", "String", "Enum('a', 'b', name='e')", _expr_(r), "LargeBinary"])]
            if i == 0:
                kw.append("primary_key=True")
            if r.random() < 0.7:
                kw.append("default=%s" % _expr_(r))
            if r.random() < 0.3:
                kw.append("server_default=%s" % _expr_(r))
            kw.append("doc=%r" % _oneline(adv_desc(r, toks)))
            if r.random() < 0.3:
                kw.append("nullable=%s" % r.choice(["True", _expr_(r)]))
            L.append("    %s = Column(%s)" % (n, ", ".join(kw)))
        L.append("    def __repr__(self):\n        return %s" % _expr_(r))
        return "\n".join(L) + "\n"
    L = ["%s = Table(" % name.lower(), "    %r," % name.lower(), "    metadata,"]
    for i, n in enumerate(cols):
        kw = ["%r" % n, r.choice(["Integer", "String", _expr_(r)])]
        if i == 0:
            kw.append("primary_key=True")
        if r.random() < 0.7:
            kw.append("default=%s" % _expr_(r))
        kw.append("doc=%r" % _oneline(adv_desc(r, toks)))
        L.append("    Column(%s)," % ", ".join(kw))
    L.append("    comment=%r," % adv_docstring(r, toks, style="rest", names=cols, with_return=False))
    L.append(")")
    return "\n".join(L) + "\n"


def adv_pydantic_src(r, toks, name="M"):
    return adv_class_src(r, toks, name=name, base="BaseModel")


def adv_module(r, toks, kinds=("function", "class", "argparse")):
    """returns (source, {kind: top-level name})"""
    parts, names = [], {}
    for _ in range(r.randint(0, 3)):
        parts.append(r.choice(MODULE_PRELUDE))
    for k in kinds:
        if k == "function":
            parts.append(adv_function_src(r, toks, name="f"))
            names[k] = "f"
        elif k == "class":
            parts.append(adv_class_src(r, toks, name="C"))
            names[k] = "C"
        elif k == "argparse":
            parts.append(adv_argparse_src(r, toks))
            names[k] = "set_cli_args"
        elif k == "sqlalchemy":
            parts.append(adv_sqlalchemy_src(r, toks))
            names[k] = "Tbl"
        elif k == "pydantic":
            parts.append(adv_pydantic_src(r, toks))
            names[k] = "M"
        if r.random() < 0.3:
            parts.append(r.choice(MODULE_PRELUDE))
    return "\n\n".join(parts) + "\n", names


YAML_ATTACKS = [
    "!!python/object/apply:os.system ['touch %s']" % SENT,
    "!!python/object/apply:subprocess.Popen [['touch', '%s']]" % SENT,
    "!!python/object/new:os.system ['touch %s']" % SENT,
    "!!python/module:%s" % EVIL_MOD,
    "!!python/name:os.system",
    "!!python/object/apply:builtins.eval [\"open('%s','w')\"]" % SENT,
    "!!python/object/apply:builtins.open ['%s', 'w']" % SENT,
    "!!python/object/new:type\n  args: ['z', !!python/tuple [], {'extend': !!python/name:exec }]\n  listitems: \"import %s\"" % EVIL_MOD,
    "!!python/object/apply:builtins.__import__ ['%s']" % EVIL_MOD,
    "!!binary aGk=",
    "&a [*a]",
    "{a: &x [1, 2], b: *x}",
]


def adv_yaml_block(r):
    """the body of a ```yml … ``` block of a bottle route docstring / an OpenAPI string"""
    atk = r.choice(YAML_ATTACKS)
    shape = r.randrange(6)
    if shape == 0:
        return "responses:\n  '200':\n    description: %s\n" % atk
    if shape == 1:
        return "responses:\n  '404': { description: A `ServerError` object. }\n  '200':\n    description: A `Foo` object.\n    x: %s\n" % atk
    if shape == 2:
        return "%s\n" % atk
    if shape == 3:
        return "responses:\n  '200':\n    content:\n      application/json:\n        schema:\n          $ref: ```Foo```\n    description: %s\n" % atk
    if shape == 4:
        return "{\"responses\": {\"200\": {\"description\": \"%s\"}}}" % atk.replace("\\", "\\\\").replace('"', '\\"').replace("\n", "\\n")
    return "k: %s\nresponses:\n  '200': %s\n" % (atk, atk)


BENIGN_YAML = "responses:\n  '200':\n    description: A `Foo` object.\n    content:\n      application/json:\n        schema:\n          $ref: ```Foo```\n" \
              "  '404':\n    description: A `ServerError` object.\n"


def adv_bottle_src(r, toks, fname="read", benign_yaml=False):
    yml = BENIGN_YAML if benign_yaml else adv_yaml_block(r)
    doc = "%s\n\n```yml\n%s```\n\n:param name: %s\n:type name: ```%s```\n\n:return: x\n:rtype: ```dict```\n" % (
        r.choice(["Read one", _oneline(adv_desc(r, toks))]), yml, _oneline(adv_desc(r, toks)), adv_type(r))
    route = r.choice(["/api/foo/:name", "/api/foo", "/" + PAYLOADS[0]])
    return "@%s.%s(%r)\ndef %s(name=%s):\n    %s\n    return %s\n" % (r.choice(["app", "rest_api"]), r.choice(["get", "post", "delete", "patch"]), route, fname,
                                                                    _expr(r), _q(doc), _expr(r))


def adv_fastapi_src(r, toks, fname="create"):
    return ("@app.post(%r, response_model=%s, responses={404: {'model': %s, 'description': %r}, 200: {'model': 'Foo', 'x': %s}})\n"
            "async def %s(item: %s = %s):\n    %s\n    return %s\n") % ("/api/foo", _expr(r), r.choice(["'ServerError'", _expr(r)]), _oneline(adv_desc(r, toks)), _expr(r), fname,
                                                                       _expr(r), _expr(r), _q(adv_docstring(r, toks)), _expr(r))


def adv_json_schema(r, toks):
    props = {}
    for n in r.sample([n for n in PNAMES if n != "kwargs"], r.randint(1, 4)):
        p = {"description": adv_desc(r, toks), "type": r.choice(["string", "integer", "number", "boolean", "object", "array", r.choice(PAYLOADS)])}
        if r.random() < 0.6:
            p["default"] = r.choice([5, "x", None, True, r.choice(PAYLOADS), [r.choice(PAYLOADS)], {"a": r.choice(PAYLOADS)}])
        if r.random() < 0.3:
            p["pattern"] = r.choice(PAYLOADS)
        if r.random() < 0.3:
            p["enum"] = [r.choice(PAYLOADS), "b"]
        if r.random() < 0.2:
            p["$ref"] = "#/components/schemas/" + r.choice(PAYLOADS)
        if r.random() < 0.2:
            p["format"] = r.choice(PAYLOADS)
        props[n] = p
    return {"$id": "https://x/" + r.choice(["foo.schema.json", r.choice(PAYLOADS)]), "$schema": "https://json-schema.org/draft/2020-12/schema",
            "description": r.choice(["desc", adv_docstring(r, toks, with_return=False), r.choice(PAYLOADS)]), "type": "object", "properties": props,
            "required": r.sample(sorted(props), r.randint(0, len(props)))}


def adv_ir(r, toks):
    """an interface description (the common IR) with hostile type strings, defaults and descriptions: input of every emitter"""
    params = {}
    for n in r.sample(PNAMES, r.randint(1, 4)):
        p = {}
        if r.random() < 0.8:
            p["typ"] = adv_type(r)
        if r.random() < 0.8:
            p["doc"] = adv_desc(r, toks)
        if r.random() < 0.7:
            p["default"] = r.choice([5, 0.5, "s", True, "```%s```" % r.choice(PAYLOADS), r.choice(PAYLOADS), "```(None)```", "```%s```" % r.choice(PAREN_FREE)])
        params[n] = p
    ret = None
    if r.random() < 0.6:
        ret = {"return_type": {"typ": adv_type(r), "doc": adv_desc(r, toks)}}
        if r.random() < 0.5:
            ret["return_type"]["default"] = "```%s```" % r.choice(PAYLOADS)
    return {"name": r.choice(["F", "f", "Cfg"]), "doc": r.choice(["Doc.", r.choice(PAYLOADS), adv_desc(r, toks)]), "params": params, "returns": ret, "type": "static"}
