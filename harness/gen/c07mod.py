"""Generator of Python modules for C07 (doctrans): functions, async functions, methods, nested definitions and classes with
arbitrary signatures, docstrings in the three styles (or none), comments and simple bodies.  All randomness from `rng`."""
from __future__ import annotations

TQ2 = '"' * 3
TQ1 = "'" * 3

PNAMES = ["a", "b", "foo", "bar_baz", "x1", "dataset_name", "K", "as_numpy", "lr", "epochs", "alpha", "n_items", "path_to", "verbose"]
TYPES = ["int", "float", "str", "bool", "Optional[int]", "List[str]", "Dict[str, int]", "Union[int, str]", "np.ndarray",
         "Callable[[int], str]", "Literal['a', 'b']", "Tuple[int, ...]"]
RET_TYPES = ["int", "str", "bool", "Optional[str]", "Tuple[()]", "Annotated[int, Gt(0)]", "Dict[str, int]", "List[Tuple[int, str]]",
             "Callable[[], None]", "None", '"Forward"', "np.ndarray", "Tuple[(int, str)]"]
DEFAULTS = {"int": ["0", "1", "-3", "42"], "float": ["0.5", "1.0", "-2.5"], "str": ['"mnist"', "'foo'", '"a, b"', '"(x)"', '"k: v"'], "bool": ["True", "False"],
            None: ["None", "1", "()", "(1, 2)", "[]", "{}", "lambda x: x", '"s"', "os.sep", "f(1)", "{'k': (1, 2)}", "-1"]}
DOCS = ["the alpha thing", "dataset name", "learning rate used", "a thing", "some text here", "flag for verbosity", "batch count here"]
SUMMARIES = ["Summary line.", "Do the thing.", "Compute a value from the inputs given.", "Short",
             "A much longer summary line that goes on and on so that word wrapping at the default width has something to do with it, really."]
DECOS = ["@dec", "@a.b", "@dec(1, x=[2])", "@functools.wraps(g)", "@dec()", "@cache"]
COMMENTS = ["# a comment", "# TODO: fix (later)", "# x -> y: z", "#no space", "# type: ignore", "#"]
SIMPLE = ["x = 1", "y = foo(a, b)", "z: int = 3", "w: str", "total += 1", "print('(')", "data = {'k': [1, 2]}", "del x", "assert x, 'msg'", "s = 'it''s'",
          "t = (1,\n{ind}     2)", "u = [\n{ind}    1,\n{ind}]", "v = a if b else c", "import os", "from typing import Optional", "q = \"\"\"not a doc\"\"\"",
          "lam = lambda k: k + 1", "global G", "r: Optional[int] = None"]


class Ctx:
    def __init__(self, rng):
        self.rng = rng
        self.n = 0
        self.features = set()

    def fresh(self, base="f"):
        self.n += 1
        return "%s%d" % (base, self.n)


def gen_params(c: Ctx, method: bool):
    """-> list of dicts {name, ann, default, kind} kind ∈ pos|posonly|vararg|kwonly|kwarg"""
    r = c.rng
    ps = []
    n = r.choice([0, 1, 1, 2, 2, 3, 4])
    names = r.sample(PNAMES, n)
    style = r.random()
    # annotation policy: none / all / mixed
    pol = r.choice(["none", "none", "all", "mixed"])
    first_default = r.randint(0, n) if r.random() < 0.5 else n
    if method:
        ps.append({"name": r.choice(["self", "self", "cls"]), "ann": None, "default": None, "kind": "pos"})
    n_posonly = r.randint(1, n) if (n and r.random() < 0.08) else 0
    for i, nm in enumerate(names):
        typ = r.choice(TYPES)
        ann = typ if (pol == "all" or (pol == "mixed" and r.random() < 0.5)) else None
        default = None
        if i >= first_default:
            base = typ if typ in DEFAULTS else None
            default = r.choice(DEFAULTS[base])
        ps.append({"name": nm, "ann": ann, "default": default, "kind": "posonly" if i < n_posonly else "pos", "typ": typ})
    rest = [x for x in PNAMES if x not in names]
    if r.random() < 0.15:
        ps.append({"name": "args", "ann": r.choice([None, None, "int"]), "default": None, "kind": "vararg", "typ": "int"})
        c.features.add("vararg")
    if r.random() < 0.15:
        for nm in r.sample(rest, r.randint(1, 2)):
            typ = r.choice(TYPES)
            ps.append({"name": nm, "ann": typ if pol == "all" else None, "default": r.choice([None, r.choice(DEFAULTS[None])]), "kind": "kwonly", "typ": typ})
        c.features.add("kwonly")
    if r.random() < 0.15:
        ps.append({"name": "kwargs", "ann": r.choice([None, None, "Any"]), "default": None, "kind": "kwarg", "typ": "Any"})
        c.features.add("kwarg")
    if n_posonly:
        c.features.add("posonly")
    if any(p["default"] for p in ps):
        c.features.add("default")
    return ps


def render_params(c: Ctx, ps):
    """-> list of parameter source pieces (with `/` and `*` markers)"""
    r = c.rng
    out = []
    seen_star = False
    last_posonly = max([i for i, p in enumerate(ps) if p["kind"] == "posonly"], default=-1)
    if last_posonly >= 0 and ps and ps[0]["name"] in ("self", "cls"):
        ps[0]["kind"] = "posonly"
    for i, p in enumerate(ps):
        s = p["name"]
        if p["kind"] == "vararg":
            s = "*" + s
            seen_star = True
        elif p["kind"] == "kwarg":
            s = "**" + s
        elif p["kind"] == "kwonly" and not seen_star:
            out.append("*")
            seen_star = True
        if p["ann"]:
            s += ": " + p["ann"] if r.random() < 0.9 else ":" + p["ann"]
        if p["default"] is not None:
            s += (" = " if p["ann"] else "=") + p["default"] if r.random() < 0.9 else "=" + p["default"]
        out.append(s)
        if i == last_posonly:
            out.append("/")
    return out


def docstring_lines(c: Ctx, style, ps, ret_typ, documented_types: bool):
    """Lines of a docstring body (without quotes / indentation) in one of the three styles."""
    r = c.rng
    lines = []
    summary = r.choice(SUMMARIES)
    if r.random() < 0.015:
        summary += r.choice([" Sep is \\t, not \\\\.", " Ends a line with \\r\\n.", " A backslash: \\\\"])  # escape sequences in the docstring text
        c.features.add("escape-in-docstring")
    if r.random() < 0.9:
        lines.append(summary)
        if r.random() < 0.2:
            lines += ["", "Longer description here,", "on two lines."]
    docd = [p for p in ps if p["name"] not in ("self", "cls") and p["kind"] in ("pos", "posonly", "kwonly") and r.random() < 0.85]
    if r.random() < 0.1:
        docd = []
    want_ret = ret_typ is not None or r.random() < 0.3
    rt = ret_typ if ret_typ is not None else r.choice(["int", "str", "Optional[str]"])
    rt = rt.strip('"')
    if style == "rest":
        for p in docd:
            lines += ["", ":param %s: %s" % (p["name"], r.choice(DOCS))]
            if documented_types or p["ann"] is None and r.random() < 0.7:
                lines.append(":type %s: ```%s```" % (p["name"], p["typ"]))
        if want_ret:
            lines += ["", ":return: %s" % r.choice(DOCS)]
            if r.random() < 0.8:
                lines.append(":rtype: ```%s```" % rt)
    elif style == "google":
        if docd:
            lines += ["", "Args:"]
            for p in docd:
                if documented_types or p["ann"] is None and r.random() < 0.7:
                    lines.append("  %s (%s): %s" % (p["name"], p["typ"], r.choice(DOCS)))
                else:
                    lines.append("  %s: %s" % (p["name"], r.choice(DOCS)))
        if want_ret:
            lines += ["", "Returns:", "  %s: %s" % (rt, r.choice(DOCS))]
    else:  # numpydoc
        if docd:
            lines += ["", "Parameters", "----------"]
            for p in docd:
                if documented_types or p["ann"] is None and r.random() < 0.7:
                    lines.append("%s : %s" % (p["name"], p["typ"]))
                else:
                    lines.append("%s" % p["name"])
                lines.append("    %s" % r.choice(DOCS))
        if want_ret:
            lines += ["", "Returns", "-------", rt, "    %s" % r.choice(DOCS)]
    return lines


def render_docstring(c: Ctx, ind, lines):
    r = c.rng
    q = TQ2 if r.random() < 0.85 else TQ1
    k = r.random()
    if k < 0.02 and lines:
        c.features.add("one-quote-docstring")
        return [ind + '"' + lines[0] + '"']
    if k < 0.04 and lines:
        c.features.add("raw-docstring")
        return [ind + "r" + TQ2 + lines[0] + TQ2]
    if k < 0.05 and lines:
        c.features.add("triple-dq-in-docstring")
        return [ind + TQ1 + lines[0] + " " + TQ2 + "quoted" + TQ2] + [(ind + l) if l else "" for l in lines[1:]] + [ind + TQ1]
    if not lines:
        return [ind + q + q] if r.random() < 0.5 else [ind + q + " " + q]
    if len(lines) == 1 and r.random() < 0.6:
        if r.random() < 0.04:
            c.features.add("docstring-then-comment")
            return [ind + q + lines[0] + q + "  # noqa"]
        return [ind + q + lines[0] + q]
    k = r.random()
    body = [(ind + l) if l else "" for l in lines]
    if k < 0.6:
        return [ind + q] + body + [ind + q]
    if k < 0.85:
        return [ind + q + lines[0]] + body[1:] + [ind + q]
    return [ind + q + lines[0]] + body[1:-1] + [body[-1] + q] if len(body) > 1 else [ind + q + lines[0] + q]


def gen_body(c: Ctx, ind, depth, ps, ret):
    r = c.rng
    out = []
    k0 = r.random()
    if k0 < 0.015:
        out.append(r.choice(["", "  ", ind + "    "]) + r.choice(COMMENTS))  # a comment not indented like the body
        c.features.add("odd-comment-indent")
    elif k0 < 0.03:
        out.append(r.choice(["  ", "\t", ind + " "]))  # whitespace-only line
        c.features.add("whitespace-line")
    elif k0 < 0.04:
        out.append(ind + r.choice(["todo", "None", "NotImplemented"]))  # a bare name / None as first statement
        c.features.add("bare-name-first")
    for _ in range(r.choice([0, 1, 1, 2, 3])):
        k = r.random()
        if k < 0.15:
            out.append(ind + r.choice(COMMENTS))
        elif k < 0.153:
            out.append(ind + r.choice(["# 1) first step", "# :-)", "# see (a"]))  # a bracket that is not closed inside the comment
            c.features.add("unbalanced-comment")
        elif k < 0.25:
            out.append("")
        elif k < 0.35:
            out += [ind + "if x:", ind + "    y = 1  # inline", ind + "else:", ind + "    y = 2"]
        elif k < 0.42:
            out += [ind + "for i in range(3):", ind + "    total = i"]
        elif k < 0.5 and depth < 2:
            out += gen_function(c, ind, depth + 1, method=False)
            c.features.add("nested")
        elif k < 0.55 and depth < 2:
            out += gen_class(c, ind, depth + 1)
            c.features.add("nested-class")
        else:
            out.append(ind + r.choice(SIMPLE).replace("{ind}", ind))
    k = r.random()
    if ret is not None or k < 0.5:
        out.append(ind + "return " + r.choice(["x", "None", "(1, 2)", "a", "{'k': 1}", '"s"', "5", "True", "[]"]) + (r.choice(["", "  " + r.choice(COMMENTS)])))
    elif not out or all(not l.strip() or l.strip().startswith("#") for l in out):
        out.append(ind + r.choice(["pass", "...", "return", "raise NotImplementedError()"]))
    return out


def gen_function(c: Ctx, ind, depth, method, name=None, force=None):
    """-> list of source lines"""
    r = c.rng
    force = force or {}
    out = []
    for _ in range(r.choice([0, 0, 0, 1, 1, 2])):
        d = r.choice(DECOS)
        out.append(ind + d + r.choice(["", "", "  " + r.choice(COMMENTS)]))
        c.features.add("decorator" + ("-paren" if "(" in d else ""))
    is_async = force.get("async", r.random() < 0.2)
    if is_async:
        c.features.add("async")
    name = name or (r.choice(["run", "__init__", "get", "step"]) if method and r.random() < 0.6 else c.fresh("f"))
    ps = gen_params(c, method)
    pieces = render_params(c, ps)
    ret = r.choice(RET_TYPES) if r.random() < 0.4 else None
    if ret and "(" in ret:
        c.features.add("ret-paren")
    rets = (" -> " + ret if r.random() < 0.9 else "->" + ret) if ret else ""
    head = ("async " if is_async else "") + "def " + name
    layout = r.random()
    if layout < 0.7 or not pieces:
        hdr = [ind + head + "(" + ", ".join(pieces) + ")" + rets + ":"]
    elif layout < 0.85:
        c.features.add("multiline-header")
        trailing = r.random() < 0.5 and not pieces[-1].startswith("**") and pieces[-1] != "/"
        hdr = [ind + head + "("]
        # PEP 484 per-argument type comments (`a,  # type: int`): plain comments for `ast.parse`, `arg.type_comment` under
        # `type_comments=True`
        arg_tc = r.random() < 0.25
        for i, p in enumerate(pieces):
            last = i == len(pieces) - 1
            cm = ""
            if arg_tc and p not in ("*", "/") and ":" not in p.split("=")[0] and r.random() < 0.8:
                cm = "  # type: " + r.choice(["int", "float", "str", "bool", "Optional[int]", "List[str]"])
                c.features.add("arg-type-comment")
            elif r.random() < 0.15:
                cm = "  " + r.choice(COMMENTS)
                c.features.add("header-comment")
            hdr.append(ind + "    " + p + ("," if (not last or trailing) else "") + cm)
        hdr.append(ind + ")" + rets + ":")
    else:
        c.features.add("multiline-header")
        pad = " " * (len(head) + 1)
        hdr = [ind + head + "(" + pieces[0] + ("," if len(pieces) > 1 else "")]
        for i, p in enumerate(pieces[1:], 1):
            hdr.append(ind + pad + p + ("," if i < len(pieces) - 1 else ""))
        hdr[-1] += ")" + rets + ":"
    style = force.get("style", r.choice([None, "rest", "rest", "google", "numpydoc"]))
    body_ind = ind + r.choice(["    ", "    ", "    ", "    ", "  ", "\t"])
    stub = r.random() < 0.08 if "stub" not in force else force["stub"]
    if stub and style is None:
        c.features.add("stub")
        if r.random() < 0.5:
            hdr[-1] += " ..." + r.choice(["", "  # stub"])
            return out + hdr
        return out + hdr + [body_ind + "..."]
    if r.random() < 0.15:
        hdr[-1] += "  " + r.choice(COMMENTS)
        c.features.add("header-tail-comment")
    doc = []
    if style is not None:
        c.features.add("doc-" + style)
        lines = docstring_lines(c, style, ps, ret, documented_types=r.random() < 0.6)
        doc = render_docstring(c, body_ind, lines)
    only_doc = bool(doc) and r.random() < 0.1
    if only_doc:
        c.features.add("docstring-only-body")
        return out + hdr + doc
    return out + hdr + doc + gen_body(c, body_ind, depth, ps, ret)


def gen_class(c: Ctx, ind, depth):
    r = c.rng
    out = []
    for _ in range(r.choice([0, 0, 0, 1])):
        out.append(ind + r.choice(DECOS))
    name = c.fresh("C")
    bases = r.choice(["", "", "(object)", "(Base)", "(A, B)", "(Base, metaclass=M)", "()"])
    out.append(ind + "class " + name + bases + ":" + r.choice(["", "", "  " + r.choice(COMMENTS)]))
    b = ind + "    "
    k = r.random()
    if k < 0.6:
        lines = [r.choice(SUMMARIES)]
        if r.random() < 0.4:
            lines += ["", ":cvar attr: %s" % r.choice(DOCS), ":vartype attr: ```int```"] if r.random() < 0.5 else ["", "Attributes:", "  attr (int): %s" % r.choice(DOCS)]
        out += render_docstring(c, b, lines)
        c.features.add("class-doc")
    n_items = r.choice([1, 2, 2, 3])
    for _ in range(n_items):
        k = r.random()
        if k < 0.2:
            out.append(b + r.choice(["attr: int = 5", "attr = 5", "name: str", "K = (1, 2)", "opt: Optional[str] = None"]))
        elif k < 0.3:
            out.append(b + r.choice(COMMENTS))
        elif k < 0.35:
            out.append("")
        else:
            out += gen_function(c, b, depth, method=True)
            c.features.add("method")
    hdr_at = max(i for i, l in enumerate(out) if l.startswith(ind + "class " + name))
    rest = out[hdr_at + 1:]
    # a class body needs at least one statement besides comments / blank lines (a docstring counts)
    if all((not l.strip()) or l.strip().startswith("#") for l in rest):
        out.append(b + "pass")
    return out


def gen_module(rng, force=None):
    """-> (source, feature set)"""
    c = Ctx(rng)
    r = rng
    out = []
    if r.random() < 0.3:
        out += [TQ2 + "Module docstring." + TQ2, ""]
    if r.random() < 0.5:
        out += [r.choice(COMMENTS)]
    if r.random() < 0.6:
        out += ["from typing import Optional, List, Dict, Tuple", "import os", ""]
    for _ in range(r.choice([1, 1, 2, 2, 3, 4])):
        k = r.random()
        if k < 0.55:
            out += gen_function(c, "", 0, method=False, force=force)
        elif k < 0.8:
            out += gen_class(c, "", 0)
        elif k < 0.88:
            # incl. a form-feed page break on its own line and control characters inside a string literal (legal source; str.splitlines would split there)
            out.append(r.choice(["X = 1", "Y: int = 2", "Z: str", "NAMES = ['a', 'b']", "T = Tuple[()]", "\x0c", "PAGE_BREAK = 'a\x0cb'", "SEP = 'x\x1cy\x85z'"]))
        else:
            out.append(r.choice(COMMENTS))
        out += [""] * r.choice([0, 1, 2, 2])
    src = "\n".join(out)
    src += r.choice(["\n", "\n", "\n", "", "\n\n"])
    return src, sorted(c.features)


def with_failure(rng):
    """A module that really changes plus a definition on which the CST stage raises."""
    r = rng
    c = Ctx(rng)
    changing = gen_function(c, "", 0, method=False, force={"style": r.choice(["rest", "google", "numpydoc"]), "stub": False, "async": False})
    kind = r.choice(["stub-same-line", "stub-next-line", "empty-docstring", "num-body", "ret-string-colon", "bytes-body"])
    if kind == "stub-same-line":
        bad = ["def stub_%d(a, b=2): ..." % r.randint(0, 9)]
    elif kind == "stub-next-line":
        bad = ["def stub_%d(a):" % r.randint(0, 9), "    ..."]
    elif kind == "empty-docstring":
        bad = ["def ed(a):", "    " + TQ2 + TQ2, "    return a"]
    elif kind == "num-body":
        bad = ["def nb(a):", "    1", "    return a"]
    elif kind == "bytes-body":
        bad = ["def bb(a):", "    b'doc'", "    return a"]
    else:
        bad = ["def rs(a) -> \"k: v\":", "    return a"]
    parts = [changing, bad]
    if r.random() < 0.5:
        parts.reverse()
    src = "\n".join(parts[0] + ["", ""] + parts[1]) + "\n"
    return src, ["inject-" + kind] + sorted(c.features)
