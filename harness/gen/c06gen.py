"""Generators for C06: interface descriptions in the JSON-representable domain, in the *structured* form the Lean
driver reads (`S`), plus the conversion to the Python IR dict the real code takes.

S = {"name": str|None, "doc": str, "params": [[name, {"typ": T, "doc": str|None, "default": D|None, "none_as": …}]],
     "returns": None | {"typ": T, "doc": str|None}}
T = {"opt": bool, "base": "int"|…} | {"opt": bool, "lit": [members]}
D = ["i", int] | ["f", repr] | ["b", bool] | ["s", str] | ["n"]
"""
from __future__ import annotations

import string
from collections import OrderedDict

BASES = ["int", "float", "str", "bool", "dict", "list"]
NAMES = ["a", "b", "foo", "bar_baz", "x1", "dataset_name", "K", "as_numpy", "lr", "epochs", "alpha", "beta", "n_items",
         "path_to", "verbose_flag", "kwargs", "tf_kwargs", "optim_kwargs", "_private", "required", "type", "default",
         "properties", "description", "pattern", "Z9", "i", "data_loader_kwargs", "kwargs_x"]
MEMBERS = ["alpha", "beta", "gamma", "b2", "x_1", "A", "Z9", "_u", "m_0_k", "0", "007", "a", "ab", "abc", "Optional",
           "None", "Literal", "int", "__", "v1_2_3", "UPPER", "MixedCase9", "str", "x"]
TRIGGERS = [":param", ":cvar", ":ivar", ":var", ":type", ":raises", ":return", ":rtype", "Args:", "Kwargs:", "Raises:", "Returns:"]
PRINTABLE = [chr(c) for c in range(0x20, 0x7F)]
FRAGS = ["Args", "Returns", "Parameters", ":", "::", "```", "`", "-", "- -", ".", "Optional", "return", "param", "type",
         " or ", " of ", "List of", "None", "True if", "\\", "'", '"', "{", "}", "(", ")", "[", "]", "%s", "{0}", "e.g.",
         "the", "dataset", "name", "learning rate", "number of", "flag", "#", "|"]
NONE_REPRS = ["NoneStr", "None", "'None'"]
NONE_STR = "```(None)```"


# ------------------------------------------------------------------------------------------------------------------
# types
# ------------------------------------------------------------------------------------------------------------------
META = ".^$*+?{}[]\\|()"  # characters with a special meaning in a Python regular expression
PLAIN_PUNCT = " -,:;!\"#%&/<=>@`~"  # printable, stand for themselves in a regular expression, fine inside '…'
WIDE_MEMBERS = ["pre-release", "stable", "long term", "a.b", "c+d", "v1.2", "x (beta)", "C++", "a-b", "two words", " lead", "trail ",
                "a,b", "50%", "#1", "e-mail", "key=value", "x]", "q{", "}r", "a*", "*b", "a?", "b$", "^c", "a{2}", "a(b", "a)", "a[b",
                "[x]", "Optional[x", "~/data", "<none>", "a&b", "semi;colon", "what?!", "tab-less", "", "."]


def gen_member(r, wide=True):
    """A Literal member.  wide: arbitrary short printable ASCII (legal inside a Python string literal); a few contain the
    characters the domain excludes (`|` the pattern separator; `'` and `\\`, which the parser does not re-escape)."""
    k = r.random()
    if not wide or k < 0.45:
        if r.random() < 0.7:
            return r.choice(MEMBERS)
        return "".join(r.choice(string.ascii_letters + string.digits + "_") for _ in range(r.randint(1, 9)))
    if k < 0.62:
        return r.choice(WIDE_MEMBERS)
    n = r.randint(1, 8)
    if k < 0.85:  # no metacharacter
        return "".join(r.choice(string.ascii_letters + string.digits + "_" + PLAIN_PUNCT) for _ in range(n))
    if k < 0.95:  # printable ASCII without | ' \\
        return "".join(r.choice([c for c in PRINTABLE if c not in "|'\\"]) for _ in range(n))
    if k < 0.975:
        return "".join(r.choice(string.ascii_lowercase + "|") for _ in range(n)) + r.choice(["|x", "", "|"])
    return "".join(r.choice(string.ascii_lowercase + "'\\\"") for _ in range(n)) + r.choice(["'", "\\", "'s"])


def gen_typ(r, max_members=5, wide=True):
    opt = r.random() < 0.4
    if r.random() < 0.3:
        n = r.randint(1, max(2, max_members))  # one-member Literals included (subscript is the member itself, not a Tuple)
        ms = [gen_member(r, wide) for _ in range(n)]
        if r.random() < 0.85:  # mostly distinct members; duplicates are legal Python
            ms = list(OrderedDict.fromkeys(ms))
        return {"opt": opt, "lit": ms}
    return {"opt": opt, "base": r.choice(BASES)}


def render_core(t) -> str:
    if "lit" in t:
        return "Literal[%s]" % ", ".join(repr(m) for m in t["lit"])  # Python's own quoting ('…' unless the member has a ')
    return t["base"]


def render_typ(t) -> str:
    return "Optional[%s]" % render_core(t) if t["opt"] else render_core(t)


def has_meta(ms) -> bool:
    return any(c in META for m in ms for c in m)


def lit_region(t) -> str:
    """Where a Literal parameter type lies with respect to the round-trip domain (lean: Typ.ok)."""
    ms = t["lit"]
    if any("|" in m for m in ms):
        return "member-with-bar"
    if any("'" in m or "\\" in m for m in ms):
        return "member-with-quote-or-backslash"
    if ms == [""]:
        return "only-empty-member"
    if "Optional[" in "Literal[%s]" % ", ".join("'%s'" % m for m in sorted(ms)):
        return "member-containing-Optional["
    return "domain"


def S_in_domain(S) -> bool:
    """Python mirror of the Lean `IR.ok` as far as Literal members go (the generators keep everything else inside)."""
    return all(lit_region(p["typ"]) == "domain" for _, p in S["params"] if "lit" in p["typ"])


# ------------------------------------------------------------------------------------------------------------------
# prose (trigger-free domain of the reference description model)
# ------------------------------------------------------------------------------------------------------------------
def line_ok(l: str, ret: bool = False) -> bool:
    if any(t in l for t in TRIGGERS) or l.startswith("--") or l != l.strip(" "):
        return False
    if not all(0x20 <= ord(c) < 0x7F for c in l):
        return False
    if ret and "efault" in "".join(chr(ord(c) + 32) if "A" <= c <= "Z" else c for c in l):
        return False
    return True


def gen_line(r, maxlen, ret=False):
    while True:
        n = r.randint(1, maxlen)
        out = ""
        while len(out) < n:
            k = r.random()
            if k < 0.5:
                out += r.choice(string.ascii_letters)
            elif k < 0.66:
                out += " "
            elif k < 0.82:
                out += r.choice(PRINTABLE)
            else:
                out += r.choice(FRAGS)
        out = out[:maxlen].strip(" ")
        if out and line_ok(out, ret):
            return out


def gen_doc(r):
    k = r.random()
    if k < 0.2:
        return ""
    if k < 0.5:
        return r.choice(["Summary line.", "Do the thing", "Summary line.\n\nLonger description here.", "Train: the model (v2)",
                         "x", "First.\nSecond line\n\n\nAfter two blanks"])
    ls = [gen_line(r, 70)]
    while r.random() < 0.4:
        if r.random() < 0.25:
            ls.append("")
        ls.append(gen_line(r, 130))
    return "\n".join(ls)


def gen_param_doc(r):
    k = r.random()
    if k < 0.3:
        return None
    if k < 0.36:
        return ""
    if k < 0.7:
        return r.choice(["the alpha thing", "dataset name", "learning rate used", "a thing.", "Defaults to 5", "Optional. flag",
                         "some: text `here`", "multi\nline doc", " leading and trailing ", "naïve – unicode ✓", 'quote " and \\ backslash'])
    return gen_line(r, 80)


def gen_ret_doc(r):
    k = r.random()
    if k < 0.35:
        return None
    if k < 0.6:
        return r.choice(["the result", "Result value.", "x", "a: b, c", "the trained model (or nothing)"])
    return gen_line(r, 91, ret=True)


# ------------------------------------------------------------------------------------------------------------------
# defaults
# ------------------------------------------------------------------------------------------------------------------
def gen_float_repr(r):
    while True:
        s = r.choice(["0.5", "1.0", "-2.5", "0.001", "3.14", "100.0", "-0.0", "0.0", "123456.789"]) if r.random() < 0.5 else \
            "%s%d.%d" % (r.choice(["", "-"]), r.randint(0, 99999), r.randint(0, 9999))
        if repr(float(s)) == s:
            return s


def gen_default(r, t, p_none=0.5):
    """A default of the parameter's own type (or None → no default)."""
    if t["opt"] and r.random() < p_none:
        return ["n"]
    if "lit" in t:
        return ["s", r.choice(t["lit"])]
    b = t["base"]
    if b == "int":
        return ["i", r.choice([0, 1, 5, -3, 42, 100, 2 ** 70, -(2 ** 63) - 1, r.randint(-10 ** 6, 10 ** 6)])]
    if b == "float":
        return ["i", r.choice([0, 3, -7])] if r.random() < 0.15 else ["f", gen_float_repr(r)]
    if b == "str":
        return ["s", r.choice(["mnist", "foo", "bar baz", "a_b", "~/data", "", "x|y", 'q"uote', "naïve ✓", "line\nbreak", "None.", "0", "alpha", '"world"', "'x'", "'a\""])]  # incl. values that begin and end with a quote character
    if b == "bool":
        return ["b", r.random() < 0.5]
    return None  # dict / list: no typed scalar default


def default_to_py(d, none_as="NoneStr"):
    k = d[0]
    if k == "n":
        return {"NoneStr": NONE_STR, "None": None, "'None'": "None"}[none_as]
    if k == "f":
        return float(d[1])
    return d[1]


# ------------------------------------------------------------------------------------------------------------------
# interface descriptions
# ------------------------------------------------------------------------------------------------------------------
def gen_S(r, nparams=None, p_default=0.5, p_none=0.5, with_return=None, max_params=8):
    n = r.randint(0, max_params) if nparams is None else nparams
    names = r.sample(NAMES, min(n, len(NAMES)))
    while len(names) < n:
        names.append("p%d" % len(names))
    params = []
    for nm in names:
        t = gen_typ(r)
        p = {"typ": t, "doc": gen_param_doc(r), "default": None, "none_as": r.choice(NONE_REPRS)}
        if r.random() < p_default:
            p["default"] = gen_default(r, t, p_none)
        params.append([nm, p])
    ret = None
    if (r.random() < 0.5) if with_return is None else with_return:
        while True:
            t = gen_typ(r, max_members=3, wide=False)  # the return type travels through the docstring: word members
            if len(":rtype: ```%s```" % render_typ(t)) <= 100:
                break
        ret = {"typ": t, "doc": gen_ret_doc(r)}
    return {"name": r.choice(["F", "F", "train_model", "C_1", None, "x"]), "doc": gen_doc(r), "params": params, "returns": ret}


RET_DEFAULTS = {
    "int": [["i", 0], ["i", 0], ["i", 3], ["i", -3], ["i", 42], ["i", 2 ** 70]],
    "float": [["f", "0.0"], ["f", "0.0"], ["f", "1.5"], ["f", "-2.5"], ["f", "0.001"], ["f", "100.0"], ["f", "-0.0"]],
    "bool": [["b", False], ["b", False], ["b", True]],
    "str": [["s", "abc"], ["s", "mnist"], ["s", "a b"], ["s", "5"], ["s", "a_b"], ["s", "~/data"], ["s", ""], ["s", "x.y"]],
}


def gen_retdefault_S(r):
    """An interface whose *return entry* carries a typed default (it travels through the description text as
    "… Defaults to X"); falsy defaults (0, 0.0, False) are drawn often.  Outside the Lean description model: oracle only."""
    S = gen_S(r, with_return=True, max_params=4)
    b = r.choice(["int", "float", "bool", "str"])
    ret = {"typ": {"opt": r.random() < 0.25, "base": b}, "doc": None, "default": r.choice(RET_DEFAULTS[b]), "none_as": "NoneStr"}
    k = r.random()
    if k < 0.08:
        ret["doc"] = r.choice([None, ""])
    elif k < 0.5:
        ret["doc"] = r.choice(["the outcome.", "the outcome", "Result value.", "x", "the trained model (or nothing).", "a: b, c"])
    else:
        ret["doc"] = gen_line(r, 50, ret=True)
    if ret["typ"]["opt"] and r.random() < 0.2:
        ret["default"] = ["n"]
        ret["none_as"] = r.choice(NONE_REPRS)
    S["returns"] = ret
    return S


def to_py_ir(S) -> dict:
    """The IR dict handed to the real emitter (fresh objects on every call: the emitter mutates its input)."""
    params = OrderedDict()
    for nm, p in S["params"]:
        d = {"typ": render_typ(p["typ"])}
        if p["doc"] is not None:
            d["doc"] = p["doc"]
        if p["default"] is not None:
            d["default"] = default_to_py(p["default"], p.get("none_as", "NoneStr"))
        params[nm] = d
    ret = None
    if S["returns"] is not None:
        rt = {"typ": render_typ(S["returns"]["typ"])}
        if S["returns"]["doc"] is not None:
            rt["doc"] = S["returns"]["doc"]
        if S["returns"].get("default") is not None:
            rt["default"] = default_to_py(S["returns"]["default"], S["returns"].get("none_as", "NoneStr"))
        ret = OrderedDict((("return_type", rt),))
    return {"name": S["name"], "doc": S["doc"], "params": params, "returns": ret, "type": "static"}


def S_for_model(S) -> dict:
    return {"name": S["name"], "doc": S["doc"],
            "params": [[nm, {"typ": p["typ"], "doc": p["doc"], "default": p["default"]}] for nm, p in S["params"]],
            "returns": None if S["returns"] is None else {"typ": S["returns"]["typ"], "doc": S["returns"]["doc"]}}


# ------------------------------------------------------------------------------------------------------------------
# wire encoding of JSON values (ordered objects; ints and floats apart) — see lean/CddVerif/Driver/C06.lean
# ------------------------------------------------------------------------------------------------------------------
def to_wire(x):
    if x is None or isinstance(x, (bool, str)):
        return x
    if isinstance(x, int):
        return x
    if isinstance(x, float):
        return ["f", repr(x)]
    if isinstance(x, list):
        return ["a", [to_wire(v) for v in x]]
    if isinstance(x, dict):
        if not all(isinstance(k, str) for k in x):
            return ["!", "dict-with-non-str-key"]
        return ["o", [[k, to_wire(v)] for k, v in x.items()]]
    return ["!", type(x).__name__]  # not a JSON type: never equal to anything the model produces


def from_wire(w):
    if isinstance(w, list):
        if w[0] == "f":
            return float(w[1])
        if w[0] == "a":
            return [from_wire(v) for v in w[1]]
        if w[0] == "o":
            return {k: from_wire(v) for k, v in w[1]}
        raise ValueError(w)
    return w


def canon_schema(w):
    """View of an emitted schema compared between code and model: top-level keys as a set, `properties` in order,
    keys inside a property sorted, `required` sorted (its order is not part of the property)."""
    if not (isinstance(w, list) and w and w[0] == "o"):
        return w
    out = {}
    for k, v in w[1]:
        if k == "properties" and isinstance(v, list) and v and v[0] == "o":
            out[k] = [[n, sorted(p[1], key=lambda kv: kv[0]) if isinstance(p, list) and p and p[0] == "o" else p] for n, p in v[1]]
        elif k == "required" and isinstance(v, list) and v and v[0] == "a":
            out[k] = sorted(v[1], key=repr)
        else:
            out[k] = v
    return out
