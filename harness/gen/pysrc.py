"""Python-shaped text generator for the CST properties (C09, C07): headers with same-line tails, decorators,
comments, docstrings on the header line, continuation lines, unbalanced brackets."""

TQ2 = '"' * 3
TQ1 = "'" * 3

HEADERS = ["def f(a):", "def g(a, b=(1, 2)) -> int:", "class A(B):", "class C:", "async def h(x):", "if x:", "else:", "for i in y:",
           "with open(p) as f:", "try:", "except E:", "while x:", "@dec", "@dec(1, x=[2])", "@a.b", "def f:", "class K(object):", "lambda: 0"]
TAILS = ["", " ", "  ", "\t", " # comment", "  # c: d", " " + TQ2 + "doc" + TQ2, " " + TQ1 + "doc" + TQ1, " " + TQ2 + "Return 1" + TQ2 + "; return 1",
         " pass", " return (1,", " x = {", " \\", " " + TQ2 + "multi", " line" + TQ2, " ...", " x = [1,", " 2]", ")", " x: int = 5", " y += 1",
         ' s = "a#b"', " s = 'it\\'s'", " # -*- coding -*-", " " + TQ2 + TQ2]
STMTS = ["x = 1", "foo(a, b)", "return x", "pass", "import os", "from a import b", "x: int = 3", "y += 2", TQ1 + "d" + TQ1, TQ2 + "d" + TQ2, TQ2, TQ1,
         "# only comment", "print('(')", "z = (", ")", "[1, 2,", "3]", "{", "}", "@", "\\", "", " ", "yield x", "raise E", "a = b = c", "d = {'k': 'v'}"]


def structured(rng) -> str:
    lines = []
    for _ in range(rng.randint(1, 7)):
        ind = " " * rng.choice([0, 0, 4, 4, 8, 2, 1])
        k = rng.random()
        if k < 0.45:
            lines.append(ind + rng.choice(HEADERS) + rng.choice(TAILS))
        elif k < 0.85:
            lines.append(ind + rng.choice(STMTS) + (rng.choice(TAILS) if rng.random() < 0.3 else ""))
        else:
            lines.append(rng.choice(["", " ", "\t", "    "]))
    sep = "\n" if rng.random() < 0.93 else rng.choice(["\r\n", "\n\n", "\x0c\n"])
    return sep.join(lines) + rng.choice(["", "\n", "\n", " ", "\n\n"])


def header_tail_grid():
    for h in HEADERS:
        for t in TAILS:
            for pre in ("", "    ", "@dec\n", "x = 1\n", "    @dec(1)  # c\n"):
                for post in ("", "\n", "\n    pass\n", "\n    x = 1\n    y:\n"):
                    yield pre + h + t + post
