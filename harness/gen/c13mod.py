"""Generator for C13: pairs of modules (as the flat JSON AST of harness/impl/pyast.py) with classes (annotated
attributes with and without values, plain assignments, methods, property getter/setter pairs, overload stubs),
functions at module level (1..5 parameters, defaults right-aligned, self/cls first also outside classes, positional-only,
*args, keyword-only, **kwargs), same-named definitions, top-level annotated variables and evaluable constants;
and the enumeration of the *intended* dotted paths of a module."""
from __future__ import annotations

import copy

NAMES = ["a", "b", "c", "x", "y", "p", "q", "value", "n", "mode"]
CLASSES = ["A", "B", "K", "Cfg"]
FUNCS = ["f", "g", "h", "run", "mk"]
ANNS = ["int", "str", "float", "bool", "Optional[int]", "List[str]", "Literal['a', 'b']", "Dict[str, int]", "'Fwd'", "np.ndarray",
        "int | None", "Tuple[int, ...]", "Callable[[int], str]", "Literal['x']"]
DEFAULTS = ["0", "1", "-1", "1.5", "'s'", "None", "True", "[]", "()", "{}", "(1, 2)", "os.sep", "mk(1)", "'b c'", "2 ** 8"]
NAME_STRINGS = ["'x'", "'b'", "'a'", "'value'"]  # string constants equal to parameter names (constant/location clash)
INERT = ["import os", "import sys", "from typing import Optional, List, Literal", "pass", "import numpy as np", "assert True", "n0 += 1",
         "print('hi')", "if os.sep:\n    import sys", "raise SystemExit", "global G", "del os"]
DOCS_STABLE = ["Doc.", "Summary line.\n\nMore text here.", "One.\n\n:param a: thing\n:type a: ```int```", "Usage:\n\n    code(block)\n\nend."]
DOCS_UNSTABLE = ["  Foo  ", "Trailing  \n   spaces   ", "\tTabbed\n\t\tmore"]
WRAPS = ["Optional[{output_param}]", "Optional[Union[{output_param}, str]]", "List[{output_param}]", "{output_param} | None",
         "Annotated[{output_param}, 'meta']", "Union[{output_param}, {output_param}]"]
EVAL_VALUES = ["('a', 'b')", "['x']", "(1, 2, 3)", "('a', 1, None, True, 1.5)", "tuple(range(3))", "('it\\'s', 'q\"')", "['only']",
               "tuple(sorted({'k2': 1, 'k1': 2}.keys()))", "(-1, 'b c')", "('a\\\\b', 'new\\nline')", "(\"'quoted'\", 'plain')", "('\"dq\"',)",
               "(1e100, -0.5)", "('é', 'λx')"]


def mk_arg(r, name, p_ann=0.5):
    return {"name": name, "ann": r.choice(ANNS) if r.random() < p_ann else None}


SAFE = [False]  # set while generating a module that `--input-eval` will execute


def gen_default(r):
    k = r.random()
    if k < 0.06:
        return r.choice(NAME_STRINGS)
    if SAFE[0]:
        return r.choice(DEFAULTS[:11])
    return r.choice(DEFAULTS)


def gen_args(r, first=None, nmax=5, exotic=True):
    """`first`: None | 'self' | 'cls'. 1..nmax parameters in total."""
    n = r.randint(1, nmax)
    names = r.sample(NAMES, min(n, len(NAMES)))
    if first:
        names = [first] + names[: n - 1]
    posonly, args, kwonly = [], [], []
    vararg = kwarg = None
    rest = list(names)
    if exotic and len(rest) >= 2 and r.random() < 0.07:
        posonly = [mk_arg(r, rest.pop(0))]
    nkw = 0
    if exotic and len(rest) >= 2 and r.random() < 0.3:
        nkw = r.randint(1, min(2, len(rest) - 1))
    if nkw:
        kwonly = [mk_arg(r, x) for x in rest[-nkw:]]
        rest = rest[:-nkw]
    if exotic and len(rest) >= 2 and r.random() < 0.08:
        kwarg = mk_arg(r, rest.pop(), 0.2)
    if exotic and (len(rest) >= 2 and r.random() < 0.08):
        vararg = mk_arg(r, rest.pop(), 0.2)
    args = [mk_arg(r, x, 0.0 if x in ("self", "cls") else 0.5) for x in rest]
    npos = len(posonly) + len(args)
    lo = 0
    nd = r.choice([0, 0, 1, 1, 2, npos, r.randint(lo, npos)]) if npos else 0
    nd = min(nd, npos)
    if args and args[0]["name"] in ("self", "cls") and not posonly and r.random() < 0.95:
        nd = min(nd, npos - 1)
    defaults = [gen_default(r) for _ in range(nd)]
    kw_defaults = [gen_default(r) if r.random() < 0.6 else None for _ in kwonly]
    return {"posonly": posonly, "args": args, "vararg": vararg, "kwonly": kwonly, "kw_defaults": kw_defaults, "kwarg": kwarg, "defaults": defaults}


def gen_body(r, doc_p=0.25, unstable_p=0.0):
    b = []
    if r.random() < doc_p:
        b.append({"k": "str", "s": r.choice(DOCS_UNSTABLE) if r.random() < unstable_p else r.choice(DOCS_STABLE)})
    k = r.random()
    if k < 0.5:
        b.append({"k": "other", "src": "pass"})
    elif k < 0.8:
        b.append({"k": "other", "src": "return " + r.choice(["None", "1", "'x'", "a"])})
    else:
        b.append({"k": "ann", "target": r.choice(NAMES), "ann": "int", "value": "0"})
        b.append({"k": "other", "src": "return 0"})
    return b


def gen_fn(r, name, first=None, unstable_p=0.0, decos=None, is_async=False, nmax=5):
    return {"k": "fn", "async": is_async, "name": name, "args": gen_args(r, first, nmax), "body": gen_body(r, unstable_p=unstable_p),
            "decos": decos if decos is not None else ([r.choice(["staticmethod", "classmethod"] + ([] if SAFE[0] else ["dec", "dec(1)"]))] if r.random() < 0.12 else []),
            "returns": r.choice(ANNS) if r.random() < 0.2 else None}


def gen_attr(r, name):
    k = r.random()
    if k < 0.82:
        return {"k": "ann", "target": name, "ann": r.choice(ANNS), "value": gen_default(r) if r.random() < 0.55 else None}
    return {"k": "assign", "targets": [name], "value": gen_default(r)}


def overload_pair(r, name, first, unstable_p):
    """two definitions with one dotted path; the later one has extra parameters the first lacks"""
    f1 = gen_fn(r, name, first, unstable_p, nmax=3)
    f2 = copy.deepcopy(f1)
    used = {x["name"] for k in ("posonly", "args", "kwonly") for x in f2["args"][k]}
    extra = [n for n in NAMES if n not in used]
    r.shuffle(extra)
    for n in extra[: r.randint(1, 2)]:
        if r.random() < 0.75 or not f2["args"]["kwonly"]:
            f2["args"]["args"].append(mk_arg(r, n))
            if f2["args"]["defaults"] or r.random() < 0.6:
                f2["args"]["defaults"].append(gen_default(r))
        else:
            f2["args"]["kwonly"].append(mk_arg(r, n))
            f2["args"]["kw_defaults"].append(gen_default(r) if r.random() < 0.5 else None)
    if r.random() < 0.35:
        # the earlier definition also has a (defaulted) parameter the later one lacks
        cand = [n for n in extra[2:4]]
        if cand:
            f1["args"]["args"].append(mk_arg(r, cand[0]))
            f1["args"]["defaults"].append(gen_default(r))
    if r.random() < 0.5 and not SAFE[0]:
        f1["decos"] = ["overload"]
    if r.random() < 0.2:
        f1, f2 = f2, f1
    return [f1, f2]


def gen_class(r, name, unstable_p=0.0, depth=0):
    body = []
    if r.random() < 0.3:
        body.append({"k": "str", "s": r.choice(DOCS_UNSTABLE) if r.random() < unstable_p else r.choice(DOCS_STABLE)})
    items = []
    attr_names = r.sample(NAMES, r.randint(1, 4))
    for n in attr_names:
        items.append([gen_attr(r, n)])
    if r.random() < 0.1:
        # the same attribute declared twice (declaration, later definition): two statements with one location
        items.append([gen_attr(r, r.choice(attr_names))])
    for _ in range(r.choice([0, 1, 1, 2, 3])):
        mname = r.choice(FUNCS + ["__init__", "m"])
        first = r.choice(["self", "self", "self", "cls", None])
        k = r.random()
        if k < 0.15:
            pname = r.choice(["v", "w"])
            g = gen_fn(r, pname, "self", unstable_p, decos=["property"], nmax=1)
            s = gen_fn(r, pname, "self", unstable_p, decos=[pname + ".setter"], nmax=3)
            used = {x["name"] for kk in ("posonly", "args", "kwonly") for x in s["args"][kk]} | {s["args"][kk]["name"] for kk in ("vararg", "kwarg") if s["args"][kk]}
            if len(s["args"]["args"]) < 2 and "value" not in used:
                s["args"]["args"].append(mk_arg(r, "value"))
            items.append([g, s])
        elif k < 0.3:
            items.append(overload_pair(r, mname, first, unstable_p))
        else:
            items.append([gen_fn(r, mname, first, unstable_p)])
    if depth == 0 and r.random() < 0.08:
        items.append([gen_class(r, r.choice(CLASSES), unstable_p, depth + 1)])
    if r.random() < 0.25:
        items.append([{"k": "other", "src": r.choice(["pass", "import os"] + ([] if SAFE[0] else ["print('hi')"]))}])
    if r.random() < 0.65:
        # attributes first (the usual layout), then methods
        items.sort(key=lambda it: 0 if it[0]["k"] in ("ann", "assign") else 1)
    else:
        r.shuffle(items)
    for it in items:
        body.extend(it)
    if SAFE[0]:
        return {"k": "cls", "name": name, "bases": r.choice([[], ["object"]]), "keywords": [], "body": body, "decos": []}
    return {"k": "cls", "name": name, "bases": r.choice([[], [], ["object"], ["Base"], ["Base", "Mixin"]]),
            "keywords": ["metaclass=Meta"] if r.random() < 0.04 else [], "body": body, "decos": ["dataclass"] if r.random() < 0.1 else []}


def gen_module(r, role, unstable_p=0.0, mod_doc_p=0.1, safe=False):
    """role: 'input' | 'output'; safe: the module can be executed (only names it defines, `from __future__ import annotations`)"""
    SAFE[0] = safe
    try:
        return _gen_module(r, role, unstable_p, mod_doc_p, safe)
    finally:
        SAFE[0] = False


def _gen_module(r, role, unstable_p, mod_doc_p, safe):
    items = []
    for n in r.sample(CLASSES, r.choice([1, 1, 2, 2, 3])):
        items.append([gen_class(r, n, unstable_p)])
    for n in r.sample(FUNCS, r.choice([1, 1, 2, 3])):
        first = r.choice([None, None, None, "self", "cls"])
        if r.random() < 0.15:
            items.append(overload_pair(r, n, first, unstable_p))
        else:
            items.append([gen_fn(r, n, first, unstable_p)])
    if r.random() < 0.06:
        items.append([gen_fn(r, r.choice(FUNCS), None, unstable_p, is_async=True)])
    if r.random() < 0.02:
        # a class and a function with one name
        items.append([gen_fn(r, r.choice(CLASSES), None, unstable_p)])
    for n in r.sample(NAMES, r.choice([0, 0, 1, 2])):
        items.append([{"k": "ann", "target": n, "ann": r.choice(ANNS), "value": gen_default(r) if r.random() < 0.6 else None}])
    if role == "input" or r.random() < 0.2:
        for n in r.sample(["vals", "opts", "KEYS"], r.choice([1, 1, 2])):
            items.append([{"k": "assign", "targets": [n], "value": r.choice(EVAL_VALUES)}])
    for _ in range(r.choice([0, 1, 1, 2])):
        items.append([{"k": "other", "src": r.choice(INERT[:4] if safe else INERT)}])
    k = r.random()
    if k < 0.5:
        # the usual layout: imports, constants, classes, functions
        order = {"other": 0, "assign": 1, "ann": 1, "cls": 2, "fn": 3}
        items.sort(key=lambda it: order[it[0]["k"]])
    else:
        r.shuffle(items)
    body = []
    if r.random() < mod_doc_p:
        body.append({"k": "str", "s": r.choice(DOCS_UNSTABLE) if r.random() < unstable_p else r.choice(DOCS_STABLE)})
    if safe:
        body.append({"k": "other", "src": "from __future__ import annotations"})
    for it in items:
        body.extend(it)
    return body


# ----------------------------------------------------------------------------------------------------------------
# intended dotted paths of a module (top-level variables, attributes of top-level classes, parameters of top-level
# functions and of methods of top-level classes)
# ----------------------------------------------------------------------------------------------------------------
def is_name(t):
    return t.isidentifier()


def slots(mod):
    """[{path, kind, pos, ...}] ; pos = index path into nested bodies; for parameters also list name + index"""
    out = []

    def fn_slots(fn, prefix, pos, kind_prefix):
        a = fn["args"]
        for j, x in enumerate(a["args"]):
            out.append({"path": prefix + [fn["name"], x["name"]], "kind": kind_prefix + "param", "pos": pos, "list": "args", "j": j})
        for j, x in enumerate(a["kwonly"]):
            out.append({"path": prefix + [fn["name"], x["name"]], "kind": kind_prefix + "kwonly", "pos": pos, "list": "kwonly", "j": j})
        for j, x in enumerate(a["posonly"]):
            out.append({"path": prefix + [fn["name"], x["name"]], "kind": kind_prefix + "posonly", "pos": pos, "list": "posonly", "j": j})
        for key in ("vararg", "kwarg"):
            if a[key]:
                out.append({"path": prefix + [fn["name"], a[key]["name"]], "kind": kind_prefix + key, "pos": pos, "list": key, "j": 0})

    for i, s in enumerate(mod):
        if s["k"] == "ann" and is_name(s["target"]):
            out.append({"path": [s["target"]], "kind": "var", "pos": [i]})
        elif s["k"] == "assign" and len(s["targets"]) == 1 and is_name(s["targets"][0]):
            out.append({"path": [s["targets"][0]], "kind": "var-assign", "pos": [i]})
        elif s["k"] == "fn" and not s["async"]:
            fn_slots(s, [], [i], "")
        elif s["k"] == "cls":
            for k, t in enumerate(s["body"]):
                if t["k"] == "ann" and is_name(t["target"]):
                    out.append({"path": [s["name"], t["target"]], "kind": "attr", "pos": [i, k]})
                elif t["k"] == "assign" and len(t["targets"]) == 1 and is_name(t["targets"][0]):
                    out.append({"path": [s["name"], t["targets"][0]], "kind": "attr-assign", "pos": [i, k]})
                elif t["k"] == "fn" and not t["async"]:
                    fn_slots(t, [s["name"]], [i, k], "m")
                elif t["k"] == "cls":
                    for k2, u in enumerate(t["body"]):
                        if u["k"] == "ann" and is_name(u["target"]):
                            out.append({"path": [s["name"], t["name"], u["target"]], "kind": "nested-attr", "pos": [i, k, k2]})
    return out


def stmt_at(mod, pos):
    s = None
    body = mod
    for i in pos:
        s = body[i]
        body = s.get("body", [])
    return s


def slot_item(mod, sl):
    """the JSON object of the slot (an arg dict or a statement dict)"""
    s = stmt_at(mod, sl["pos"])
    if "list" in sl:
        a = s["args"]
        return a[sl["list"]] if sl["list"] in ("vararg", "kwarg") else a[sl["list"]][sl["j"]]
    return s


def rename_slot(mod, sl, new):
    """rename the slot's item when that keeps the module valid; returns the new path or None"""
    s = stmt_at(mod, sl["pos"])
    if "list" in sl:
        a = s["args"]
        used = {x["name"] for k in ("posonly", "args", "kwonly") for x in a[k]} | {a[k]["name"] for k in ("vararg", "kwarg") if a[k]}
        it = slot_item(mod, sl)
        if new in used or it["name"] in ("self", "cls"):
            return None
        it["name"] = new
    elif s["k"] == "ann":
        s["target"] = new
    elif s["k"] == "assign":
        s["targets"] = [new]
    else:
        return None
    return sl["path"][:-1] + [new]
