"""Type-directed generators of interface descriptions (IR dicts) and of Python sources built from them."""
from __future__ import annotations

import ast
from collections import OrderedDict

NAMES = ["a", "b", "foo", "bar_baz", "x1", "dataset_name", "K", "as_numpy", "lr", "epochs", "alpha", "beta", "n_items", "path_to", "verbose_flag"]
SCALARS = ["int", "float", "str", "bool"]
DOCS = ["the alpha thing", "dataset name", "learning rate used", "a thing", "some text here", "flag for verbosity", "batch count here", "Random seed"]
MEMBERS = ["alpha", "beta", "gamma", "delta", "eps"]
ANNOUNCE = ["Defaults to {}", "defaults to {}", "Default value is {}", "Default: {}"]


def gen_typ(r, kinds=("scalar", "optional", "literal", "list", "union", "dotted")):
    k = r.choice(kinds)
    if k == "scalar":
        return r.choice(SCALARS)
    if k == "optional":
        return "Optional[%s]" % r.choice(SCALARS)
    if k == "literal":
        ms = r.sample(MEMBERS, r.randint(2, 3))
        return "Literal[%s]" % ", ".join("'%s'" % m for m in ms)
    if k == "list":
        return "List[%s]" % r.choice(SCALARS)
    if k == "union":
        return "Union[%s, %s]" % tuple(r.sample(SCALARS, 2))
    return r.choice(["np.ndarray", "tf.data.Dataset", "collections.OrderedDict"])


def gen_default(r, typ, none_ok=True):
    base = typ
    if typ.startswith("Optional["):
        if none_ok and r.random() < 0.5:
            return "```(None)```"
        base = typ[9:-1]
    if base == "int":
        return r.choice([0, 1, 5, -3, 42, 100])
    if base == "float":
        return r.choice([0.5, 1.0, -2.5, 0.001, 3.14])
    if base == "str":
        return r.choice(["mnist", "foo", "bar baz", "a_b", "~/data"])
    if base == "bool":
        return r.choice([True, False])
    if base.startswith("Literal["):
        return ast.literal_eval(base[8:-1].split(",")[0].strip())
    return None


def gen_ir(r, nparams=None, suffix_defaults=True, with_return=None, with_doc=True, p_default=0.5, kinds=None, none_ok=True, name="F"):
    n = r.randint(0, 5) if nparams is None else nparams
    names = r.sample(NAMES, n)
    params = OrderedDict()
    first_default = r.randint(0, n) if suffix_defaults else None
    kw = {} if kinds is None else {"kinds": kinds}
    for i, nm in enumerate(names):
        typ = gen_typ(r, **kw)
        p = {"typ": typ}
        if with_doc:
            p["doc"] = r.choice(DOCS)
        has_def = (i >= first_default) if suffix_defaults else (r.random() < p_default)
        if has_def:
            d = gen_default(r, typ, none_ok)
            if d is not None:
                p["default"] = d
            elif suffix_defaults:
                p["typ"] = "int"
                p["default"] = 7
        params[nm] = p
    ret = None
    if with_return is None:
        with_return = r.random() < 0.5
    if with_return:
        rt = {"typ": gen_typ(r, **kw)}
        if with_doc:
            rt["doc"] = r.choice(DOCS)
        ret = OrderedDict((("return_type", rt),))
    return {"name": name, "doc": r.choice(["", "Summary line.", "Summary line.\n\nLonger description here."]), "params": params, "returns": ret, "type": "static"}


def render_default(d):
    if d == "```(None)```":
        return "None"
    return repr(d)


def function_source(r, ir, documented=None, doc_order=None, style="rest", announce=None, two_announce=False):
    """A function whose ReST docstring documents `documented` (subset, in `doc_order`) of the signature of `ir`."""
    names = list(ir["params"])
    documented = names if documented is None else documented
    order = documented if doc_order is None else doc_order
    sig = []
    for nm in names:
        p = ir["params"][nm]
        s = "%s: %s" % (nm, p["typ"]) if r.random() < 0.7 else nm
        if "default" in p:
            s += " = " + render_default(p["default"])
        sig.append(s)
    lines = ['    """', "    " + (ir["doc"].split("\n")[0] or "Do it."), ""]
    for nm in order:
        p = ir["params"][nm]
        doc = p.get("doc", "thing")
        if "default" in p and r.random() < 0.6:
            a = announce or r.choice(ANNOUNCE)
            doc += ". " + a.format(render_default(p["default"]))
            if two_announce:
                b = r.choice([x for x in ANNOUNCE if x.split(" ")[0].lower() != a.split(" ")[0].lower() or x != a])
                doc += ". With a warm start the " + b[0].lower() + b[1:].format(render_default(p["default"]) + "0")
        lines.append("    :param %s: %s" % (nm, doc))
        if r.random() < 0.5:
            lines.append("    :type %s: ```%s```" % (nm, p["typ"]))
        lines.append("")
    if ir.get("returns"):
        rt = ir["returns"]["return_type"]
        lines.append("    :return: %s" % rt.get("doc", "result"))
        lines.append("    :rtype: ```%s```" % rt["typ"])
    lines.append('    """')
    body = "    return None" if not ir.get("returns") else "    return %s" % (names[0] if names else "None")
    return "def %s(%s):\n%s\n%s\n" % (ir["name"], ", ".join(sig), "\n".join(lines), body)
