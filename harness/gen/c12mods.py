"""Generators for C12: Python modules with nested definitions (wild stream: names collide with the search paths on
purpose) and triples of sync target files with unrelated surrounding code (structured stream)."""
from __future__ import annotations

POOL = ["K", "C", "m", "f", "set_cli_args", "a", "x", "Other", "helper"]
ANNS = ["int", "str", "float", "Optional[int]"]
VALS = ["1", "'txt'", "2.5", "None", "[1, 2]", "-3"]


def _args(r, method):
    names = r.sample(POOL, r.randint(0, 3))
    parts = []
    if method and r.random() < 0.8:
        parts.append(r.choice(["self", "self", "cls"]))
    elif r.random() < 0.1:
        parts.append("self")
    ndef = r.randint(0, len(names))
    for i, n in enumerate(names):
        s = n
        if r.random() < 0.5:
            s += ": " + r.choice(ANNS)
        if i >= len(names) - ndef:
            s += (" = " if ":" in s else "=") + r.choice(VALS)
        parts.append(s)
    if r.random() < 0.15:
        kw = r.choice(POOL)
        if kw not in names:
            parts.append("*")
            parts.append(kw + (": int = 3" if r.random() < 0.5 else "=None"))
    if r.random() < 0.05:
        parts.append("**kwargs")
    return ", ".join(parts)


def gen_stmt(r, depth, in_class=False):
    """-> list of source lines (no indentation)"""
    x = r.random()
    if depth < 2 and x < 0.22:
        name = r.choice(POOL)
        body = []
        if r.random() < 0.4:
            body.append('"""doc of %s"""' % name)
        for _ in range(r.randint(1, 4)):
            body += gen_stmt(r, depth + 1, in_class=True)
        head = "class %s%s:" % (name, r.choice(["", "(object)", "(Base, metaclass=M)"]))
        deco = ["@deco"] if r.random() < 0.1 else []
        return deco + [head] + ["    " + l for l in body]
    if depth < 3 and x < 0.5:
        name = r.choice(POOL)
        is_async = r.random() < 0.15
        body = []
        if r.random() < 0.4:
            body.append('"""doc of %s"""' % name)
        for _ in range(r.randint(0, 2)):
            body += gen_stmt(r, max(depth + 1, 2), in_class=False)
        body.append(r.choice(["return None", "pass", "return 1"]))
        ret = " -> int" if r.random() < 0.15 else ""
        head = "%sdef %s(%s)%s:" % ("async " if is_async else "", name, _args(r, in_class), ret)
        deco = ["@staticmethod"] if (in_class and r.random() < 0.1) else []
        return deco + [head] + ["    " + l for l in body]
    if x < 0.62:
        t = r.choice(POOL) if r.random() < 0.85 else r.choice(["self.x", "a.b", "a[0]"])
        v = (" = " + r.choice(VALS)) if r.random() < 0.7 else ""
        return ["%s: %s%s" % (t, r.choice(ANNS), v)]
    if x < 0.76:
        k = r.random()
        if k < 0.7:
            t = r.choice(POOL)
        elif k < 0.8:
            t = "%s = %s" % tuple(r.sample(POOL, 2))
        elif k < 0.9:
            t = "%s, %s" % tuple(r.sample(POOL, 2))
        else:
            t = r.choice(["a.b", "a[0]"])
        return ["%s = %s" % (t, r.choice(VALS))]
    if x < 0.84:
        return [r.choice(["print(1)", "'a string statement'", "foo.bar(2)"])]
    return [r.choice(["import os", "pass", "from typing import Optional", "del zz"])] if r.random() < 0.6 else \
        r.choice([["if FLAG:", "    yy = 1"], ["for i in range(3):", "    pass"], ["try:", "    import zz", "except ImportError:", "    zz = None"]])


def gen_module(r, n=None):
    lines = []
    if r.random() < 0.3:
        lines.append('"""module doc"""')
    for _ in range(r.randint(0, 6) if n is None else n):
        lines += gen_stmt(r, 0)
    return "\n".join(lines) + ("\n" if lines else "")


def gen_search(r):
    n = r.choice([1, 1, 1, 2, 2, 2, 3])
    return [r.choice(POOL) for _ in range(n)]


def gen_repl(r):
    """a replacement node (source of one statement): class, def, annotated / plain assignment"""
    x = r.random()
    name = r.choice(POOL)
    if x < 0.35:
        return "class %s(object):\n    '''new'''\n    q: int = 9\n" % name
    if x < 0.6:
        return "def %s(%sq=9):\n    return q\n" % (name, r.choice(["", "self, "]))
    if x < 0.85:
        return "%s: %s%s\n" % (name, r.choice(ANNS), r.choice(["", " = 77", " = None", " = 'v'"]))
    if x < 0.97:
        return "%s = %s\n" % (name, r.choice(["77", "str", "None"]))
    return "a.b: int = 3\n"
