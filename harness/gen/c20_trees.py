"""C20 — generator of small Python package trees and exmod configurations (all randomness from the given PRNG).

A tree is a dict {"top": <package name>, "files": {relative path under the source root: file content}, "packages": [fqn…],
"modules": [fqn…], "symbols": {module fqn: [names]}}.  Everything else the check needs (the abstract description sent
to the Lean model) is obtained by *scanning the materialised files*, not from this generator's memory.
"""
from __future__ import annotations

TOPS = ["mypkg", "conf", "app", "pk", "shop"]
SUBS = ["sub", "core", "models", "util", "deep", "inner", "api"]
MODS = ["alpha", "beta", "gamma", "delta", "eps", "zeta", "eta", "theta", "iota", "kappa", "lam", "mu"]
EMIT_ALL = ["argparse", "class", "function", "json_schema", "pydantic", "sqlalchemy", "sqlalchemy_table", "sqlalchemy_hybrid"]
# kinds whose emitter call works in exmod on the unchanged tree (the other three raise TypeError before any write)
EMIT_WORKING = ["argparse", "class", "function", "sqlalchemy_table", "sqlalchemy_hybrid"]

# --- wide name pools (legal identifiers that are awkward downstream) ---------------------------------------------------
LONG = "very_long_name_" + "x" * 90 + "_end"  # 109 characters: far below NAME_MAX, far above any column budget
WIDE_CLASSES = [
    "TimeoutError", "ConnectionError", "Warning", "Exception", "KeyError",  # builtin exceptions
    "type", "list", "id", "dict",  # builtins (type is also a soft keyword)
    "match", "case",  # soft keywords
    "class_", "def_", "None_", "import_",  # keyword + underscore
    "_Private", "__Dunder__", "_", "__x",  # leading underscore / dunder-like
    "Alpha2Beta", "V2", "X11Forward",  # digits inside
    "Café", "Δelta", "Ünïcode", "名前",  # non-ASCII identifiers
    "Config", "config", "CONFIG", "Handler", "handler",  # differ only in case
    "Long" + LONG,
]
WIDE_FUNCS = [
    "format", "filter", "print", "type", "id", "list", "len", "open", "input",  # builtins
    "match", "case", "type",  # soft keywords
    "class_", "def_", "lambda_", "return_",  # keyword + underscore
    "_private", "__dunder__", "_", "__init__", "__call__",  # leading underscore / dunder-like
    "h2o", "to_utf8", "x1y2",  # digits inside
    "naïve", "λ", "größe", "число",  # non-ASCII identifiers
    "config", "Config", "handler", "HANDLER",  # differ only in case
    LONG,
]
WIDE_MODS = [
    "json", "types", "string", "abc", "ast", "os", "sys",  # stdlib module names (as sub-modules of the package)
    "class_", "def_", "match", "type",  # keyword + underscore, soft keywords
    "_private", "__dunder__", "_",  # leading underscore
    "mod2", "v2x", "a1",  # digits inside
    "módulo", "λmod", "größe",  # non-ASCII
    "upper", "UPPER", "Upper",  # differ only in case
    "m_" + LONG,
]
WIDE_SUBS = ["json", "types", "_internal", "__impl__", "v2", "Ünits", "class_", "match", "Sub", "SUB", "p_" + LONG[:60]]


CLASS_TPL = '''class {name}(object):
    """
    {name} thing

    :cvar {a}: the {a}
    :cvar {b}: the {b}
    """

    {a}: int = {n}
    {b}: str = "{s}"
'''

FUNC_TPL = '''def {name}({a}={n}, {b}="{s}"):
    """
    {name} does it

    :param {a}: the {a}
    :type {a}: ```int```

    :param {b}: the {b}
    :type {b}: ```str```

    :return: the result
    :rtype: ```int```
    """
    return {a}
'''


def _sym_src(r, name, kind):
    a, b = r.sample(["size", "count", "label", "path_", "mode", "depth"], 2)
    return (CLASS_TPL if kind == "class" else FUNC_TPL).format(name=name, a=a, b=b, n=r.randint(0, 9), s=r.choice(["foo", "bar", "x y"]))


def gen_tree(r, force_levels=None, clash=None, wide=None):
    """`clash`: None (rarely by chance) / True: put a def whose name starts with its package's exmod module name into an
    `__init__.py` (the configuration of finding C20-src-init-overwrite).
    `wide`: None (40 % of the trees) / True / False: draw part of the class, function, module and sub-package names from the
    wide pools (builtins and exceptions, soft keywords, keyword + underscore, leading underscore / dunder-like, digits,
    non-ASCII, very long, differing only in case, stdlib module names)."""
    top = r.choice(TOPS)
    levels = force_levels or r.choice([1, 1, 2, 2, 3])
    wide = (r.random() < 0.4) if wide is None else wide
    p_wide = r.choice([0.3, 0.6, 1.0]) if wide else 0.0
    mods_left = MODS[:]
    r.shuffle(mods_left)
    subs_left = SUBS[:]
    r.shuffle(subs_left)
    if wide:
        wm, ws = WIDE_MODS[:], WIDE_SUBS[:]
        r.shuffle(wm)
        r.shuffle(ws)
        # interleave: popping from the end takes wide names with probability ~p_wide
        mods_left = [x for pair in zip(mods_left, wm) for x in (pair if r.random() < p_wide else pair[::-1])]
        subs_left = [x for pair in zip(subs_left, ws) for x in (pair if r.random() < p_wide else pair[::-1])]
    used_names = set()
    files, packages, modules, symbols = {}, [], [], {}
    all_syms = []  # (module fqn, name) available for cross imports (already generated ⇒ importable without a cycle)

    used_stems = set()  # a module file and a sub-package of the same name would shadow each other: keep them distinct

    def mk_module(pkg_fqn, pkg_dir):
        stem = mods_left.pop()
        while stem in used_stems and mods_left:
            stem = mods_left.pop()
        used_stems.add(stem)
        fqn = pkg_fqn + "." + stem
        n = r.choice([1, 1, 2])
        names = []
        src = ['"""%s module"""' % stem, ""]
        # optional cross import from an earlier module of the tree (absolute), possibly re-exported through __all__
        reexport = []
        if all_syms and r.random() < 0.35:
            mfqn, sname = r.choice(all_syms)
            form = r.random()
            if form < 0.7:
                src.append("from %s import %s" % (mfqn, sname))
                if r.random() < 0.6:
                    reexport.append(sname)
            elif form < 0.85:
                src.append("from %s import %s as %s_alias" % (mfqn, sname, sname))
                if r.random() < 0.6:
                    reexport.append(sname + "_alias")
            else:
                src += ["try:", "    from %s import %s" % (mfqn, sname), "except ImportError:", "    %s = None" % sname]
                if r.random() < 0.6:
                    reexport.append(sname)
            src.append("")
        for i in range(n):
            kind = r.choice(["class", "function"])
            name = (stem.capitalize() + ("" if i == 0 else "Two")) if kind == "class" else (stem + ("_fn" if i == 0 else "_other"))
            if r.random() < p_wide:
                cand = [x for x in (WIDE_CLASSES if kind == "class" else WIDE_FUNCS) if x not in used_names]
                if cand:
                    name = r.choice(cand)
            if name in used_names or name in names:
                name = name + "_%d" % len(used_names)
            used_names.add(name)
            if r.random() < 0.06 and i == 0:
                # a symbol called like a sibling module (find_module_filepath then resolves to that module's file)
                sib = [m for m in modules if m.startswith(pkg_fqn + ".") and m.count(".") == pkg_fqn.count(".") + 1]
                if sib and kind == "function":
                    name = r.choice(sib).rsplit(".", 1)[1]
            names.append(name)
            src += ["", _sym_src(r, name, kind)]
        allmode = r.random()
        if allmode < 0.6:
            src += ["", "__all__ = %r" % (names + reexport)]
        elif allmode < 0.8:
            src += ["", "__all__ = %r" % (names[:1] + reexport)]
        files[pkg_dir + "/" + stem + ".py"] = "\n".join(src) + "\n"
        modules.append(fqn)
        symbols[fqn] = names
        for nm in names:
            all_syms.append((fqn, nm))
        return fqn, names

    def mk_package(fqn, pdir, level, exmod_name):
        """exmod_name: the `module_name` exmod will use when it visits this folder (top: the module string; below: the
        package name relative to the top)."""
        packages.append(fqn)
        children_imports = []
        # sub-packages first so that the parent can re-export from them
        if level < levels:
            for _ in range(r.choice([1, 1, 2]) if subs_left else 0):
                if not subs_left:
                    break
                s = subs_left.pop()
                while s in used_stems and subs_left:
                    s = subs_left.pop()
                if s in used_stems:
                    break
                used_stems.add(s)
                sub_exmod_name = (s if level == 1 else (exmod_name + "." + s))
                children_imports += mk_package(fqn + "." + s, pdir + "/" + s, level + 1, sub_exmod_name)
        own = []
        for _ in range(r.choice([1, 2, 2, 3])):
            if not mods_left:
                break
            own.append(mk_module(fqn, pdir))
        src = ['"""%s package"""' % fqn, ""]
        exported = []
        style = r.random()
        for mfqn, names in own:
            pick = names if r.random() < 0.7 else names[:1]
            if r.random() < 0.08:
                continue  # module not re-exported at all
            if style < 0.07:
                # relative import (exmod cannot resolve these: AssertionError) — crash class of the model
                src.append("from .%s import %s" % (mfqn.rsplit(".", 1)[1], ", ".join(pick)))
                exported += pick
            elif r.random() < 0.12:
                src.append("from %s import %s" % (mfqn, ", ".join("%s as %s_x" % (p, p) for p in pick)))
                exported += [p + "_x" for p in pick]
            else:
                src.append("from %s import %s" % (mfqn, ", ".join(pick)))
                exported += pick
        # re-export upward from sub-packages' modules
        for mfqn, names in children_imports:
            if r.random() < 0.4:
                src.append("from %s import %s" % (mfqn, names[0]))
                exported.append(names[0])
        if r.random() < 0.1:
            src.append("import os")
        if r.random() < 0.08 and own:
            mfqn, names = own[0]
            src += ["try:", "    from %s import %s as _nested" % (mfqn, names[0]), "except ImportError:", "    _nested = None"]
        # defs inside __init__ itself
        want_clash = clash is True and fqn.count(".") == 0
        if r.random() < 0.2 or want_clash:
            base = (exmod_name or fqn).split(".")[-1]
            if want_clash or (clash is None and r.random() < 0.15):
                dname = (exmod_name or fqn).replace(".", "_") + "_from_env" if "." not in (exmod_name or fqn) else base + "_x"
            else:
                dname = "make_" + base
            kind = r.choice(["class", "function"])
            src += ["", "", _sym_src(r, dname, kind)]
            exported.append(dname)
        am = r.random()
        if am < 0.75:
            src += ["", "__all__ = %r" % exported]
        elif am < 0.9 and exported:
            src += ["", "__all__ = %r" % exported[: max(1, len(exported) // 2)]]
        files[pdir + "/__init__.py"] = "\n".join(src) + "\n"
        return own + children_imports

    mk_package(top, top, 1, top)
    return {"top": top, "files": files, "packages": packages, "modules": modules, "symbols": symbols, "levels": levels, "wide": bool(wide)}


def gen_config(r, tree, emit_pool=None):
    """One exmod configuration for the tree (dry_run is chosen by the caller)."""
    top = tree["top"]
    pkgs, mods = tree["packages"], tree["modules"]
    # module argument: mostly the top package; sometimes a dotted sub-package; rarely a dotted module file
    x = r.random()
    sub_pkgs = [p for p in pkgs if "." in p]
    if x < 0.6 or not sub_pkgs:
        module = top
    elif x < 0.93:
        module = r.choice(sub_pkgs)
    else:
        module = r.choice(mods)
    y = r.random()
    pool = emit_pool or EMIT_WORKING
    if y < 0.86:
        emit = [r.choice(pool)]
    elif y < 0.94:
        emit = [r.choice(EMIT_ALL)]
    else:
        emit = r.sample(pool, 2)
    target = r.choice([None, None, "tgt", "gold", "ns.tgt"])
    root, _, _leaf = module.rpartition(".")
    new_module_name = ((target or "___".join((root, "gold"))) if root else "gold")
    # output directory name: mostly neutral; sometimes one that ends with the new module name (finding C20-init-above-output)
    z = r.random()
    if z < 0.8:
        out_rel = r.choice(["out/o1", "out/gen_out", "out/a/b"])
    elif z < 0.9:
        out_rel = "out/" + new_module_name.replace(".", "/")
    else:
        out_rel = "out/x" + new_module_name.split(".")[-1]
    # black-/whitelists: subsets of the names a user could mean
    names = set()
    for p in pkgs:
        names.add(p)  # FQN of a package
        rel = p[len(top) + 1:]
        if rel:
            names.add(rel)  # relative name (what find_packages matches)
            names.add("." + rel)
        names.add("." + p)
        if root:
            names.add(root + "." + p.rsplit(".", 1)[-1])  # the form exmod_single_folder computes for nested packages
    for m in r.sample(mods, min(2, len(mods))):
        names.add(m)
    names = sorted(names)

    def subset(p_empty):
        if r.random() < p_empty:
            return []
        k = r.choice([1, 1, 2, 3])
        # bias towards the package FQNs and the module argument itself
        pri = [module] + pkgs
        res = []
        for _ in range(k):
            res.append(r.choice(pri) if r.random() < 0.6 else r.choice(names))
        return sorted(set(res))

    bl, wl = subset(0.45), subset(0.6)
    if bl and r.random() < 0.25:
        wl = sorted(set(wl + [r.choice(bl)]))  # a module in both lists
    return {
        "module": module, "emit": emit, "target": target, "out_rel": out_rel, "blacklist": bl, "whitelist": wl,
        "recursive": r.random() < 0.55, "sqlsub": (r.random() < 0.5 if emit[0].startswith("sqlalchemy") else r.random() < 0.05),
    }


HAND_INITS = [
    "",
    '"""hand-written"""\n',
    '"""hand-written"""\n\nVERSION = "1.0"\n\n__all__ = ["VERSION"]\n',
]


def gen_prestate(r, tree, cfg):
    """State of the output directory before the run: absent / empty / hand-written __init__.py files / earlier real run."""
    k = r.random()
    if k < 0.25:
        return {"kind": "absent"}
    if k < 0.4:
        return {"kind": "empty"}
    if k < 0.65:
        module = cfg["module"]
        root = module.rpartition(".")[0]
        nmn = ((cfg["target"] or "___".join((root, "gold"))) if root else "gold")
        cands = ["", nmn] + [p[len(tree["top"]) + 1:].replace(".", "/") for p in tree["packages"] if "." in p]
        files = {}
        for c in cands:
            if r.random() < 0.6:
                body = r.choice(HAND_INITS)
                if r.random() < 0.25 and tree["symbols"]:
                    # a hand-written __init__ that already defines a symbol of the tree
                    nm = r.choice(r.choice(list(tree["symbols"].values())))
                    body = '"""hand-written"""\n\n\nclass %s(object):\n    """kept"""\n' % nm
                files[(c + "/" if c else "") + "__init__.py"] = body
        if r.random() < 0.3 and tree["modules"]:
            stem = r.choice(tree["modules"]).rsplit(".", 1)[1]
            files[stem + ".py"] = '"""hand-written %s"""\n\nKEEP = 1\n' % stem
        return {"kind": "hand", "files": files}
    # earlier real run of exmod into the same directory (possibly with another emit kind / recursion flag)
    prev = dict(cfg)
    if r.random() < 0.4:
        prev["emit"] = [r.choice(EMIT_WORKING)]
    if r.random() < 0.3:
        prev["recursive"] = not cfg["recursive"]
    if r.random() < 0.5:
        prev["blacklist"], prev["whitelist"] = [], []
    return {"kind": "earlier-run", "cfg": prev}
