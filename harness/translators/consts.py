"""
Translator "constants tie": module-level constants of /repo that the hand-written Lean models copy
→ lean/CddVerif/Gen/Consts.lean (namespace ``Gen.Consts``).

``lean/CddVerif/Properties/ConstsTie.lean`` proves, one theorem per copy, that the model's constant IS the value read
here (or states the exact documented relation), so a change of such a constant in the source breaks a proof
obligation at once, before any behavioural comparison runs.

The VALUES are read from the imported modules of the checkout (a subprocess ``/venv/bin/python -c …`` with
``PYTHONPATH=<repo>``; ``cdd.class_.parse`` is imported first, see BUILDER_GUIDE) — what the code really uses at run
time.  Two literals that are not module-level names but are copied by models are read from the function's AST
(``set_default_doc``'s format template and the ``frozenset`` of ``_resolve_arg``).  A literal that can no longer be found is generated as the empty value, so that its tie theorem fails.

Every string is written in two forms: ``x : … List Char …`` (explicit character literals, ``['a','b']``) and
``xS : … String …``.  Sets (``frozenset``) are written sorted; dicts as association lists in insertion order.
"""
from __future__ import annotations

import json
import os
import subprocess
from pathlib import Path

PY = "/venv/bin/python"

# ------------------------------------------------------------------------------------------------------------------
# the reader (runs inside the checkout's interpreter)
# ------------------------------------------------------------------------------------------------------------------
_CODE = r'''
import ast, inspect, json, sys
import cdd.class_.parse  # noqa: F401  (import-order workaround)
import cdd
import cdd.shared.defaults_utils as du
import cdd.shared.docstring_utils as dsu
import cdd.shared.pure_utils as pu
import cdd.shared.cst_utils as cu
import cdd.shared.ast_utils as au
import cdd.docstring.utils.parse_utils as ppu

out = {"_cdd_file": cdd.__file__}

def strs(x):
    x = list(x)
    assert all(isinstance(e, str) for e in x), x
    return x

# -- cdd/shared/defaults_utils.py
out["DEFAULTS_TO_VARIANTS"] = strs(du.DEFAULTS_TO_VARIANTS)
out["NoneStr"] = du.NoneStr
# -- cdd/shared/docstring_utils.py
for nm in ("TOKENS", "ARG_TOKENS", "RETURN_TOKENS"):
    t = getattr(dsu, nm)
    out[nm] = {"rest": strs(t.rest), "google": strs(t.google), "numpydoc": strs(t.numpydoc)}
out["TOKENS_fields"] = strs(dsu.TOKENS._fields)
out["TOKENS_SET"] = sorted(strs(dsu.TOKENS_SET))
out["NUMPYDOC_TOKENS_SET"] = sorted(strs(dsu.NUMPYDOC_TOKENS_SET))
out["DOCSTRING_FORMATS"] = strs(dsu.DOCSTRING_FORMATS)
# -- cdd/shared/pure_utils.py
st = pu.simple_types
out["simple_types"] = [[k, type(v).__name__, repr(v)] for k, v in st.items() if isinstance(k, str)]
out["simple_types_other_keys"] = [[repr(k), type(v).__name__, repr(v)] for k, v in st.items() if not isinstance(k, str)]
out["none_types"] = [(e if (e is None or isinstance(e, str)) else repr(e)) for e in pu.none_types]
out["line_length"] = int(pu.line_length)
out["tab"] = pu.tab
out["type_to_name"] = [[k, v] for k, v in pu.type_to_name.items()]
# -- cdd/shared/cst_utils.py
out["contains2statement"] = [[k, v.__name__] for k, v in cu.contains2statement.items()]
out["multicontains2statement"] = [[sorted(strs(k)), v.__name__] for k, v in cu.multicontains2statement]
out["math_operators"] = sorted(strs(cu.math_operators))
out["augassign"] = sorted(strs(cu.augassign))
out["kwlist"] = sorted(strs(cu.kwset))
# -- cdd/shared/ast_utils.py
out["FALLBACK_TYP"] = au.FALLBACK_TYP
# -- cdd/docstring/utils/parse_utils.py
out["adhoc_type_to_type"] = [[k, v] for k, v in ppu.adhoc_type_to_type.items()]
out["adhoc_3_tuple_to_type"] = [[list(k), v] for k, v in ppu.adhoc_3_tuple_to_type.items()]
out["adhoc_3_tuple_to_collection"] = [[list(k), v] for k, v in ppu.adhoc_3_tuple_to_collection.items()]

# -- literals inside functions (read from the AST of the module's own source)
def fn(mod, name):
    for node in ast.walk(ast.parse(inspect.getsource(mod))):
        if isinstance(node, (ast.FunctionDef, ast.AsyncFunctionDef)) and node.name == name:
            return node
    return None

def str_consts(node):
    return [n.value for n in ast.walk(node) if isinstance(n, ast.Constant) and isinstance(n.value, str)] if node else []

def str_tuples(node):
    r = []
    for n in (ast.walk(node) if node else ()):
        if isinstance(n, ast.Tuple) and n.elts and all(isinstance(e, ast.Constant) and isinstance(e.value, str) for e in n.elts):
            r.append([e.value for e in n.elts])
    return r

# set_default_doc: "{doc} Defaults to {default}".format(…)  — the only format template with both fields
tpl = [s for s in str_consts(fn(du, "set_default_doc")) if "{doc}" in s and "{default}" in s]
out["set_default_doc_template"] = tpl[0] if len(tpl) == 1 else ""
# _resolve_arg: `(typ or "").lower() in frozenset(("str", "complex", …, "dict"))` — the tuple with "anystr"
req = [t for t in str_tuples(fn(au, "_resolve_arg")) if "anystr" in t]
out["resolve_arg_required_typs"] = req[0] if len(req) == 1 else []

json.dump(out, sys.stdout)
'''


def scan(repo: Path) -> dict:
    """the constants of the checkout at ``repo`` as a JSON-able dict (see ``SPEC`` for the keys)"""
    repo = Path(repo).resolve()
    env = dict(os.environ)
    env["PYTHONPATH"] = str(repo)
    env.pop("DOCTRANS_LINE_LENGTH", None)  # `line_length` must be the default written in the source
    env.pop("PYTHONHASHSEED", None)  # nothing below depends on set order (sets are sorted)
    p = subprocess.run([PY, "-c", _CODE], cwd=str(repo), env=env, stdout=subprocess.PIPE, stderr=subprocess.PIPE, text=True, timeout=300)
    if p.returncode != 0:
        raise RuntimeError("consts.scan(%s): reader failed:\n%s" % (repo, p.stderr[-3000:]))
    d = json.loads(p.stdout)
    where = Path(d.pop("_cdd_file")).resolve()
    if repo not in where.parents:
        raise RuntimeError("consts.scan(%s): `cdd` was imported from %s" % (repo, where))
    return d


# ------------------------------------------------------------------------------------------------------------------
# Lean rendering
# ------------------------------------------------------------------------------------------------------------------
def lean_char(c: str) -> str:
    if c == "'":
        return "'\\''"
    if c == "\\":
        return "'\\\\'"
    if c == "\n":
        return "'\\n'"
    if c == "\t":
        return "'\\t'"
    if c == "\r":
        return "'\\r'"
    if 32 <= ord(c) < 127:
        return "'%s'" % c
    return "'\\u{%x}'" % ord(c)


def lean_chars(s: str) -> str:
    """a Python str as a Lean `List Char` literal of explicit character literals"""
    if s == "":
        return "([] : List Char)"
    return "[" + ",".join(lean_char(c) for c in s) + "]"


def lean_string(s: str) -> str:
    """a Python str as a Lean `String` literal"""
    out = []
    for c in s:
        if c == '"':
            out.append('\\"')
        elif c == "\\":
            out.append("\\\\")
        elif c == "\n":
            out.append("\\n")
        elif c == "\t":
            out.append("\\t")
        elif c == "\r":
            out.append("\\r")
        elif 32 <= ord(c) < 127:
            out.append(c)
        else:
            out.append("\\u{%x}" % ord(c))
    return '"' + "".join(out) + '"'


def _opt(f, x):
    return "none" if x is None else "(some %s)" % f(x)


def _list(items, per_line=False):
    items = list(items)
    if not items:
        return "[]"
    if per_line:
        return "[\n  " + ",\n  ".join(items) + "]"
    return "[" + ", ".join(items) + "]"


# kind → (Lean type with {S} = the string type, renderer(value, strfn))
KINDS = {
    "str": ("{S}", lambda v, f: f(v)),
    "strs": ("List {S}", lambda v, f: _list((f(x) for x in v), per_line=True)),
    "optstrs": ("List (Option {S})", lambda v, f: _list(_opt(f, x) for x in v)),
    "pairs": ("List ({S} × {S})", lambda v, f: _list(("(%s, %s)" % (f(a), f(b)) for a, b in v), per_line=True)),
    "triples": ("List ({S} × {S} × {S})", lambda v, f: _list(("(%s, %s, %s)" % (f(a), f(b), f(c)) for a, b, c in v), per_line=True)),
    "keys3": (
        "List (({S} × {S} × {S}) × {S})",
        lambda v, f: _list(("((%s, %s, %s), %s)" % (f(k[0]), f(k[1]), f(k[2]), f(x)) for k, x in v), per_line=True),
    ),
    "setpairs": ("List (List {S} × {S})", lambda v, f: _list(("(%s, %s)" % (_list(f(x) for x in k), f(c)) for k, c in v), per_line=True)),
}

# (Lean name, kind, getter, doc)
SPEC = [
    ("defaultsToVariants", "strs", lambda d: d["DEFAULTS_TO_VARIANTS"], "`cdd.shared.defaults_utils.DEFAULTS_TO_VARIANTS` (tuple order)"),
    ("noneStr", "str", lambda d: d["NoneStr"], "`cdd.shared.defaults_utils.NoneStr`"),
    ("setDefaultDocTemplate", "str", lambda d: d["set_default_doc_template"], "the format template of `cdd.shared.defaults_utils.set_default_doc` (a literal inside the function; empty = not found)"),
    ("docstringFormats", "strs", lambda d: d["DOCSTRING_FORMATS"], "`cdd.shared.docstring_utils.DOCSTRING_FORMATS`"),
    ("tokensFields", "strs", lambda d: d["TOKENS_fields"], "`cdd.shared.docstring_utils.Tokens._fields`"),
    ("tokensRest", "strs", lambda d: d["TOKENS"]["rest"], "`cdd.shared.docstring_utils.TOKENS.rest`"),
    ("tokensGoogle", "strs", lambda d: d["TOKENS"]["google"], "`TOKENS.google`"),
    ("tokensNumpydoc", "strs", lambda d: d["TOKENS"]["numpydoc"], "`TOKENS.numpydoc`"),
    ("argTokensRest", "strs", lambda d: d["ARG_TOKENS"]["rest"], "`cdd.shared.docstring_utils.ARG_TOKENS.rest`"),
    ("argTokensGoogle", "strs", lambda d: d["ARG_TOKENS"]["google"], "`ARG_TOKENS.google`"),
    ("argTokensNumpydoc", "strs", lambda d: d["ARG_TOKENS"]["numpydoc"], "`ARG_TOKENS.numpydoc`"),
    ("returnTokensRest", "strs", lambda d: d["RETURN_TOKENS"]["rest"], "`cdd.shared.docstring_utils.RETURN_TOKENS.rest`"),
    ("returnTokensGoogle", "strs", lambda d: d["RETURN_TOKENS"]["google"], "`RETURN_TOKENS.google`"),
    ("returnTokensNumpydoc", "strs", lambda d: d["RETURN_TOKENS"]["numpydoc"], "`RETURN_TOKENS.numpydoc`"),
    ("tokensSet", "strs", lambda d: d["TOKENS_SET"], "`sorted(cdd.shared.docstring_utils.TOKENS_SET)` (a frozenset)"),
    ("numpydocTokensSet", "strs", lambda d: d["NUMPYDOC_TOKENS_SET"], "`sorted(cdd.shared.docstring_utils.NUMPYDOC_TOKENS_SET)` (a frozenset)"),
    ("simpleTypes", "strs", lambda d: [k for k, _, _ in d["simple_types"]], "the `str` keys of `cdd.shared.pure_utils.simple_types`, in dict order"),
    ("simpleTypesZero", "triples", lambda d: d["simple_types"], "`simple_types` restricted to `str` keys: (key, `type(value).__name__`, `repr(value)`)"),
    ("simpleTypesOtherKeys", "triples", lambda d: d["simple_types_other_keys"], "the entries of `simple_types` whose key is not a `str`: (`repr(key)`, `type(value).__name__`, `repr(value)`)"),
    ("noneTypes", "optstrs", lambda d: d["none_types"], "`cdd.shared.pure_utils.none_types` (`none` = Python `None`)"),
    ("tab", "str", lambda d: d["tab"], "`cdd.shared.pure_utils.tab`"),
    ("typeToName", "pairs", lambda d: d["type_to_name"], "`cdd.shared.pure_utils.type_to_name`, in dict order"),
    ("fallbackTyp", "str", lambda d: d["FALLBACK_TYP"], "`cdd.shared.ast_utils.FALLBACK_TYP`"),
    ("resolveArgRequiredTyps", "strs", lambda d: d["resolve_arg_required_typs"], "the `frozenset((…))` literal of `cdd.shared.ast_utils._resolve_arg`, in source order (empty = not found)"),
    ("contains2statement", "pairs", lambda d: d["contains2statement"], "`cdd.shared.cst_utils.contains2statement` (key, class name), in OrderedDict order"),
    ("multicontains2statement", "setpairs", lambda d: d["multicontains2statement"], "`cdd.shared.cst_utils.multicontains2statement` (sorted key set, class name), tuple order"),
    ("mathOperators", "strs", lambda d: d["math_operators"], "`sorted(cdd.shared.cst_utils.math_operators)` (a frozenset)"),
    ("augassign", "strs", lambda d: d["augassign"], "`sorted(cdd.shared.cst_utils.augassign)` (a frozenset)"),
    ("kwlist", "strs", lambda d: d["kwlist"], "`sorted(cdd.shared.cst_utils.kwset)` = `keyword.kwlist` of the interpreter that runs the checks"),
    ("adhocTypeToType", "pairs", lambda d: d["adhoc_type_to_type"], "`cdd.docstring.utils.parse_utils.adhoc_type_to_type`, in dict order"),
    ("adhoc3TupleToType", "keys3", lambda d: d["adhoc_3_tuple_to_type"], "`cdd.docstring.utils.parse_utils.adhoc_3_tuple_to_type`, in dict order"),
    ("adhoc3TupleToCollection", "keys3", lambda d: d["adhoc_3_tuple_to_collection"], "`cdd.docstring.utils.parse_utils.adhoc_3_tuple_to_collection`, in dict order"),
]


def to_lean(d: dict) -> str:
    lines = [
        "/-! GENERATED by harness/translators/consts.py from /repo — do not edit.",
        "",
        "Module-level constants of the Python source that the hand-written models copy.  `x` is the value with every string",
        "as a list of character literals, `xS` the same value with `String` literals.  `Properties/ConstsTie.lean` ties each",
        "model constant to the value here. -/",
        "namespace Gen.Consts",
        "",
    ]
    for name, kind, get, doc in SPEC:
        typ, render = KINDS[kind]
        v = get(d)
        lines.append("/-- %s -/" % doc)
        lines.append("def %s : %s := %s" % (name, typ.replace("{S}", "(List Char)") if kind != "str" else "List Char", render(v, lean_chars)))
        lines.append("/-- %s (as `String`) -/" % doc)
        lines.append("def %sS : %s := %s" % (name, typ.replace("{S}", "String"), render(v, lean_string)))
        lines.append("")
    lines.append("/-- `cdd.shared.pure_utils.line_length` with `DOCTRANS_LINE_LENGTH` unset -/")
    lines.append("def lineLength : Nat := %d" % d["line_length"])
    lines.append("")
    lines.append("end Gen.Consts")
    return "\n".join(lines) + "\n"


def regen(repo: Path | None = None, out: Path | None = None):
    """(scanned dict, changed?) — writes lean/CddVerif/Gen/Consts.lean (or `out`) only when its content changes"""
    from harness import core

    d = scan(core.REPO if repo is None else repo)
    target = (core.LEAN / "CddVerif" / "Gen" / "Consts.lean") if out is None else Path(out)
    return d, core.write_if_changed(target, to_lean(d))


if __name__ == "__main__":  # /venv/bin/python -m harness.translators.consts [repo [out.lean]]
    import sys

    _repo = Path(sys.argv[1]) if len(sys.argv) > 1 else None
    _out = Path(sys.argv[2]) if len(sys.argv) > 2 else None
    print("Gen/Consts.lean: %s" % ("updated" if regen(_repo, _out)[1] else "unchanged"))
