"""Translators: /repo source → Lean tables (lean/CddVerif/Gen/*.lean), regenerated on every run."""
from harness import core


def regen_imports():
    from harness.translators.imports import ImportTable

    t = ImportTable(core.REPO)
    return t, core.write_if_changed(core.LEAN / "CddVerif" / "Gen" / "Imports.lean", t.to_lean())


def regen_all():
    out = []
    out.append(("Gen/Imports.lean", regen_imports()[1]))
    return out
