"""Translators: /repo source → Lean tables (lean/CddVerif/Gen/*.lean), regenerated on every run."""
from harness import core


def regen_imports():
    from harness.translators.imports import ImportTable

    t = ImportTable(core.REPO)
    return t, core.write_if_changed(core.LEAN / "CddVerif" / "Gen" / "Imports.lean", t.to_lean())


def regen_loops():
    from harness.translators.loops import scan, to_lean

    w, r = scan(core.REPO)
    return (w, r), core.write_if_changed(core.LEAN / "CddVerif" / "Gen" / "Loops.lean", to_lean(w, r))


def regen_all():
    out = []
    out.append(("Gen/Loops.lean", regen_loops()[1]))
    out.append(("Gen/Imports.lean", regen_imports()[1]))
    return out
