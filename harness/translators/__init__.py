"""Translators: /repo source → Lean tables (lean/CddVerif/Gen/*.lean), regenerated on every run."""
from harness import core


def regen_imports():
    from harness.translators.imports import ImportTable

    t = ImportTable(core.REPO)
    return t, core.write_if_changed(core.LEAN / "CddVerif" / "Gen" / "Imports.lean", t.to_lean())


OTHERS: list = []  # filled by regen_loops (the third table of Gen/Loops.lean)


def regen_loops():
    from harness.translators.loops import scan, scan_others, to_lean

    w, r = scan(core.REPO)
    o = scan_others(core.REPO)
    OTHERS[:] = o
    return (w, r), core.write_if_changed(core.LEAN / "CddVerif" / "Gen" / "Loops.lean", to_lean(w, r, o))


def regen_setiter():
    from harness.translators.setiter import scan, to_lean

    sites = scan(core.REPO)
    return sites, core.write_if_changed(core.LEAN / "CddVerif" / "Gen" / "SetIter.lean", to_lean(sites))


def regen_all():
    """every translator table (used by tools/regen.py = first step of MANIFEST.setup_cmd)"""
    out = []
    out.append(("Gen/Loops.lean", regen_loops()[1]))
    out.append(("Gen/Imports.lean", regen_imports()[1]))
    out.append(("Gen/SetIter.lean", regen_setiter()[1]))
    try:
        from harness.translators import jsonschema_tables as jt

        out.append(("Gen/JsonSchemaTables.lean", core.write_if_changed(core.LEAN / "CddVerif" / "Gen" / "JsonSchemaTables.lean", jt.to_lean(jt.scan(core.REPO)))))
    except ImportError:
        pass
    try:
        from harness.translators import sqltables

        out.append(("Gen/SqlTables.lean", sqltables.regen()[1]))
    except ImportError:
        pass
    try:
        from harness.translators import evalsites

        out.append(("Gen/EvalSites.lean", evalsites.regen()[2]))
    except ImportError:
        pass
    try:
        from harness.translators import consts

        out.append(("Gen/Consts.lean", consts.regen()[1]))
    except ImportError:
        pass
    return out
