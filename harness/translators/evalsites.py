"""
Translator for C17: every reference, in non-test code, to an API that can execute code, import a computed name, deserialise
objects, spawn a process, use the network or change the file system  →  Lean table `CddVerif/Gen/EvalSites.lean`.

A *site* is a load of a watched name (called or merely passed on, e.g. `(loads if … else safe_load)(s)`), found after
resolving import aliases (`from os import makedirs`, `import yaml as y`, `getattr(import_module("yaml"), "safe_dump_all")`,
one hop of module-level `name = <watched>` aliases).  Watched: eval / exec / compile / __import__ / importlib.* /
ast.literal_eval / pickle, marshal, shelve, dill / yaml.* / subprocess, os.system, os.popen, os.exec*, os.spawn*, os.fork,
pty, ctypes, multiprocessing / socket, ssl, urllib.request, http.client, requests, ftplib, smtplib / open(...) (also io.open,
codecs.open, `.open(` methods) with a write/append/create mode or a non-constant mode / os.makedirs, mkdir, remove, unlink,
rename, replace, rmdir, chmod, symlink, os.open, os.write … / shutil.* / tempfile.* / `.write_text`, `.write_bytes`,
`.unlink`, `.rmtree`, `.touch`, `.rmdir`, `.symlink_to` methods.

kind (decided syntactically):
  0 literal-eval     ast.literal_eval
  1 yaml-safe        yaml.safe_* / yaml.dump* / yaml.load(.., Loader=Safe|Base loader) / the safe loader classes
  2 import-const     import_module / __import__ of a constant string (or a conditional between constants)
  3 import-dynamic   import_module / __import__ / reload of a computed name, or passed on uncalled          [registry]
  4 eval-exec        eval / exec / compile                                                                   [registry]
  5 serialise-only   pickle.dump(s) / Pickler / marshal.dump(s): produces bytes, never loads
  6 fs-write         open with a constant mode containing w, a, x or +; makedirs / mkdir / write_text / …    [registry]
  7 fs-write-dynmode open with a non-constant mode                                                           [registry]
  8 fs-destructive   remove / unlink / rename / replace / rmdir / shutil.* / tempfile.* / chmod / symlink    [never allowed]
 10 wrapper-import-dynamic  a call of a project function that hands one of its parameters to an import-dynamic site or to  [registry]
 11 wrapper-eval-exec       another such wrapper (followed to a fixpoint over all non-test modules; e.g. `get_module(x)`,  [registry]
 12 wrapper-unsafe          `get_parser(node, kind)`, `sync_property(…)`, `gen(**args)`): the wrapper is treated as a primitive  [never allowed]
  9 unsafe           pickle/marshal/shelve/dill load(s), Unpickler, yaml.load without a safe Loader, unsafe_load, full_load,
                     subprocess, os.system/popen/exec*/spawn*/fork, pty, ctypes, multiprocessing, any network API,
                     runpy, imp, importlib.util.spec_from_file_location / module_from_spec                   [never allowed]

The digest of a site (60 bits, idiom of loops.py) covers: file, enclosing function, kind, `ast.dump` of the call (or of the
referring expression), the chain of enclosing `if`/conditional-expression tests with the branch taken (so removing an
`if input_eval:` guard changes it), and — one hop of data flow — the right-hand sides of every assignment in the enclosing
function to a name used in the call's arguments (so `typ = <something else>` before `eval(typ, …)` changes it).

Besides the sites the translator emits the constant tables of `cdd/docstring/utils/parse_utils.py` / `pure_utils.py` that
feed the doc-derived eval argument (adhoc_type_to_type, adhoc_3_tuple_to_type, adhoc_3_tuple_to_collection, type_to_name,
simple_types, `word_chars`) so that `C17.tables_match` / `C17.word_chars_match` tie the model's copies to the source.
"""
from __future__ import annotations

import ast
import builtins
import keyword
import string
from pathlib import Path

from harness.translators.loops import digest

KIND_NAMES = ["literal-eval", "yaml-safe", "import-const", "import-dynamic", "eval-exec", "serialise-only", "fs-write",
              "fs-write-dynmode", "fs-destructive", "unsafe", "wrapper-import-dynamic", "wrapper-eval-exec", "wrapper-unsafe"]
(K_LITERAL, K_YAML_SAFE, K_IMPORT_CONST, K_IMPORT_DYN, K_EVAL, K_SERIALISE, K_FS_WRITE, K_FS_DYNMODE, K_FS_DESTR, K_UNSAFE,
 K_W_IMPORT, K_W_EVAL, K_W_UNSAFE) = range(13)
# dynamic-execution primitives whose project-level wrappers are followed (to a fixpoint), and the kind given to a call of such a wrapper
WRAPPED = {K_IMPORT_DYN: K_W_IMPORT, K_EVAL: K_W_EVAL, K_UNSAFE: K_W_UNSAFE}
W_SEVERITY = [K_W_UNSAFE, K_W_EVAL, K_W_IMPORT]

YAML_SAFE = {"safe_load", "safe_load_all", "safe_dump", "safe_dump_all", "dump", "dump_all", "SafeLoader", "CSafeLoader", "BaseLoader",
             "CBaseLoader", "SafeDumper", "CSafeDumper", "Dumper", "CDumper", "YAMLError", "YAMLObject", "scan", "parse", "compose", "compose_all",
             "serialize", "serialize_all", "emit", "add_representer", "representer", "nodes", "error"}
YAML_SAFE_LOADERS = {"SafeLoader", "CSafeLoader", "BaseLoader", "CBaseLoader"}
PICKLE_LIKE = ("pickle", "cPickle", "_pickle", "dill", "cloudpickle", "marshal", "shelve", "jsonpickle")
SERIALISE_ONLY = {"dump", "dumps", "Pickler", "HIGHEST_PROTOCOL", "DEFAULT_PROTOCOL", "PicklingError", "PickleError"}
PROCESS_PREFIX = ("subprocess", "pty", "ctypes", "multiprocessing", "runpy", "imp", "commands", "popen2", "_posixsubprocess", "concurrent.futures.process",
                  "asyncio.create_subprocess_exec", "asyncio.create_subprocess_shell", "asyncio.subprocess", "platform.popen")
STAR_ROOTS = ("os", "subprocess", "socket", "pickle", "yaml", "shutil", "importlib", "ast", "marshal", "tempfile", "ctypes", "multiprocessing", "builtins", "io", "codecs")
OS_PROCESS = ("system", "popen", "exec", "spawn", "posix_spawn", "fork", "startfile", "kill", "killpg", "putenv")
NETWORK_PREFIX = ("socket", "ssl", "urllib.request", "urllib2", "http.client", "http.server", "requests", "httpx", "aiohttp", "ftplib", "smtplib",
                  "telnetlib", "xmlrpc", "poplib", "imaplib", "nntplib", "socketserver", "webbrowser", "asyncio.open_connection", "asyncio.start_server")
OS_FS_CREATE = {"makedirs", "mkdir", "open", "write", "mkfifo", "mknod", "pwrite", "writev", "fdopen"}
OS_FS_DESTR = {"remove", "unlink", "rename", "renames", "replace", "rmdir", "removedirs", "truncate", "ftruncate", "chmod", "chown", "lchown",
               "symlink", "link", "utime", "chroot", "chdir", "fchmod", "fchown"}
METHOD_FS_CREATE = {"write_text", "write_bytes", "touch"}
METHOD_FS_DESTR = {"unlink", "rmtree", "rmdir", "symlink_to", "hardlink_to", "link_to"}
OPEN_FUNCS = {"open", "io.open", "codecs.open", "os.fdopen", "gzip.open", "bz2.open", "lzma.open", "tokenize.open"}
# importlib.util.find_spec("a.b") imports (executes) the parent package `a`: a dynamic import for a computed name
IMPORT_FUNCS = {"__import__", "importlib.import_module", "importlib.__import__", "importlib.reload", "importlib.util.find_spec", "importlib.find_loader",
                "pkgutil.resolve_name", "pkgutil.get_loader", "pkgutil.find_loader",
                "pkgutil.walk_packages", "pkgutil.iter_modules"}
IMPORT_UNSAFE = {"importlib.util.spec_from_file_location", "importlib.util.module_from_spec", "importlib.machinery.SourceFileLoader",
                 "importlib.machinery.SourcelessFileLoader", "importlib.machinery.ExtensionFileLoader", "zipimport.zipimporter"}
BUILTIN_WATCH = {"eval", "exec", "compile", "__import__", "open", "breakpoint"}


def _const_strs(node):
    """the constant strings an expression can evaluate to, if it is a constant or a conditional between constants; else None"""
    if isinstance(node, ast.Constant) and isinstance(node.value, str):
        return [node.value]
    if isinstance(node, ast.IfExp):
        a, b = _const_strs(node.body), _const_strs(node.orelse)
        return None if a is None or b is None else a + b
    return None


class _Module:
    def __init__(self, rel: str, tree: ast.Module):
        self.rel, self.tree = rel, tree
        self.modname = rel[:-3].replace("/", ".")
        if self.modname.endswith(".__init__"):
            self.modname = self.modname[: -len(".__init__")]
        self.own_defs = {n.name: n for n in tree.body if isinstance(n, (ast.FunctionDef, ast.AsyncFunctionDef))}
        self.parents = {}
        for p in ast.walk(tree):
            for c in ast.iter_child_nodes(p):
                self.parents[c] = p
        self.alias = {}
        self.star = []  # `from M import *` for watched modules: bare names are looked up in M
        for n in ast.walk(tree):
            if isinstance(n, ast.ImportFrom) and n.module and n.level == 0 and any(a.name == "*" for a in n.names) and n.module.split(".")[0] in STAR_ROOTS:
                try:
                    import importlib

                    self.star.append((n.module, importlib.import_module(n.module)))
                except Exception:  # noqa
                    pass
            if isinstance(n, ast.Import):
                for a in n.names:
                    if a.asname:
                        self.alias[a.asname] = a.name
                    else:
                        self.alias[a.name.split(".")[0]] = a.name.split(".")[0]
            elif isinstance(n, ast.ImportFrom) and n.module and n.level == 0:
                for a in n.names:
                    if a.name != "*":
                        self.alias[a.asname or a.name] = n.module + "." + a.name
        # one hop of module-level / local aliases: name = <expression that resolves to a dotted name> (possibly one arm of a conditional)
        for n in ast.walk(tree):
            if isinstance(n, ast.Assign) and len(n.targets) == 1 and isinstance(n.targets[0], ast.Name):
                q = self._resolve_any(n.value)
                if q is not None and n.targets[0].id not in self.alias:
                    self.alias[n.targets[0].id] = q

    def _resolve_any(self, node):
        if isinstance(node, ast.IfExp):
            return self._resolve_any(node.body) or self._resolve_any(node.orelse)
        q = self.resolve(node)
        return q if q is not None and "." in q else None

    def resolve(self, node):
        """dotted name an expression denotes, through import aliases, `import_module("m")` and `getattr(x, "a")`"""
        if isinstance(node, ast.Name):
            if node.id in self.alias:
                return self.alias[node.id]
            if node.id in self.own_defs:
                return self.modname + "." + node.id
            if hasattr(builtins, node.id):
                return node.id
            for mod_name, mod in self.star:
                if hasattr(mod, node.id) and not node.id.startswith("_"):
                    return mod_name + "." + node.id
            return None
        if isinstance(node, ast.Attribute):
            base = self.resolve(node.value)
            return None if base is None else base + "." + node.attr
        if isinstance(node, ast.Call):
            f = self.resolve(node.func)
            if f in ("importlib.import_module", "__import__", "importlib.__import__") and node.args:
                cs = _const_strs(node.args[0])
                if cs:
                    return cs[0]
            if f == "getattr" and len(node.args) >= 2:
                base, cs = self.resolve(node.args[0]), _const_strs(node.args[1])
                if base is not None and cs:
                    return base + "." + cs[0]
        return None

    def qual(self, n):
        names = []
        while n in self.parents:
            n = self.parents[n]
            if isinstance(n, (ast.FunctionDef, ast.AsyncFunctionDef, ast.ClassDef)):
                names.append(n.name)
        return ".".join(reversed(names))

    def scope(self, n):
        while n in self.parents:
            n = self.parents[n]
            if isinstance(n, (ast.FunctionDef, ast.AsyncFunctionDef, ast.Lambda)):
                return n
        return self.tree

    def guards(self, n):
        """enclosing if / conditional-expression / while tests with the arm that contains the node"""
        out = []
        child = n
        while child in self.parents:
            p = self.parents[child]
            if isinstance(p, (ast.If, ast.While)) and child is not p.test:
                out.append(("then:" if child in p.body else "else:") + ast.dump(p.test))
            elif isinstance(p, ast.IfExp) and child is not p.test:
                out.append(("then:" if child is p.body else "else:") + ast.dump(p.test))
            elif isinstance(p, ast.Try):
                hs = ",".join(ast.dump(h.type) if h.type is not None else "*" for h in p.handlers)
                if child in p.body:
                    out.append("try[%s]" % hs)
                elif child in p.orelse:
                    out.append("try-else[%s]" % hs)
                elif child in p.finalbody:
                    out.append("finally")
            elif isinstance(p, ast.ExceptHandler):
                out.append("except:" + (ast.dump(p.type) if p.type is not None else "*"))
            elif isinstance(p, (ast.FunctionDef, ast.AsyncFunctionDef, ast.Lambda)):
                break
            child = p
        return out

    def top_function(self, n):
        """the top-level function definition that contains the node (None at module level / inside classes)"""
        top = None
        while n in self.parents:
            n = self.parents[n]
            if isinstance(n, (ast.FunctionDef, ast.AsyncFunctionDef)) and self.parents.get(n) is self.tree:
                top = n
        return top

    def param_flows(self, call, fn):
        """does a parameter of `fn` reach the arguments of `call`?  Directly (the parameter's name occurs in an argument), or through one
        assignment whose right-hand side mentions a parameter and only calls methods on it / on string constants (`p.rpartition(".")`,
        `"{}".format(p)`); a call of another function on the way (`typ = parse_adhoc_doc_for_typ(doc, …)`) is a barrier."""
        a = fn.args
        params = {x.arg for x in a.args + a.kwonlyargs + a.posonlyargs + [y for y in (a.vararg, a.kwarg) if y]} - {"self", "cls"}
        names = {x.id for e in list(call.args) + [k.value for k in call.keywords] for x in ast.walk(e) if isinstance(x, ast.Name) and isinstance(x.ctx, ast.Load)}
        if names & params:
            return True

        def plain(rhs):
            if not any(isinstance(x, ast.Name) and x.id in params for x in ast.walk(rhs)):
                return False
            for c in ast.walk(rhs):
                if isinstance(c, ast.Call):
                    f = c.func
                    if not isinstance(f, ast.Attribute):
                        return False
                    root = f.value
                    while isinstance(root, (ast.Attribute, ast.Subscript, ast.Call)):
                        root = root.value if not isinstance(root, ast.Call) else root.func
                    if not ((isinstance(root, ast.Name) and root.id in params) or (isinstance(root, ast.Constant) and isinstance(root.value, str))):
                        return False
            return True

        for n in ast.walk(fn):
            if isinstance(n, ast.Assign) and any(isinstance(t, ast.Name) and t.id in names for tt in n.targets for t in ast.walk(tt)) and plain(n.value):
                return True
            if isinstance(n, ast.AnnAssign) and isinstance(n.target, ast.Name) and n.target.id in names and n.value is not None and plain(n.value):
                return True
        return False

    def flows(self, call):
        """one hop of data flow: right-hand sides bound, in the enclosing scope, to names used in the call's arguments"""
        if not isinstance(call, ast.Call):
            return []
        names = sorted({x.id for a in list(call.args) + [k.value for k in call.keywords] for x in ast.walk(a)
                        if isinstance(x, ast.Name) and isinstance(x.ctx, ast.Load)})
        sc = self.scope(call)
        out = []
        params = set()
        if isinstance(sc, (ast.FunctionDef, ast.AsyncFunctionDef, ast.Lambda)):
            a = sc.args
            params = {x.arg for x in a.args + a.kwonlyargs + a.posonlyargs + [y for y in (a.vararg, a.kwarg) if y]}
        for name in names:
            rhs = []
            for n in ast.walk(sc):
                if isinstance(n, ast.Assign) and any(isinstance(t, ast.Name) and t.id == name for tt in n.targets for t in ast.walk(tt)):
                    rhs.append((n.lineno, ast.dump(n.value)))
                elif isinstance(n, (ast.AnnAssign, ast.AugAssign)) and isinstance(n.target, ast.Name) and n.target.id == name and n.value is not None:
                    rhs.append((n.lineno, ast.dump(n.value)))
                elif isinstance(n, ast.NamedExpr) and n.target.id == name:
                    rhs.append((n.lineno, ast.dump(n.value)))
                elif isinstance(n, (ast.For, ast.AsyncFor, ast.comprehension)) and any(isinstance(t, ast.Name) and t.id == name for t in ast.walk(n.target)):
                    rhs.append((getattr(n, "lineno", 0), "iter:" + ast.dump(n.iter)))
                elif isinstance(n, ast.withitem) and n.optional_vars is not None and any(isinstance(t, ast.Name) and t.id == name for t in ast.walk(n.optional_vars)):
                    rhs.append((0, "with:" + ast.dump(n.context_expr)))
            if rhs:
                out.append(name + "=" + "|".join(r for _, r in sorted(rhs)))
            elif name in params:
                out.append(name + "=<param>")
        return out


def _open_mode(call: ast.Call, method: bool):
    """('const', mode) | ('absent', 'r') | ('dynamic', src)"""
    idx = 0 if method else 1
    node = None
    if len(call.args) > idx:
        node = call.args[idx]
    for k in call.keywords:
        if k.arg == "mode":
            node = k.value
        if k.arg is None:
            return "dynamic", "**" + ast.unparse(k.value)
    if any(isinstance(a, ast.Starred) for a in call.args):
        return "dynamic", "*args"
    if node is None:
        return "absent", "r"
    cs = _const_strs(node)
    if cs is not None:
        return "const", "|".join(cs)
    return "dynamic", ast.unparse(node)


def _classify(q: str, call, m: _Module):
    """kind of a reference to dotted name `q` (None = not watched); `call` is the Call node when the reference is called"""
    head, _, last = q.rpartition(".")
    if q == "ast.literal_eval":
        return K_LITERAL
    if q in ("eval", "exec", "compile", "breakpoint", "builtins.eval", "builtins.exec", "builtins.compile"):
        return K_EVAL
    if q in IMPORT_UNSAFE or q.startswith(("runpy.", "imp.")):
        return K_UNSAFE
    if q in IMPORT_FUNCS or q in ("builtins.__import__",):
        if call is not None and call.args and _const_strs(call.args[0]) is not None and q != "importlib.reload":
            return K_IMPORT_CONST
        return K_IMPORT_DYN
    root = q.split(".")[0]
    if root == "yaml" and head:
        if last in ("load", "load_all"):
            ld = None
            if call is not None:
                if len(call.args) > 1:
                    ld = call.args[1]
                for k in call.keywords:
                    if k.arg == "Loader":
                        ld = k.value
            lq = m.resolve(ld) if ld is not None else None
            return K_YAML_SAFE if lq is not None and lq.rpartition(".")[2] in YAML_SAFE_LOADERS else K_UNSAFE
        return K_YAML_SAFE if last in YAML_SAFE else K_UNSAFE
    if root in PICKLE_LIKE and head:
        return K_SERIALISE if last in SERIALISE_ONLY else K_UNSAFE
    if any(q == p or q.startswith(p + ".") for p in PROCESS_PREFIX) and head:
        return K_UNSAFE
    if any(q == p or q.startswith(p + ".") for p in NETWORK_PREFIX) and (head or q in ("socket", "requests")):
        return K_UNSAFE if head else None
    if head in ("os", "posix", "nt"):
        if any(last == p or (last.startswith(p) and p in ("exec", "spawn", "posix_spawn", "fork")) for p in OS_PROCESS):
            return K_UNSAFE
        if last in OS_FS_DESTR:
            return K_FS_DESTR
        if last in OS_FS_CREATE and last != "fdopen":
            return K_FS_WRITE
    if root in ("shutil", "tempfile") and head:
        return K_FS_DESTR
    if q in OPEN_FUNCS:
        if call is None:
            return K_FS_DYNMODE  # `open` passed on as a value: mode unknown
        how, mode = _open_mode(call, method=False)
        if how == "dynamic":
            return K_FS_DYNMODE
        return K_FS_WRITE if any(c in mode for c in "wax+") else None
    return None


def scan(repo: Path, pkg: str = "cdd"):
    sites = []
    modules = []
    wrappers = {}  # fully-qualified function name -> set of wrapper kinds it reaches with one of its parameters
    for f in sorted((Path(repo) / pkg).rglob("*.py")):
        rel = str(f.relative_to(repo))
        if "/tests/" in rel:
            continue
        m = _Module(rel, ast.parse(f.read_text()))
        modules.append(m)
        seen_nodes = set()
        for n in ast.walk(m.tree):
            kind = q = None
            call = None
            if isinstance(n, (ast.Name, ast.Attribute)) and isinstance(n.ctx, ast.Load):
                p = m.parents.get(n)
                if isinstance(p, ast.Attribute) and p.value is n:
                    # inner part of a longer chain: classified at the outermost attribute that resolves
                    outer_q = m.resolve(p)
                    if outer_q is not None:
                        continue
                q = m.resolve(n)
                call = p if isinstance(p, ast.Call) and p.func is n else None
                if q is not None:
                    kind = _classify(q, call, m)
                if kind is None and isinstance(n, ast.Attribute) and (q is None or q.split(".")[0] not in ("os", "posix")):
                    # method-style file-system calls on objects we cannot resolve (pathlib.Path instances …)
                    if n.attr in METHOD_FS_CREATE:
                        kind, q = K_FS_WRITE, "<obj>." + n.attr
                    elif n.attr in METHOD_FS_DESTR:
                        kind, q = K_FS_DESTR, "<obj>." + n.attr
                    elif n.attr == "open" and call is not None and q is None:
                        how, mode = _open_mode(call, method=True)
                        if how == "dynamic":
                            kind, q = K_FS_DYNMODE, "<obj>.open"
                        elif any(c in mode for c in "wax+"):
                            kind, q = K_FS_WRITE, "<obj>.open"
            elif isinstance(n, ast.Call):
                # getattr(import_module("yaml"), "load") and friends, when not bound to a name
                f0 = m.resolve(n.func)
                if f0 == "getattr":
                    q = m.resolve(n)
                    p = m.parents.get(n)
                    call = p if isinstance(p, ast.Call) and p.func is n else None
                    if q is not None:
                        kind = _classify(q, call, m)
            if kind is None:
                continue
            node = call if call is not None else n
            if id(node) in seen_nodes:
                continue
            seen_nodes.add(id(node))
            where = m.qual(n)
            if call is not None:
                dump = ast.dump(call)
            else:
                # an uncalled reference: digest the expression that consumes it
                p = m.parents.get(n)
                dump = "ref:" + ast.dump(p if p is not None else n)
            guards = m.guards(node)
            flows = m.flows(call) if kind in (K_EVAL, K_IMPORT_DYN, K_FS_WRITE, K_FS_DYNMODE, K_FS_DESTR, K_UNSAFE) else []
            sites.append({
                "file": rel, "func": where, "line": n.lineno, "kind": kind, "kind_name": KIND_NAMES[kind], "api": q,
                "called": call is not None, "expr": ast.unparse(node).replace("\n", " ")[:110],
                "guards": len(guards), "flows": [x.split("=", 1)[0] for x in flows],
                "digest": digest(rel, where, str(kind), dump, "\x01".join(guards), "\x01".join(flows)),
            })
            if kind in WRAPPED and call is not None:
                fn = m.top_function(call)
                if fn is not None and m.param_flows(call, fn):
                    wrappers.setdefault(m.modname + "." + fn.name, set()).add(WRAPPED[kind])
    return sites + _wrapper_sites(modules, wrappers)


def _wrapper_sites(modules, wrappers):
    """calls of project functions that wrap a dynamic-execution primitive, to a fixpoint: a function that hands one of its own
    parameters to a wrapper is a wrapper itself"""
    by_name = {m.modname: m for m in modules}

    def canon(q, depth=0):
        """follow re-exports: `pkg.mod.name` where `name` is itself an imported alias inside pkg.mod"""
        if q is None or q in wrappers or depth > 4:
            return q
        mod, _, name = q.rpartition(".")
        m = by_name.get(mod)
        if m is not None and name in m.alias and name not in m.own_defs:
            return canon(m.alias[name], depth + 1)
        return q

    calls = []  # (module, call node — or the consuming expression for an uncalled reference such as partial(get_module, x) —, resolved callee, is_ref)
    for m in modules:
        for n in ast.walk(m.tree):
            if isinstance(n, ast.Call):
                q = m.resolve(n.func)
                if q is not None and q.startswith("cdd."):
                    calls.append((m, n, q, False))
            elif isinstance(n, (ast.Name, ast.Attribute)) and isinstance(n.ctx, ast.Load):
                p = m.parents.get(n)
                if (isinstance(p, ast.Call) and p.func is n) or (isinstance(p, ast.Attribute) and p.value is n):
                    continue
                q = m.resolve(n)
                if q is not None and q.startswith("cdd.") and isinstance(p, ast.AST):
                    calls.append((m, p, q, True))
    changed = True
    while changed:
        changed = False
        for m, n, q, is_ref in calls:
            kinds = wrappers.get(canon(q))
            if not kinds:
                continue
            fn = m.top_function(n)
            if fn is not None and (m.param_flows(n, fn) if isinstance(n, ast.Call) else True):
                key = m.modname + "." + fn.name
                if not kinds <= wrappers.get(key, set()):
                    wrappers.setdefault(key, set()).update(kinds)
                    changed = True
    out = []
    for m, n, q, is_ref in calls:
        cq = canon(q)
        kinds = wrappers.get(cq)
        if not kinds:
            continue
        kind = next(k for k in W_SEVERITY if k in kinds)
        where, guards, flows = m.qual(n), m.guards(n), m.flows(n)
        if is_ref:
            cq = cq + " (uncalled reference)"
        out.append({
            "file": m.rel, "func": where, "line": n.lineno, "kind": kind, "kind_name": KIND_NAMES[kind], "api": "wrapper:" + cq,
            "called": not is_ref, "expr": ast.unparse(n).replace("\n", " ")[:110], "guards": len(guards), "flows": [x.split("=", 1)[0] for x in flows],
            "digest": digest(m.rel, where, str(kind), ",".join(str(k) for k in sorted(kinds)), cq, ast.dump(n), "\x01".join(guards), "\x01".join(flows)),
        })
    return out


# ------------------------------------------------------------------------------------------------------------------
# constants that feed the doc-derived eval argument
# ------------------------------------------------------------------------------------------------------------------
def _module_assign(tree, name):
    for n in tree.body:
        if isinstance(n, ast.Assign) and any(isinstance(t, ast.Name) and t.id == name for t in n.targets):
            return n.value
        if isinstance(n, ast.AnnAssign) and isinstance(n.target, ast.Name) and n.target.id == name:
            return n.value
    return None


def _word_chars(tree):
    """value of `word_chars` in `_parse_adhoc_doc_for_typ_phase0`, computed without evaluating code: a constant string, or
    `"<const>".format(string.<attr>, …)`; anything else → None (the Lean theorem then fails on an empty table)"""
    for fn in ast.walk(tree):
        if isinstance(fn, ast.FunctionDef) and fn.name == "_parse_adhoc_doc_for_typ_phase0":
            vals = []
            for n in ast.walk(fn):
                tgt = None
                if isinstance(n, ast.Assign) and len(n.targets) == 1:
                    tgt, val = n.targets[0], n.value
                elif isinstance(n, ast.AnnAssign):
                    tgt, val = n.target, n.value
                if isinstance(tgt, ast.Name) and tgt.id == "word_chars":
                    vals.append(val)
            if len(vals) != 1:
                return None
            val = vals[0]
            if isinstance(val, ast.Constant) and isinstance(val.value, str):
                return val.value
            if (isinstance(val, ast.Call) and isinstance(val.func, ast.Attribute) and val.func.attr == "format" and not val.keywords
                    and isinstance(val.func.value, ast.Constant) and isinstance(val.func.value.value, str)):
                args = []
                for a in val.args:
                    if isinstance(a, ast.Attribute) and isinstance(a.value, ast.Name) and a.value.id == "string" and \
                            a.attr in ("digits", "ascii_letters", "ascii_lowercase", "ascii_uppercase", "punctuation", "printable", "whitespace", "hexdigits", "octdigits"):
                        args.append(getattr(string, a.attr))
                    elif isinstance(a, ast.Constant) and isinstance(a.value, str):
                        args.append(a.value)
                    else:
                        return None
                try:
                    return val.func.value.value.format(*args)
                except Exception:  # noqa
                    return None
    return None


def tables(repo: Path):
    pu = ast.parse((Path(repo) / "cdd/docstring/utils/parse_utils.py").read_text())
    pure = ast.parse((Path(repo) / "cdd/shared/pure_utils.py").read_text())

    def lit(tree, name):
        v = _module_assign(tree, name)
        try:
            return ast.literal_eval(v) if v is not None else None
        except Exception:  # noqa
            return None

    t = {
        "adhocTypeToType": lit(pu, "adhoc_type_to_type"),
        "tuple3ToType": lit(pu, "adhoc_3_tuple_to_type"),
        "tuple3ToCollection": lit(pu, "adhoc_3_tuple_to_collection"),
        "typeToName": lit(pure, "type_to_name"),
        "simpleTypes": lit(pure, "simple_types"),
        "wordChars": _word_chars(pu),
        "kwlist": list(keyword.kwlist),
    }
    return t


def _chars(s: str) -> str:
    def one(c):
        if c == "'":
            return "'\\''"
        if c == "\\":
            return "'\\\\'"
        if c == "\n":
            return "'\\n'"
        if c == "\t":
            return "'\\t'"
        if c == "\r":
            return "'\\r'"
        if 32 <= ord(c) < 127:
            return "'%s'" % c
        return "(Char.ofNat %d)" % ord(c)
    return "[" + ", ".join(one(c) for c in s) + "]"


def to_lean(sites, t) -> str:
    L = ["/-! GENERATED by harness/translators/evalsites.py from /repo — do not edit. -/", "namespace Gen.EvalSites", "",
         "/-- (digest, kind) of every reference in non-test code to an executing / importing / deserialising / process / network /",
         "    file-system-changing API.  kinds: " + ", ".join("%d %s" % (i, k) for i, k in enumerate(KIND_NAMES)) + " -/",
         "def sites : List (Nat × Nat) := ["]
    L.append("\n".join("  (%d, %d)%s  -- %s:%d %s  [%s]  %s" % (s["digest"], s["kind"], "," if k + 1 < len(sites) else "", s["file"], s["line"], s["func"],
                                                               s["kind_name"], s["expr"]) for k, s in enumerate(sites)))
    L.append("]")
    L.append("")

    def pairs(d):
        return "[" + ",\n  ".join("(%s, %s)" % (_chars(k), _chars(v)) for k, v in d.items()) + "]" if isinstance(d, dict) and all(
            isinstance(k, str) and isinstance(v, str) for k, v in d.items()) else "[]"

    def triples(d):
        ok = isinstance(d, dict) and all(isinstance(k, tuple) and len(k) == 3 and all(isinstance(x, str) for x in k) and isinstance(v, str) for k, v in d.items())
        return "[" + ",\n  ".join("((%s, %s, %s), %s)" % (_chars(k[0]), _chars(k[1]), _chars(k[2]), _chars(v)) for k, v in d.items()) + "]" if ok else "[]"

    L.append("/-- `adhoc_type_to_type` of cdd/docstring/utils/parse_utils.py -/")
    L.append("def adhocTypeToType : List (List Char × List Char) := " + pairs(t["adhocTypeToType"]))
    L.append("/-- `adhoc_3_tuple_to_type` -/")
    L.append("def tuple3ToType : List ((List Char × List Char × List Char) × List Char) := " + triples(t["tuple3ToType"]))
    L.append("/-- `adhoc_3_tuple_to_collection` -/")
    L.append("def tuple3ToCollection : List ((List Char × List Char × List Char) × List Char) := " + triples(t["tuple3ToCollection"]))
    L.append("/-- `type_to_name` of cdd/shared/pure_utils.py -/")
    L.append("def typeToName : List (List Char × List Char) := " + pairs(t["typeToName"]))
    st = t["simpleTypes"]
    L.append("/-- the `str` keys of `simple_types` -/")
    L.append("def simpleTypes : List (List Char) := [" + ", ".join(_chars(k) for k in (st or {}) if isinstance(k, str)) + "]")
    L.append("/-- `word_chars` of `_parse_adhoc_doc_for_typ_phase0` (empty when the translator cannot compute it statically) -/")
    L.append("def wordChars : List Char := " + _chars(t["wordChars"] or ""))
    L.append("/-- `keyword.kwlist` of the interpreter running the check -/")
    L.append("def kwlist : List (List Char) := [" + ", ".join(_chars(k) for k in t["kwlist"]) + "]")
    L.append("end Gen.EvalSites")
    return "\n".join(L) + "\n"


def regen():
    from harness import core

    sites = scan(core.REPO)
    t = tables(core.REPO)
    changed = core.write_if_changed(core.LEAN / "CddVerif" / "Gen" / "EvalSites.lean", to_lean(sites, t))
    return sites, t, changed


# ------------------------------------------------------------------------------------------------------------------
# self-test corpus: small modules with known sites (run by harness/props/c17.py on every run)
# ------------------------------------------------------------------------------------------------------------------
SELFTEST = '''
import os, pickle, yaml as y, subprocess as sp, socket, shutil
from ast import literal_eval as le
from importlib import import_module
from os import makedirs, remove as rm
from yaml import safe_load, load, Loader, SafeLoader
dumper = getattr(import_module("yaml"), "safe_dump_all")
loader = getattr(import_module("yaml"), "unsafe_load")
def f(a, mode):
    le(a); eval(a); exec(a); compile(a, "", "exec"); __import__(a); __import__("os"); import_module("x" if a else "z")
    import_module(".".join(("cdd", a))); pickle.dumps(a); pickle.loads(a); y.load(a); y.load(a, Loader=y.SafeLoader); load(a, Loader=Loader)
    load(a, SafeLoader); safe_load(a); (len if a else safe_load)(a); y.unsafe_load(a); sp.run(a); os.system(a); os.popen(a); socket.socket()
    open(a); open(a, "rt"); open(a, "w"); open(a, mode="a"); open(a, mode); makedirs(a); os.mkdir(a); rm(a); os.rename(a, a); shutil.rmtree(a)
    a.write_text("x"); a.open("w"); a.open(); os.path.join(a, a); dumper(a); loader(a); map(eval, a); os.execv(a, a); os.spawnl(a)
'''
SELFTEST_EXPECT = sorted([
    K_LITERAL, K_EVAL, K_EVAL, K_EVAL, K_IMPORT_DYN, K_IMPORT_CONST, K_IMPORT_CONST, K_IMPORT_DYN, K_SERIALISE, K_UNSAFE, K_UNSAFE, K_YAML_SAFE, K_UNSAFE,
    K_YAML_SAFE, K_YAML_SAFE, K_YAML_SAFE, K_UNSAFE, K_UNSAFE, K_UNSAFE, K_UNSAFE, K_UNSAFE,
    K_FS_WRITE, K_FS_WRITE, K_FS_DYNMODE, K_FS_WRITE, K_FS_WRITE, K_FS_DESTR, K_FS_DESTR, K_FS_DESTR,
    K_FS_WRITE, K_FS_WRITE, K_YAML_SAFE, K_UNSAFE, K_EVAL, K_UNSAFE, K_UNSAFE,
    K_IMPORT_CONST, K_IMPORT_CONST,   # the two import_module("yaml") at module level
    K_YAML_SAFE, K_UNSAFE,            # the two getattr(import_module("yaml"), …) references at module level
    K_YAML_SAFE, K_YAML_SAFE, K_UNSAFE,  # loader classes passed as arguments: y.SafeLoader, SafeLoader, Loader
])


def selftest():
    """scan the self-test module: returns (ok, detail)"""
    import tempfile

    with tempfile.TemporaryDirectory() as d:
        p = Path(d) / "cdd"
        p.mkdir()
        (p / "m.py").write_text(SELFTEST)
        (p / "star.py").write_text("from subprocess import *\nfrom yaml import *\ndef g(a):\n    Popen(a); check_output(a); unsafe_load(a); safe_load(a); len(a)\n")
        sites = scan(Path(d))
        star = sorted(s["kind"] for s in sites if s["file"].endswith("star.py"))
        if star != sorted([K_UNSAFE, K_UNSAFE, K_UNSAFE, K_YAML_SAFE]):
            return False, "self-test (star imports): kinds %s; sites %s" % (star, [(s["line"], s["api"], s["kind_name"]) for s in sites if s["file"].endswith("star.py")])
        # wrappers, to a fixpoint, across modules, through a re-export and an uncalled reference; a sanitising call is a barrier
        (p / "w1.py").write_text("from importlib import import_module\ndef load(name, pkg=None):\n    try:\n        return import_module(name, pkg)\n    except ImportError:\n        return None\n"
                                 "def run(src):\n    return eval(src)\ndef safe(doc):\n    t = clean(doc)\n    return eval(t)\ndef clean(d):\n    return d\n")
        (p / "w2.py").write_text("from cdd.w1 import load, run\nfrom functools import partial\ndef outer(path, other):\n    stem = path.rpartition('.')[0]\n    return load(stem)\n"
                                 "def outer2(x):\n    return partial(run, x)\ndef top(p):\n    return outer(p, 1)\n")
        (p / "w3.py").write_text("import cdd.w2\nfrom cdd.w2 import load as ld\ndef cli(argv):\n    cdd.w2.top(argv[0]); ld('const'); cdd.w2.outer2(argv)\nfrom cdd.w1 import safe\ndef d(doc):\n    return safe(doc)\n")
        sites = scan(Path(d))
        w = sorted((s["file"][4:], s["line"], s["kind"]) for s in sites if s["kind"] >= K_W_IMPORT)
        expect_w = sorted([("w2.py", 5, K_W_IMPORT), ("w2.py", 7, K_W_EVAL), ("w2.py", 9, K_W_IMPORT), ("w3.py", 4, K_W_IMPORT), ("w3.py", 4, K_W_IMPORT), ("w3.py", 4, K_W_EVAL)])
        if w != expect_w:
            return False, "self-test (wrappers): %s, expected %s" % (w, expect_w)
        sites = [s for s in scan(Path(d)) if s["file"].endswith("m.py")]
        got = sorted(s["kind"] for s in sites)
    if got != SELFTEST_EXPECT:
        return False, "self-test: kinds %s, expected %s; sites: %s" % (got, SELFTEST_EXPECT, [(s["line"], s["api"], s["kind_name"]) for s in sites])
    return True, "%d + 4 + 6 sites (aliases, star imports, wrappers to a fixpoint across modules) of the self-test modules classified as expected" % len(got)
