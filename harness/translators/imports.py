"""
Translator for C18: module-level import events of every non-test module of the package → Lean table.

For each module the ordered events executed when its body runs at import time:
  imp  chain                      `import a.b.c`            (chain = ids of a, a.b, a.b.c)
  frm  chain [(name, subchain?)]  `from m import n, …`      (name id 0 = `*`)
  bind name                       a module-level binding (def/class/assignment/import alias)
  use  [(cur, attr, next?)]       an attribute chain rooted at `cdd` evaluated at import time
Conditions on the interpreter version (`PY_GTE_3_x`, `sys.version_info`) are folded for the running interpreter.
The same event table is (a) emitted as Lean source `CddVerif/Gen/Imports.lean` for the `decide +kernel` theorems
and (b) returned as JSON for the driver op `c18.run`, so theorem and correspondence speak about the same table.
"""
from __future__ import annotations

import ast
import os
import sys
from pathlib import Path


def static_cond(test):
    try:
        src = ast.unparse(test)
        v = sys.version_info
        env = {"sys": sys, "version_info": v, "PY3_8": v[:2] == (3, 8)}
        for minor in range(6, 15):
            env["PY_GTE_3_%d" % minor] = v >= (3, minor)
        return bool(eval(src, {"__builtins__": {}}, env))  # only ever sees version-flag expressions
    except Exception:  # noqa
        return None


def chains(node):
    """Attribute chains rooted at Name `cdd` evaluated when `node` runs at import (not inside function bodies / lambdas)."""
    out = []

    def visit(n):
        if isinstance(n, (ast.FunctionDef, ast.AsyncFunctionDef)):
            for d in n.decorator_list:
                visit(d)
            for d in n.args.defaults + [k for k in n.args.kw_defaults if k]:
                visit(d)
            for a in n.args.args + n.args.kwonlyargs + n.args.posonlyargs + [x for x in (n.args.vararg, n.args.kwarg) if x]:
                if a.annotation is not None:
                    visit(a.annotation)
            if n.returns is not None:
                visit(n.returns)
            return
        if isinstance(n, ast.Lambda):
            return
        if isinstance(n, ast.Attribute):
            parts, cur = [], n
            while isinstance(cur, ast.Attribute):
                parts.append(cur.attr)
                cur = cur.value
            if isinstance(cur, ast.Name) and cur.id == "cdd":
                out.append(["cdd"] + parts[::-1])
                return
        for c in ast.iter_child_nodes(n):
            visit(c)

    visit(node)
    return out


def module_level_stores(stmt):
    """Names bound in the module namespace by a (non-def) statement: Store names outside nested scopes."""
    out = []

    def visit(n):
        if isinstance(n, (ast.FunctionDef, ast.AsyncFunctionDef, ast.ClassDef)):
            out.append(n.name)
            return
        if isinstance(n, (ast.Lambda, ast.ListComp, ast.SetComp, ast.DictComp, ast.GeneratorExp)):
            return
        if isinstance(n, ast.Name) and isinstance(n.ctx, ast.Store):
            out.append(n.id)
        if isinstance(n, (ast.Import, ast.ImportFrom)):
            return
        for c in ast.iter_child_nodes(n):
            visit(c)

    visit(stmt)
    return out


class ImportTable:
    def __init__(self, repo: Path, pkg: str = "cdd"):
        self.repo, self.pkg = Path(repo), pkg
        self.files = {}
        for dp, _dn, fn in os.walk(self.repo / pkg):
            for f in fn:
                if f.endswith(".py"):
                    p = Path(dp) / f
                    rel = str(p.relative_to(self.repo))[:-3].replace(os.sep, ".")
                    m = rel[:-9] if rel.endswith(".__init__") else rel
                    self.files[m] = p
        self.pkgs = {m for m, p in self.files.items() if p.name == "__init__.py"}
        self.public = sorted(m for m in self.files if ".tests" not in m and not m.endswith(".tests"))
        # table = public modules + every package module they (transitively) import (some import cdd.tests.mocks.*)
        self.mods = list(self.public)
        while True:
            self.mid = {m: i for i, m in enumerate(self.mods)}
            self.names = {"*": 0}
            self.events = {m: self._events(m) for m in self.mods}
            missing = sorted({x for m in self.mods for e in self.events[m] if e[0] == "missing"
                              for x in self._prefixes(e[1]) if x in self.files and x not in self.mid})
            if not missing:
                break
            self.mods += missing
        self.star_external = {m for m in self.mods if self._has_external_star(m)}

    def _prefixes(self, dotted):
        parts = dotted.split(".")
        return [".".join(parts[:i]) for i in range(1, len(parts) + 1)]

    def _has_external_star(self, mod):
        tree = ast.parse(self.files[mod].read_text())
        return any(isinstance(s, ast.ImportFrom) and any(a.name == "*" for a in s.names) for s in ast.walk(tree))

    def nid(self, n):
        if n not in self.names:
            self.names[n] = len(self.names)
        return self.names[n]

    def chain(self, dotted):
        parts = dotted.split(".")
        out = []
        for i in range(1, len(parts) + 1):
            sub = ".".join(parts[:i])
            if sub not in self.mid:
                return None
            out.append(self.mid[sub])
        return out

    def _events(self, mod):
        tree = ast.parse(self.files[mod].read_text())
        ev = []
        pkg = mod if mod in self.pkgs else mod.rpartition(".")[0]

        def use(node):
            for ch in chains(node):
                steps, cur = [], ch[0]
                for a in ch[1:]:
                    if cur not in self.mid:
                        break
                    nxt = cur + "." + a
                    steps.append((self.mid[cur], self.nid(a), self.mid.get(nxt)))
                    if nxt in self.mid:
                        cur = nxt
                    else:
                        break
                if steps:
                    ev.append(("use", steps, ".".join(ch)))

        def do(stmts):
            for s in stmts:
                if isinstance(s, ast.Import):
                    for a in s.names:
                        top = a.name.split(".")[0]
                        if top == self.pkg:
                            c = self.chain(a.name)
                            if c is None:
                                ev.append(("missing", a.name))
                            else:
                                ev.append(("imp", c, a.name))
                        ev.append(("bind", self.nid(a.asname or top)))
                elif isinstance(s, ast.ImportFrom):
                    m = s.module or ""
                    if s.level:
                        base = pkg.split(".")
                        base = base[: len(base) - (s.level - 1)]
                        m = ".".join(base + ([m] if m else []))
                    if m.split(".")[0] == self.pkg:
                        c = self.chain(m)
                        if c is None:
                            ev.append(("missing", m))
                        else:
                            nms = []
                            for a in s.names:
                                sub = self.chain(m + "." + a.name) if a.name != "*" else None
                                nms.append((self.nid(a.name), sub, a.name))
                            ev.append(("frm", c, nms, m))
                    for a in s.names:
                        if a.name != "*":
                            ev.append(("bind", self.nid(a.asname or a.name)))
                elif isinstance(s, ast.If):
                    c = static_cond(s.test)
                    use(s.test)
                    if c is True:
                        do(s.body)
                    elif c is False:
                        do(s.orelse)
                    else:
                        do(s.body)
                        do(s.orelse)
                elif isinstance(s, ast.Try):
                    do(s.body)
                    do(s.orelse)
                    do(s.finalbody)
                elif isinstance(s, (ast.FunctionDef, ast.AsyncFunctionDef, ast.ClassDef)):
                    if isinstance(s, ast.ClassDef):
                        for d in s.decorator_list + s.bases + [k.value for k in s.keywords]:
                            use(d)
                        for b in s.body:  # class body runs at import time
                            if not isinstance(b, (ast.FunctionDef, ast.AsyncFunctionDef)):
                                use(b)
                            else:
                                use(b)
                    else:
                        use(s)
                    ev.append(("bind", self.nid(s.name)))
                else:
                    use(s)
                    for n in module_level_stores(s):
                        ev.append(("bind", self.nid(n)))

        do(tree.body)
        deleted = {t.id for s in tree.body if isinstance(s, ast.Delete) for t in s.targets if isinstance(t, ast.Name)}
        if deleted:
            dels = {self.nid(d) for d in deleted}
            ev = [e for e in ev if not (e[0] == "bind" and e[1] in dels)]
        return ev

    # ---- outputs -----------------------------------------------------------------------------
    def stride(self):
        n = 1
        while n < len(self.names) + 1:
            n *= 2
        return n

    def fuel(self):
        """Upper bound on any call chain of the machine: each event runs at most once per interpreter."""
        return sum(len(v) + sum(len(e[2]) for e in v if e[0] == "frm") for v in self.events.values()) + 8 * len(self.mods) + 64

    def short(self):
        return [self.nid(m.rpartition(".")[2]) for m in self.mods]

    def to_json(self):
        short = self.short()
        tbl = []
        for m in self.mods:
            row = []
            for e in self.events[m]:
                if e[0] == "imp":
                    row.append({"k": "imp", "chain": e[1]})
                elif e[0] == "frm":
                    row.append({"k": "frm", "chain": e[1], "names": [[n, sub] for n, sub, _ in e[2]]})
                elif e[0] == "bind":
                    row.append({"k": "bind", "n": e[1]})
                elif e[0] == "use":
                    row.append({"k": "use", "steps": [[c, a, nx] for c, a, nx in e[1]]})
                elif e[0] == "missing":
                    row.append({"k": "missing"})
            tbl.append(row)
        return {"tbl": tbl, "short": short, "stride": self.stride(), "fuel": self.fuel(), "chains": [self.chain(m) for m in self.public]}

    def to_lean(self, namespace="Gen.Imports"):
        def onat(x):
            return "none" if x is None else "(some %d)" % x

        def ochain(x):
            return "none" if x is None else "(some %s)" % (list(x),)

        short = self.short()
        lines = [
            "import CddVerif.Model.Imports",
            "/-! GENERATED by harness/translators/imports.py from /repo — do not edit. -/",
            "namespace %s" % namespace,
            "open _root_.Imports",
            "",
            "def stride : Nat := %d" % self.stride(),
            "def nMods : Nat := %d" % len(self.mods),
            "def nPublic : Nat := %d" % len(self.public),
            "def fuel : Nat := %d" % self.fuel(),
            "def short : List Nat := %s" % short,
            "def chains : List (List Nat) := %s" % [self.chain(m) for m in self.public],
            "",
        ]
        for i, m in enumerate(self.mods):
            rows = []
            for e in self.events[m]:
                if e[0] == "imp":
                    rows.append(".imp %s" % e[1])
                elif e[0] == "frm":
                    rows.append(".frm %s [%s]" % (e[1], ", ".join("(%d, %s)" % (n, ochain(sub)) for n, sub, _ in e[2])))
                elif e[0] == "bind":
                    rows.append(".bind %d" % e[1])
                elif e[0] == "use":
                    rows.append(".use [%s]" % ", ".join("(%d, %d, %s)" % (c, a, onat(nx)) for c, a, nx in e[1]))
                elif e[0] == "missing":
                    rows.append(".missing")
            lines.append("/-- %s -/" % m)
            lines.append("def m%d : List _root_.Imports.Ev := [%s]" % (i, ",\n  ".join(rows)))
        lines.append("")
        lines.append("def tbl : List (List _root_.Imports.Ev) := [%s]" % ", ".join("m%d" % i for i in range(len(self.mods))))
        lines.append("end %s" % namespace)
        return "\n".join(lines) + "\n"


def pair_files(t: ImportTable, chunk: int = 6) -> dict:
    """Lean sources of the C18 pair theorems: one file per row `i`, theorems of ≤ `chunk` pairs each
    (kernel memory is released between declarations), combined by `rowOk_append`; `All.lean` proves the ∀ statement."""
    n = len(t.public)
    files = {}
    hdr = "import CddVerif.Properties.C18\n/-! GENERATED by harness/translators/imports.py — do not edit. -/\nnamespace C18.Pairs\nopen Imports C18\n"
    for i in range(n):
        lo, total = i + 1, n - (i + 1)
        lines = [hdr]
        parts = []
        k, start = 0, lo
        while start < lo + total:
            ln = min(chunk, lo + total - start)
            lines.append("theorem r%d_c%d : rowOk cfg fuel Gen.Imports.chains %d %d %d = true := by decide +kernel" % (i, k, i, start, ln))
            parts.append(("r%d_c%d" % (i, k), ln))
            start += ln
            k += 1
        if not parts:
            lines.append("theorem row%d : rowOk cfg fuel Gen.Imports.chains %d %d 0 = true := by decide" % (i, i, lo))
        else:
            expr, acc = parts[0][0], parts[0][1]
            for nm, ln in parts[1:]:
                expr = "(rowOk_append (a := %d) (b := %d) %s %s)" % (acc, ln, expr, nm)
                acc += ln
            lines.append("theorem row%d : rowOk cfg fuel Gen.Imports.chains %d %d %d = true := %s" % (i, i, lo, total, expr))
        lines.append("end C18.Pairs\n")
        files["R%03d.lean" % i] = "\n".join(lines)
    al = ["import CddVerifPairs.R%03d" % i for i in range(n)]
    al.append("/-! GENERATED by harness/translators/imports.py — do not edit.  C18: all pairs of public modules. -/")
    al.append("namespace C18.Pairs\nopen Imports C18\n")
    al.append("theorem rows : ∀ i, i < Gen.Imports.nPublic → rowOk cfg fuel Gen.Imports.chains i (i + 1) (Gen.Imports.nPublic - (i + 1)) = true")
    for i in range(n):
        al.append("  | %d, _ => row%d" % (i, i))
    al.append("  | n + %d, h => absurd h (by simp [Gen.Imports.nPublic])" % n)
    al.append("""
/-- **C18 (pairs):** for all public modules `i < j`: importing `i` then `j`, and `j` then `i`, in a fresh
    interpreter both succeed and end in the same state (same modules loaded, same names bound). -/
theorem pair_ok_all (i j : Nat) (hij : i < j) (hj : j < Gen.Imports.nPublic) :
    pairOk cfg fuel (Gen.Imports.chains.getD i []) (Gen.Imports.chains.getD j []) = true := by
  have hi : i < Gen.Imports.nPublic := Nat.lt_trans hij hj
  exact rowOk_mem (rows i hi) j hij (by omega)
end C18.Pairs
""")
    files["All.lean"] = "\n".join(al)
    return files
