"""
Translator for C10: every syntactic use of an unordered collection (set / frozenset / dict-keys set algebra) in non-test
code whose iteration order could reach an output → Lean table.

A *set expression* is: a set literal / set comprehension, a call `set(..)` / `frozenset(..)`, or a binary `& | - ^`
with a set expression or a `.keys()` / `.items()` call as an operand.  Each maximal set expression is classified by the
construct that consumes it:
  0 membership  — only tested with `in` / `not in`, compared, or used as a default argument of `.get`/isinstance-like calls
  1 sorted      — wrapped in `sorted(..)`
  2 insensitive — consumed by len/any/all/min/max/sum/bool/set/frozenset/issubset-style calls or another set operation
  3 bound       — assigned to a name / attribute / passed on (order can only leak where that name is iterated: see class 4 of
                  the `for` over a Name is not tracked — stated in the trusted base)
  4 ITERATED    — `for .. in E`, comprehension over E, or passed to an order-preserving consumer (tuple/list/map/filter/join/…)
Class 4 sites must be allow-listed (with the reason they are commutative) in lean/CddVerif/Properties/C10.lean.
"""
from __future__ import annotations

import ast
from pathlib import Path

from harness.translators.loops import digest

INSENSITIVE = {"len", "any", "all", "min", "max", "sum", "bool", "set", "frozenset", "isinstance", "issubclass"}
SET_METHODS = {"issubset", "issuperset", "isdisjoint", "union", "intersection", "difference", "update", "__contains__"}


def is_set_expr(n) -> bool:
    if isinstance(n, (ast.Set, ast.SetComp)):
        return True
    if isinstance(n, ast.Call) and isinstance(n.func, ast.Name) and n.func.id in ("set", "frozenset"):
        return True
    # `literal_eval(<source or node>)` yields a real set when the evaluated text / node is a set display: set-capable
    if isinstance(n, ast.Call) and ((isinstance(n.func, ast.Name) and n.func.id == "literal_eval") or
                                    (isinstance(n.func, ast.Attribute) and n.func.attr == "literal_eval")):
        return True
    if isinstance(n, ast.BinOp) and isinstance(n.op, (ast.BitAnd, ast.BitOr, ast.Sub, ast.BitXor)):
        def keysy(x):
            return isinstance(x, ast.Call) and isinstance(x.func, ast.Attribute) and x.func.attr in ("keys", "items") and not x.args
        return is_set_expr(n.left) or is_set_expr(n.right) or keysy(n.left) or keysy(n.right)
    return False


def classify(node, parent, grand) -> int:
    if isinstance(parent, ast.Compare):
        return 0
    if isinstance(parent, (ast.For, ast.AsyncFor)) and parent.iter is node:
        return 4
    if isinstance(parent, ast.comprehension) and parent.iter is node:
        # a comprehension that builds a set / feeds an insensitive call is itself insensitive
        return 4
    if isinstance(parent, ast.Call):
        f = parent.func
        name = f.id if isinstance(f, ast.Name) else (f.attr if isinstance(f, ast.Attribute) else "")
        if node is f or (isinstance(f, ast.Attribute) and f.value is node):
            # method call on the set itself: E.issubset(..), E.__contains__
            return 2 if name in SET_METHODS else 4
        if name == "sorted":
            # with a key function, elements that compare equal under the key keep the set's own order: not order-free
            return 4 if any(k.arg == "key" for k in parent.keywords) else 1
        if name in INSENSITIVE or name in SET_METHODS:
            return 2
        if name in ("get", "partial", "rpartial", "contains", "eq", "ne", "is_", "isinstance", "hasattr", "getattr", "Literal", "startswith", "endswith"):
            return 0
        return 4
    if isinstance(parent, ast.BinOp):
        return 2
    if isinstance(parent, (ast.Assign, ast.AnnAssign, ast.keyword, ast.Return, ast.arguments, ast.IfExp, ast.BoolOp, ast.Tuple, ast.Dict, ast.Lambda, ast.NamedExpr)):
        return 3
    if isinstance(parent, ast.UnaryOp):
        return 2
    return 4


def consumer_print(node, parent) -> str:
    """what an order-preserving consumer of a set-valued NAME looks like: part of the site's digest, so that replacing e.g.
    `sorted(s, key=injective)` by `map(f, s)` is a different site even though the assignment that binds `s` is unchanged"""
    if isinstance(parent, (ast.For, ast.AsyncFor)):
        return "For(" + ast.dump(parent.target) + ")"
    if isinstance(parent, ast.comprehension):
        return "comprehension(" + ast.dump(parent.target) + ")"
    if isinstance(parent, ast.Call):
        return ast.dump(parent)
    return type(parent).__name__


def scan(repo: Path, pkg: str = "cdd"):
    out = []
    trees = {}
    for f in sorted((Path(repo) / pkg).rglob("*.py")):
        rel = str(f.relative_to(repo))
        if "/tests/" in rel:
            continue
        trees[rel] = ast.parse(f.read_text())
    all_parents = {}
    for rel, tree in trees.items():
        for p in ast.walk(tree):
            for c in ast.iter_child_nodes(p):
                all_parents[c] = p

    def name_uses(ident, rel, scope_node):
        """contexts in which a name bound to a set is used: inside `scope_node` (a function) or, for module-level
        names, anywhere in non-test code (as a bare name or as the last attribute of a dotted reference)"""
        worst, uses, consumers = 0, 0, []
        if scope_node is None:
            nodes = [n for t in trees.values() for n in ast.walk(t)]
        else:
            nodes = list(ast.walk(scope_node))
        for n in nodes:
            hit = (isinstance(n, ast.Name) and n.id == ident and isinstance(n.ctx, ast.Load)) or \
                  (scope_node is None and isinstance(n, ast.Attribute) and n.attr == ident and isinstance(n.ctx, ast.Load))
            if not hit:
                continue
            p = all_parents.get(n)
            c = classify(n, p, all_parents.get(p))
            if c == 3:
                c = 4  # a second hop is not followed: treat as potentially iterated
            uses += 1
            worst = max(worst, c)
            if c == 4:
                consumers.append(consumer_print(n, p))
        return worst, uses, sorted(consumers)

    for rel, tree in trees.items():
        parents = all_parents
        funcs = {}

        def qual(n):
            names = []
            while n in parents:
                n = parents[n]
                if isinstance(n, (ast.FunctionDef, ast.AsyncFunctionDef, ast.ClassDef)):
                    names.append(n.name)
            return ".".join(reversed(names))

        for n in ast.walk(tree):
            if is_set_expr(n):
                p = parents.get(n)
                if p is not None and is_set_expr(p):
                    continue  # not maximal
                g = parents.get(p)
                cls = classify(n, p, g)
                consumers = []
                if cls == 3 and isinstance(p, (ast.Assign, ast.AnnAssign)):
                    tgts = p.targets if isinstance(p, ast.Assign) else [p.target]
                    if len(tgts) == 1 and isinstance(tgts[0], ast.Name):
                        scope = p
                        while scope in parents and not isinstance(scope, (ast.FunctionDef, ast.AsyncFunctionDef)):
                            scope = parents[scope]
                        scope = scope if isinstance(scope, (ast.FunctionDef, ast.AsyncFunctionDef)) else None
                        worst, uses, consumers = name_uses(tgts[0].id, rel, scope)
                        cls = 4 if worst == 4 else (2 if uses else 0)
                elif cls == 3 and isinstance(p, (ast.IfExp, ast.BoolOp)) and isinstance(g, (ast.Assign, ast.AnnAssign)):
                    tgts = g.targets if isinstance(g, ast.Assign) else [g.target]
                    if len(tgts) == 1 and isinstance(tgts[0], ast.Name):
                        scope = g
                        while scope in parents and not isinstance(scope, (ast.FunctionDef, ast.AsyncFunctionDef)):
                            scope = parents[scope]
                        scope = scope if isinstance(scope, (ast.FunctionDef, ast.AsyncFunctionDef)) else None
                        worst, uses, consumers = name_uses(tgts[0].id, rel, scope)
                        cls = 4 if worst == 4 else (2 if uses else 0)
                out.append({"file": rel, "func": qual(n), "line": n.lineno, "cls": cls, "expr": ast.unparse(n)[:80],
                            "digest": digest(rel, qual(n), (ast.dump(p) if p is not None else ast.dump(n)) + "".join("|" + c for c in consumers))})
    return out


def to_lean(sites) -> str:
    lines = ["/-! GENERATED by harness/translators/setiter.py from /repo — do not edit. -/", "namespace Gen.SetIter", "",
             "/-- (digest, class) of every maximal set expression in non-test code; class 4 = iterated in an order-preserving way -/",
             "def sites : List (Nat × Nat) := ["]
    lines.append("\n".join("  (%d, %d)%s  -- %s:%d %s  %s" % (s["digest"], s["cls"], "," if k + 1 < len(sites) else "", s["file"], s["line"], s["func"], s["expr"].replace("\n", " "))
                           for k, s in enumerate(sites)))
    lines.append("]")
    lines.append("end Gen.SetIter")
    return "\n".join(lines) + "\n"
