"""
Translator for C11: every `while` statement and every directly self-recursive function of the non-test code → Lean table.

An entry is identified by a 60-bit digest of (file, enclosing function, `ast.dump` of the statement without positions),
so re-formatting or moving a loop leaves the digest unchanged while any change to its condition or body changes it.
"""
from __future__ import annotations

import ast
import hashlib
from pathlib import Path


def digest(*parts: str) -> int:
    h = hashlib.blake2b("\x00".join(parts).encode(), digest_size=8).digest()
    return int.from_bytes(h, "big") >> 4


INFINITE_ITERATORS = ("count", "cycle", "repeat")
RE_FUNCS = ("compile", "match", "search", "fullmatch", "sub", "subn", "split", "findall", "finditer")
MUTATORS = ("append", "extend", "insert", "add", "update", "appendleft")


def other_sites(tree, rel):
    """further sources of unbounded iteration, beside `while` and direct recursion:
    * calls of itertools.count / cycle / repeat and two-argument iter() (infinite iterators);
    * every use of the `re` module (backtracking can be super-linear);
    * `for` loops whose body grows the very collection they iterate over."""
    out = []

    def qual_of(stack):
        return ".".join(stack)

    def visit(node, stack):
        for ch in ast.iter_child_nodes(node):
            st = stack + [ch.name] if isinstance(ch, (ast.FunctionDef, ast.AsyncFunctionDef, ast.ClassDef)) else stack
            if isinstance(ch, ast.Call):
                f = ch.func
                name = f.id if isinstance(f, ast.Name) else (f.attr if isinstance(f, ast.Attribute) else None)
                owner = f.value.id if isinstance(f, ast.Attribute) and isinstance(f.value, ast.Name) else None
                if name in INFINITE_ITERATORS and (isinstance(f, ast.Name) or owner == "itertools") and not (name == "repeat" and len(ch.args) + len(ch.keywords) >= 2):
                    out.append({"file": rel, "func": qual_of(st), "line": ch.lineno, "kind": "infinite-iterator", "what": ast.unparse(ch)[:80],
                                "digest": digest(rel, qual_of(st), "iter", ast.dump(ch))})
                elif name == "iter" and owner is None and len(ch.args) == 2:
                    out.append({"file": rel, "func": qual_of(st), "line": ch.lineno, "kind": "iter-sentinel", "what": ast.unparse(ch)[:80],
                                "digest": digest(rel, qual_of(st), "iter2", ast.dump(ch))})
                elif owner == "re" and name in RE_FUNCS:
                    out.append({"file": rel, "func": qual_of(st), "line": ch.lineno, "kind": "regex", "what": ast.unparse(ch)[:80],
                                "digest": digest(rel, qual_of(st), "re", ast.dump(ch))})
            if isinstance(ch, (ast.For, ast.AsyncFor)) and isinstance(ch.iter, ast.Name):
                it = ch.iter.id
                grows = any(isinstance(c, ast.Call) and isinstance(c.func, ast.Attribute) and c.func.attr in MUTATORS
                            and isinstance(c.func.value, ast.Name) and c.func.value.id == it for b in ch.body for c in ast.walk(b))
                grows = grows or any(isinstance(c, ast.AugAssign) and isinstance(c.target, ast.Name) and c.target.id == it for b in ch.body for c in ast.walk(b))
                if grows:
                    out.append({"file": rel, "func": qual_of(st), "line": ch.lineno, "kind": "for-over-growing-collection", "what": "for … in %s" % it,
                                "digest": digest(rel, qual_of(st), "forgrow", ast.dump(ch))})
            visit(ch, st)

    visit(tree, [])
    for imp in ast.walk(tree):
        if isinstance(imp, ast.ImportFrom) and imp.module == "re":
            out.append({"file": rel, "func": "", "line": imp.lineno, "kind": "regex", "what": ast.unparse(imp)[:80], "digest": digest(rel, "", "reimport", ast.dump(imp))})
    return out


def scan_others(repo: Path, pkg: str = "cdd"):
    out = []
    for f in sorted((Path(repo) / pkg).rglob("*.py")):
        rel = str(f.relative_to(repo))
        if "/tests/" in rel:
            continue
        out += other_sites(ast.parse(f.read_text()), rel)
    return out


def scan(repo: Path, pkg: str = "cdd"):
    whiles, recs = [], []
    for f in sorted((Path(repo) / pkg).rglob("*.py")):
        rel = str(f.relative_to(repo))
        if "/tests/" in rel:
            continue
        tree = ast.parse(f.read_text())

        def visit(node, qual):
            for ch in ast.iter_child_nodes(node):
                if isinstance(ch, (ast.FunctionDef, ast.AsyncFunctionDef, ast.ClassDef)):
                    q = (qual + "." if qual else "") + ch.name
                    if not isinstance(ch, ast.ClassDef):
                        calls = [c for c in ast.walk(ch) if isinstance(c, ast.Call)]
                        if any((isinstance(c.func, ast.Name) and c.func.id == ch.name) or
                               (isinstance(c.func, ast.Attribute) and c.func.attr == ch.name and isinstance(c.func.value, ast.Name) and c.func.value.id in ("self", "cls"))
                               for c in calls):
                            recs.append({"file": rel, "func": q, "line": ch.lineno, "digest": digest(rel, q)})
                    visit(ch, q)
                else:
                    if isinstance(ch, ast.While):
                        whiles.append({"file": rel, "func": qual, "line": ch.lineno, "test": ast.unparse(ch.test),
                                       "digest": digest(rel, qual, ast.dump(ch))})
                    visit(ch, qual)

        visit(tree, "")
    return whiles, recs


def to_lean(whiles, recs, others=()) -> str:
    lines = ["/-! GENERATED by harness/translators/loops.py from /repo — do not edit. -/", "namespace Gen.Loops", ""]
    lines.append("/-- digests of every `while` statement in non-test code -/")
    lines.append("def whileLoops : List Nat := [")
    lines.append("\n".join("  %d%s  -- %s:%d %s  while %s" % (w["digest"], "," if k + 1 < len(whiles) else "", w["file"], w["line"], w["func"], w["test"].replace("\n", " ")) for k, w in enumerate(whiles)))
    lines.append("]")
    lines.append("/-- digests of every directly self-recursive function in non-test code -/")
    lines.append("def recursiveFns : List Nat := [")
    lines.append("\n".join("  %d%s  -- %s:%d %s" % (r["digest"], "," if k + 1 < len(recs) else "", r["file"], r["line"], r["func"]) for k, r in enumerate(recs)))
    lines.append("]")
    lines.append("/-- digests of the other sources of unbounded iteration: infinite iterators, two-argument iter(), uses of `re`, `for` over a collection grown in the body -/")
    lines.append("def otherSites : List Nat := [")
    lines.append("\n".join("  %d%s  -- %s:%d %s  [%s] %s" % (o["digest"], "," if k + 1 < len(others) else "", o["file"], o["line"], o["func"], o["kind"], o["what"].replace("\n", " ")) for k, o in enumerate(others)))
    lines.append("]")
    lines.append("end Gen.Loops")
    return "\n".join(lines) + "\n"
