"""Conversions between cdd IR dicts and the JSON IR of lean/CddVerif/Model/Doc.lean (tagged defaults)."""
NONE_STR = "```(None)```"


def to_tag(d):
    if d == NONE_STR:
        return ["none"]
    if isinstance(d, bool):
        return ["bool", d]
    if isinstance(d, int):
        return ["int", d]
    if isinstance(d, float):
        return ["float", repr(d)]
    if isinstance(d, complex):
        re_, im = d.real + 0.0, d.imag + 0.0
        return ["complex", "%r%s%rj" % (re_, "+" if im >= 0 else "-", abs(im))]
    if isinstance(d, str):
        return ["code", d] if (d.startswith("```") and d.endswith("```") and len(d) >= 6) else ["str", d]
    return ["other", repr(d)]


def from_tag(t):
    k = t[0]
    if k == "none":
        return NONE_STR
    if k == "float":
        return float(t[1])
    if k == "complex":
        return complex(t[1])
    return t[1]


def param_to_model(p):
    q = {"typ": p.get("typ"), "doc": p.get("doc"), "default": None}
    if "default" in p:
        q["default"] = to_tag(p["default"])
    return q


def ir_to_model(ir):
    rt = (ir.get("returns") or {}).get("return_type")
    return {"doc": ir.get("doc") or "", "params": [[n, param_to_model(p)] for n, p in (ir.get("params") or {}).items()],
            "returns": param_to_model(rt) if rt is not None else None}


def view_param(p):
    """the part of a parameter the property talks about: type string, typed default, description"""
    q = {"typ": p.get("typ"), "doc": p.get("doc"), "default": None}
    if "default" in p:
        q["default"] = to_tag(p["default"])
    return q


def ir_view(ir):
    rt = (ir.get("returns") or {}).get("return_type")
    return {"doc": ir.get("doc") or "", "params": [[n, view_param(p)] for n, p in (ir.get("params") or {}).items()],
            "returns": view_param(rt) if rt is not None else None}
