"""Run under `python3-vt` (has jsonschema): meta-schema check and instance validation on dumped JSON.

usage: python3-vt c06_vt.py <in.json> <out.json>
in : {"schemas": [schema, …], "validate": [[schema, instance], …]}
out: {"schemas": [true | "<message>", …], "validate": [true | false | "error: …", …], "version": "…"}
"""
import json
import sys
from importlib.metadata import version

from jsonschema import Draft202012Validator
from jsonschema.exceptions import SchemaError


def main():
    data = json.load(open(sys.argv[1]))
    out = {"schemas": [], "validate": [], "version": version("jsonschema")}
    for s in data.get("schemas", []):
        try:
            Draft202012Validator.check_schema(s)
            out["schemas"].append(True)
        except SchemaError as e:
            out["schemas"].append("invalid: " + e.message[:160])
    for s, inst in data.get("validate", []):
        try:
            out["validate"].append(bool(Draft202012Validator(s).is_valid(inst)))
        except Exception as e:  # noqa
            out["validate"].append("error: %s: %s" % (type(e).__name__, str(e)[:120]))
    json.dump(out, open(sys.argv[2], "w"))


if __name__ == "__main__":
    main()
