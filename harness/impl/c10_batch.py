"""
C10 batch: run in a fresh interpreter (under some PYTHONHASHSEED); prints one JSON line {case id: output digest}.
usage: python c10_batch.py <seed> <n cases> <mode>    mode: plain | history
All inputs derive from random.Random(seed) (independent of the hash seed).
"""
import ast
import copy
import hashlib
import json
import os
import random
import sys

sys.path.insert(0, os.path.dirname(os.path.dirname(os.path.dirname(os.path.abspath(__file__)))))
from harness.gen import ir as G  # noqa: E402

import cdd.class_.parse  # noqa: E402,F401
import cdd.argparse_function.emit  # noqa: E402
import cdd.argparse_function.parse  # noqa: E402
import cdd.class_.emit  # noqa: E402
import cdd.docstring.emit  # noqa: E402
import cdd.docstring.parse  # noqa: E402
import cdd.function.emit  # noqa: E402
import cdd.function.parse  # noqa: E402
import cdd.json_schema.emit  # noqa: E402
import cdd.json_schema.parse  # noqa: E402
import cdd.sqlalchemy.emit  # noqa: E402
import cdd.shared.ast_utils  # noqa: E402
from cdd.shared.source_transformer import to_code  # noqa: E402


def canon_ir(ir):
    """IR as JSON keeping the ORDER of parameters (the property) but not the key order inside one ParamVal"""
    def pv(v):
        return {k: (repr(v[k]) if not isinstance(v[k], (str, int, float, bool, type(None))) else v[k]) for k in sorted(v)}
    return json.dumps({"name": ir.get("name"), "doc": ir.get("doc"),
                       "params": [[k, pv(v)] for k, v in (ir.get("params") or {}).items()],
                       "returns": [[k, pv(v)] for k, v in (ir.get("returns") or {}).items()]}, sort_keys=False)


def run_case(kind, payload):
    try:
        if kind == "function_parse":
            fn = ast.parse(payload).body[0]
            return canon_ir(cdd.function.parse.function(fn))
        if kind == "reuse":
            # one caller-owned AST node converted several times in a row: an earlier conversion must not change a later one
            node = ast.parse(payload).body[0]
            d0 = ast.dump(node)
            outs = []
            for step in ("function", "class", "argparse", "json", "function"):
                ir = cdd.function.parse.function(node)
                if step == "function":
                    outs.append(to_code(cdd.function.emit.function(ir, function_name="f", function_type="static")))
                elif step == "class":
                    to_code(cdd.class_.emit.class_(ir, emit_call=True, class_name="C"))
                elif step == "argparse":
                    to_code(cdd.argparse_function.emit.argparse_function(ir))
                else:
                    cdd.json_schema.emit.json_schema(ir)
            if ast.dump(node) != d0:
                return "INPUT-MUTATED:" + outs[0]
            if outs[0] != outs[1]:
                return "HISTORY-DEPENDENT:%s|||%s" % (outs[0], outs[1])
            return outs[0]
        if kind == "docstring_parse":
            return canon_ir(cdd.docstring.parse.docstring(payload))
        if kind in ("argparse_parse", "argparse_parse_setdefault"):
            ir = cdd.argparse_function.parse.argparse_ast(ast.parse(payload).body[0])
            return canon_ir(ir) + "\n" + to_code(cdd.class_.emit.class_(ir, emit_call=False, class_name="C"))
        if kind == "function_parse_setdefault":
            ir = cdd.function.parse.function(ast.parse(payload).body[0])
            return canon_ir(ir) + "\n" + to_code(cdd.class_.emit.class_(ir, emit_call=False, class_name="C"))
        if kind == "routes_upsert":
            # gen_routes + upsert_routes: a routes file that already holds some of the requested routes is completed with the missing ones
            import tempfile

            from cdd.compound.openapi.gen_routes import gen_routes, upsert_routes

            cls, cols, first, then = payload
            with tempfile.TemporaryDirectory() as td:
                mp, rp = os.path.join(td, "models.py"), os.path.join(td, "routes.py")
                with open(mp, "wt") as f:
                    f.write("from sqlalchemy import Column, Integer, String\nfrom sqlalchemy.orm import declarative_base\n\nBase = declarative_base()\n\n\n"
                            "class %s(Base):\n    \"\"\"A model.\"\"\"\n\n    __tablename__ = \"%s\"\n\n%s" % (cls, cls.lower(), cols))
                outs = []
                for crud in (first, then):
                    routes, pk = gen_routes("app", mp, cls, crud, "/api/" + cls.lower())
                    upsert_routes("app", routes, rp, "/api/" + cls.lower(), pk)
                    with open(rp) as f:
                        outs.append(f.read())
            return outs[-1]
        if kind == "merge_all":
            mod = ast.parse(payload)
            cdd.shared.ast_utils.merge_assignment_lists(mod, "__all__")
            return to_code(mod)
        ir = copy.deepcopy(payload)
        if kind == "class_emit":
            return to_code(cdd.class_.emit.class_(ir, emit_call=False, class_name="C"))
        if kind == "function_emit":
            return to_code(cdd.function.emit.function(ir, function_name="f", function_type="static"))
        if kind == "argparse_emit":
            return to_code(cdd.argparse_function.emit.argparse_function(ir))
        if kind == "json_schema_emit":
            return json.dumps(cdd.json_schema.emit.json_schema(ir))
        if kind.startswith("docstring_emit_"):
            return cdd.docstring.emit.docstring(ir, docstring_format=kind.rsplit("_", 1)[1])
        if kind.startswith("sqlalchemy"):
            emit = getattr(cdd.sqlalchemy.emit, kind)
            kw = {"name": "T"} if kind == "sqlalchemy_table" else {"class_name": "T"}
            return to_code(emit(ir, **kw))
        if kind == "json_to_sql":
            ir = cdd.json_schema.parse.json_schema(copy.deepcopy(payload))
            return to_code(cdd.sqlalchemy.emit.sqlalchemy_table(ir, name="T"))
        if kind == "json_schema_parse":
            return canon_ir(cdd.json_schema.parse.json_schema(copy.deepcopy(payload)))
        if kind == "infer_imports":
            mod = ast.Module(body=[cdd.class_.emit.class_(ir, emit_call=False, class_name="C")], type_ignores=[])
            imps = cdd.shared.ast_utils.infer_imports(mod)
            return "\n".join(to_code(i) for i in (imps or ()))
        if kind == "chain":
            cls = cdd.class_.emit.class_(ir, emit_call=False, class_name="C")
            ir2 = cdd.class_.parse.class_(ast.parse(to_code(cls)).body[0])
            ap = cdd.argparse_function.emit.argparse_function(ir2)
            ir3 = cdd.argparse_function.parse.argparse_ast(ast.parse(to_code(ap)).body[0])
            return canon_ir(ir3)
    except Exception as e:  # noqa
        import re

        return "raises:%s:%s" % (type(e).__name__, re.sub(r"0x[0-9a-fA-F]+", "0x..", str(e))[:80])  # object addresses are not output
    return "?"


def cases(seed, n):
    r = random.Random(seed)
    out = []
    for i in range(n):
        ir = G.gen_ir(r, nparams=r.randint(2, 5), none_ok=False)
        names = list(ir["params"])
        k = r.randint(0, len(names))
        documented = r.sample(names, k)
        order = list(documented)
        r.shuffle(order)
        src = G.function_source(r, ir, documented=sorted(documented, key=names.index), doc_order=order, two_announce=(i % 4 == 0))
        out.append(("function_parse", src))
        if i % 3 == 0:
            out.append(("reuse", src))
        ds = src.split('"""')[1]
        out.append(("docstring_parse", ds))
        kind = r.choice(["class_emit", "function_emit", "argparse_emit", "json_schema_emit", "docstring_emit_rest",
                         "docstring_emit_google", "docstring_emit_numpydoc", "infer_imports", "chain"])
        out.append((kind, ir))
        # hand-written inputs with collections written as displays: choices as list / tuple / set, several __all__ lists with names that
        # differ only in case, and (marked, a known order leak) defaults that are themselves set displays
        if i % 3 == 1:
            ms = r.sample(["'alpha'", "'beta'", "'gamma'", "'delta'", "'eps'", "'zeta'"], r.randint(2, 5))
            o, c = r.choice(["[]", "()", "{}"])
            ap = ('def set_cli_args(argument_parser):\n    """\n    Set CLI arguments\n\n    :param argument_parser: argument parser\n    :type argument_parser: ```ArgumentParser```\n\n'
                  '    :return: argument_parser\n    :rtype: ```ArgumentParser```\n    """\n    argument_parser.description = "A tool"\n'
                  '    argument_parser.add_argument("--mode", choices=%s%s%s, default=%s, help="the mode")\n'
                  '    argument_parser.add_argument("--count", type=int, default=3, help="a count")\n    return argument_parser\n' % (o, ", ".join(ms), c, ms[0]))
            out.append(("argparse_parse", ap))
            pool = ["Config", "config", "Model", "model", "Integer", "INTEGER", "run", "Run", "alpha", "beta", "Zeta"]
            a1, a2 = r.sample(pool, r.randint(2, 5)), r.sample(pool, r.randint(1, 4))
            out.append(("merge_all", "__all__ = %r\nx = 1\n__all__ = %r\n" % (a1, a2)))
        if i % 5 == 2:
            cols = '    id = Column(Integer, doc="the id", primary_key=True)\n    name = Column(String, doc="the name")\n'
            first = r.choice(["C", "R", "D", "CR"])
            out.append(("routes_upsert", (r.choice(["Config", "Item", "Dataset"]), cols, first, r.choice(["CRD", "RCD", "DRC"]))))
        if i % 10 == 7:
            ms = r.sample(['"alpha"', '"beta"', '"gamma"', '"delta"'], r.randint(2, 4))
            out.append(("function_parse_setdefault", 'def f(a: set = {%s}, b=("x", "y")):\n    """\n    S.\n\n    :param a: the set\n    :param b: t\n    """\n    return None\n' % ", ".join(ms)))
        # a pair of unrelated inputs that mention the same, otherwise unused, user-defined type name: first as a scalar column type, then as
        # the right-hand member of a Union; in history mode the two run in either order and interleaved with other calls
        if i % 2 == 1:
            from collections import OrderedDict as _OD

            u_i = "Entity%d" % i
            k_sql = r.choice(["sqlalchemy", "sqlalchemy_table", "sqlalchemy_hybrid"])
            out.append((k_sql, {"name": "T", "doc": "A table.", "returns": None, "type": "static", "params": _OD([
                ("id", {"typ": "int", "doc": "[PK] the id"}), ("owner", {"typ": u_i, "doc": "a reference"})])}))
            out.append((r.choice(["sqlalchemy", "sqlalchemy_table", "sqlalchemy_hybrid"]), {"name": "T", "doc": "A table.", "returns": None, "type": "static", "params": _OD([
                ("id", {"typ": "int", "doc": "[PK] the id"}), ("recipient", {"typ": r.choice(["Union[int, %s]", "Optional[Union[int, %s]]"]) % u_i, "doc": "a reference"})])}))
        # user-defined (unknown) type names shared between unrelated inputs: module-level tables must not learn from earlier calls
        names = ["Customer", "Order", "Shipment"]
        if i % 2 == 0:
            u = r.choice(names)
            ir2 = {"name": "T", "doc": "A table.", "returns": None, "type": "static", "params": {
                "id": {"typ": "int", "doc": "[PK] the id"},
                r.choice(["owner", "recipient"]): {"typ": r.choice([u, "Union[int, %s]" % u, "Optional[%s]" % u, "Union[%s, int]" % u]), "doc": "a reference"},
                "n": {"typ": "int", "doc": "count", "default": 1}}}
            from collections import OrderedDict
            ir2["params"] = OrderedDict(ir2["params"])
            out.append((r.choice(["sqlalchemy", "sqlalchemy_table", "sqlalchemy_hybrid"]), ir2))
            out.append(("json_to_sql", {"$id": "https://x/T.schema.json", "$schema": "https://json-schema.org/draft/2020-12/schema", "description": "A thing.", "type": "object",
                                        "properties": {"vals": {"description": "values", "type": "array", "items": {"type": r.choice(["number", "integer", "boolean", "object", "string"])}},
                                                       "alt": {"description": "either", "anyOf": [{"type": r.choice(["number", "integer", "boolean"])}, {"type": "string"}]},
                                                       "k": {"description": "[PK] a key", "type": "integer"}}, "required": ["k"]}))
            out.append(("json_schema_parse", {"$id": "https://x/T.schema.json", "$schema": "https://json-schema.org/draft/2020-12/schema", "description": "A thing.",
                                                "type": "object", "properties": {"items_": {"description": "things", "type": "array", "items": {"type": r.choice([u, "string", "integer"])}},
                                                                                   "k": {"description": "a key", "type": "string"}}, "required": ["k"]}))
    return out


def main():
    seed, n, mode = int(sys.argv[1]), int(sys.argv[2]), sys.argv[3]
    cs = cases(seed, n)
    res = {}
    if mode in ("plain", "preimport"):
        if mode == "preimport":
            # what else was loaded earlier in the process must not matter: import every public module of the package first
            import importlib
            import pkgutil

            import cdd

            for m in pkgutil.walk_packages(cdd.__path__, "cdd."):
                if ".tests" not in m.name and not m.name.endswith("__main__"):
                    try:
                        importlib.import_module(m.name)
                    except Exception:  # noqa
                        pass
        for i, (k, p) in enumerate(cs):
            res[str(i)] = run_case(k, p)
    else:
        # history: shuffled order, every case preceded by unrelated calls and run twice; the answer must not depend on it
        r = random.Random(seed + 1)
        idx = list(range(len(cs)))
        r.shuffle(idx)
        for i in idx:
            for _ in range(r.randint(0, 2)):
                j = r.randrange(len(cs))
                run_case(*cs[j])
            a = run_case(*cs[i])
            b = run_case(*cs[i])
            res[str(i)] = a if a == b else "DIFFERS-ON-REPEAT:%s|||%s" % (a, b)
    out = {k: v for k, v in res.items()}
    print(json.dumps({"outputs": out, "kinds": [c[0] for c in cs]}))


if __name__ == "__main__":
    main()
