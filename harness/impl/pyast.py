"""Python `ast` ⇄ the flat JSON AST of lean/CddVerif/Py/Ast.lean (expressions as `ast.unparse` text)."""
from __future__ import annotations

import ast


def _u(e):
    return None if e is None else ast.unparse(e)


def _arg(a):
    return None if a is None else {"name": a.arg, "ann": _u(a.annotation)}


def args_to_json(a: ast.arguments):
    return {
        "posonly": [_arg(x) for x in a.posonlyargs],
        "args": [_arg(x) for x in a.args],
        "vararg": _arg(a.vararg),
        "kwonly": [_arg(x) for x in a.kwonlyargs],
        "kw_defaults": [_u(x) for x in a.kw_defaults],
        "kwarg": _arg(a.kwarg),
        "defaults": [_u(x) for x in a.defaults],
    }


def stmt_to_json(s: ast.stmt):
    if isinstance(s, (ast.FunctionDef, ast.AsyncFunctionDef)):
        return {"k": "fn", "async": isinstance(s, ast.AsyncFunctionDef), "name": s.name, "args": args_to_json(s.args),
                "body": [stmt_to_json(x) for x in s.body], "decos": [_u(d) for d in s.decorator_list], "returns": _u(s.returns)}
    if isinstance(s, ast.ClassDef):
        return {"k": "cls", "name": s.name, "bases": [_u(b) for b in s.bases], "keywords": [_u(k.value) if k.arg is None else "%s=%s" % (k.arg, _u(k.value)) for k in s.keywords],
                "body": [stmt_to_json(x) for x in s.body], "decos": [_u(d) for d in s.decorator_list]}
    if isinstance(s, ast.AnnAssign):
        return {"k": "ann", "target": _u(s.target), "ann": _u(s.annotation), "value": _u(s.value)}
    if isinstance(s, ast.Assign):
        return {"k": "assign", "targets": [_u(t) for t in s.targets], "value": _u(s.value)}
    if isinstance(s, ast.Expr):
        if isinstance(s.value, ast.Constant) and isinstance(s.value.value, str):
            return {"k": "str", "s": s.value.value}
        return {"k": "expr", "src": _u(s.value)}
    return {"k": "other", "src": ast.unparse(s)}


def module_to_json(m):
    if isinstance(m, str):
        m = ast.parse(m)
    body = m.body if isinstance(m, ast.Module) else [m]
    return [stmt_to_json(s) for s in body]


def _e(src):
    return None if src is None else ast.parse(src, mode="eval").body


def _mkarg(j):
    return None if j is None else ast.arg(arg=j["name"], annotation=_e(j["ann"]))


def json_to_stmt(j):
    k = j["k"]
    if k == "fn":
        a = j["args"]
        args = ast.arguments(posonlyargs=[_mkarg(x) for x in a["posonly"]], args=[_mkarg(x) for x in a["args"]], vararg=_mkarg(a["vararg"]),
                             kwonlyargs=[_mkarg(x) for x in a["kwonly"]], kw_defaults=[_e(x) for x in a["kw_defaults"]], kwarg=_mkarg(a["kwarg"]),
                             defaults=[_e(x) for x in a["defaults"]])
        cls = ast.AsyncFunctionDef if j.get("async") else ast.FunctionDef
        return cls(name=j["name"], args=args, body=[json_to_stmt(x) for x in j["body"]] or [ast.Pass()], decorator_list=[_e(d) for d in j["decos"]],
                   returns=_e(j["returns"]), type_comment=None, type_params=[], lineno=1, col_offset=0)
    if k == "cls":
        kws = []
        for s in j.get("keywords", []):
            if "=" in s and s.split("=", 1)[0].isidentifier():
                n, v = s.split("=", 1)
                kws.append(ast.keyword(arg=n, value=_e(v)))
            else:
                kws.append(ast.keyword(arg=None, value=_e(s)))
        return ast.ClassDef(name=j["name"], bases=[_e(b) for b in j["bases"]], keywords=kws, body=[json_to_stmt(x) for x in j["body"]] or [ast.Pass()],
                            decorator_list=[_e(d) for d in j["decos"]], type_params=[], lineno=1, col_offset=0)
    if k == "ann":
        return ast.AnnAssign(target=_e(j["target"]), annotation=_e(j["ann"]), value=_e(j["value"]), simple=1, lineno=1, col_offset=0)
    if k == "assign":
        return ast.Assign(targets=[_e(t) for t in j["targets"]], value=_e(j["value"]), type_comment=None, lineno=1, col_offset=0)
    if k == "str":
        return ast.Expr(value=ast.Constant(value=j["s"]), lineno=1, col_offset=0)
    if k == "expr":
        return ast.Expr(value=_e(j["src"]), lineno=1, col_offset=0)
    return ast.parse(j["src"]).body[0]


def json_to_module(js):
    return ast.fix_missing_locations(ast.Module(body=[json_to_stmt(j) for j in js], type_ignores=[]))
