"""C02: running the real emitters / parsers and converting their inputs and outputs to the JSON of the Lean model
(lean/CddVerif/Model/Iface*.lean, codec in lean/CddVerif/Driver/C02.lean)."""
from __future__ import annotations

import ast
import copy
from collections import OrderedDict
from functools import lru_cache

NONE = "```(None)```"
FORMATS = ("class", "pydantic", "function", "argparse")
STYLES = ("rest", "google", "numpydoc")


# ----------------------------------------------------------------------------------------------
# values / IR
# ----------------------------------------------------------------------------------------------
def val_to_json(v):
    """typed encoding of a Python default value"""
    if isinstance(v, bool):
        return {"t": "bool", "v": "True" if v else "False"}
    if isinstance(v, int):
        return {"t": "int", "v": str(v)}
    if isinstance(v, float):
        return {"t": "float", "v": repr(v)}
    if isinstance(v, complex):
        return {"t": "complex", "v": repr(v)}
    if isinstance(v, str):
        return {"t": "str", "v": v}
    if isinstance(v, ast.AST):
        return {"t": "node", "e": expr_to_json(v)}
    return {"t": "other:" + type(v).__name__, "v": repr(v)}


def json_to_val(j):
    t, v = j["t"], j["v"]
    if t == "bool":
        return v == "True"
    if t == "int":
        return int(v)
    if t == "float":
        return float(v)
    if t == "complex":
        return complex(v)
    return v


def param_to_json(p):
    if p is None:
        return None
    return {"doc": p.get("doc"), "typ": p.get("typ"), "default": val_to_json(p["default"]) if "default" in p and p["default"] is not None else None}


def ir_to_json(ir):
    rt = (ir.get("returns") or {}).get("return_type") if isinstance(ir.get("returns"), dict) else None
    return {"name": ir.get("name"), "type": ir.get("type"), "doc": ir.get("doc") or "",
            "params": [[k, param_to_json(v)] for k, v in (ir.get("params") or {}).items()],
            "returns": param_to_json(rt) if rt is not None else None}


def json_to_param(j):
    p = OrderedDict()
    if j.get("doc") is not None:
        p["doc"] = j["doc"]
    if j.get("typ") is not None:
        p["typ"] = j["typ"]
    if j.get("default") is not None:
        p["default"] = json_to_val(j["default"])
    return p


def json_to_ir(j):
    ir = {"name": j.get("name"), "doc": j.get("doc") or "", "params": OrderedDict((k, json_to_param(v)) for k, v in j["params"]),
          "returns": None if j.get("returns") is None else OrderedDict((("return_type", json_to_param(j["returns"])),))}
    if j.get("type") is not None:
        ir["type"] = j["type"]
    return ir


# ----------------------------------------------------------------------------------------------
# AST → structured JSON (Iface.Top)
# ----------------------------------------------------------------------------------------------
def const_to_json(v):
    return None if v is None else val_to_json(v)


def expr_to_json(e):
    if isinstance(e, ast.Constant):
        if e.value is None or isinstance(e.value, (bool, int, float, complex, str)):
            return {"k": "const", "v": const_to_json(e.value)}
        return {"k": "code", "src": ast.unparse(e), "tuple": False}
    if isinstance(e, ast.UnaryOp) and isinstance(e.op, ast.USub) and isinstance(e.operand, ast.Constant) and \
            isinstance(e.operand.value, (int, float, complex)) and not isinstance(e.operand.value, bool):
        return {"k": "neg", "v": const_to_json(e.operand.value)}
    if isinstance(e, ast.Name):
        return {"k": "name", "id": e.id}
    return {"k": "code", "src": ast.unparse(e), "tuple": isinstance(e, ast.Tuple)}


def expr_unsupported(e):
    """node kinds on which `get_value` / `literal_eval` behave in ways the model's `Expr.code` does not record"""
    if isinstance(e, (ast.Constant, ast.Name)):
        return None
    if isinstance(e, ast.UnaryOp):
        if isinstance(e.op, ast.USub) and isinstance(e.operand, ast.Constant) and isinstance(e.operand.value, (int, float, complex)) \
                and not isinstance(e.operand.value, bool):
            return None
        return "unary operator other than minus-number"
    if hasattr(e, "value"):
        return "node with a .value attribute (%s)" % type(e).__name__
    try:
        ast.literal_eval(e)
        return "literal_eval-able non-constant (%s)" % type(e).__name__
    except Exception:  # noqa
        return None


def _is_parser_attr(e, attr):
    return isinstance(e, ast.Attribute) and e.attr == attr and isinstance(e.value, ast.Name) and e.value.id == "argument_parser"


def stmt_to_json(s, notes):
    if isinstance(s, ast.Expr):
        v = s.value
        if isinstance(v, ast.Constant) and isinstance(v.value, str):
            return {"k": "doc", "s": v.value}
        if isinstance(v, ast.Constant) and v.value is Ellipsis:
            return {"k": "ellipsis"}
        if isinstance(v, ast.Call) and _is_parser_attr(v.func, "add_argument") and len(v.args) == 1 and isinstance(v.args[0], ast.Constant) \
                and isinstance(v.args[0].value, str) and v.args[0].value.startswith("--"):
            out = {"k": "add", "name": v.args[0].value[2:], "typ": None, "choices": None, "action": None, "help": None, "required": False, "default": None}
            order = []
            for kw in v.keywords:
                order.append(kw.arg)
                if kw.arg == "type" and isinstance(kw.value, ast.Name):
                    out["typ"] = kw.value.id
                elif kw.arg == "choices" and isinstance(kw.value, ast.Tuple) and all(isinstance(x, ast.Constant) and isinstance(x.value, str) for x in kw.value.elts):
                    out["choices"] = [x.value for x in kw.value.elts]
                elif kw.arg == "action" and isinstance(kw.value, ast.Constant) and isinstance(kw.value.value, str):
                    out["action"] = kw.value.value
                elif kw.arg == "help" and isinstance(kw.value, ast.Constant) and isinstance(kw.value.value, str):
                    out["help"] = kw.value.value
                elif kw.arg == "required" and isinstance(kw.value, ast.Constant) and kw.value.value is True:
                    out["required"] = True
                elif kw.arg == "default":
                    out["default"] = expr_to_json(kw.value)
                    u = expr_unsupported(kw.value)
                    if u:
                        notes.append(u)
                else:
                    notes.append("add_argument keyword outside the subset: %s" % kw.arg)
            canon = [k for k in ("type", "choices", "action", "help", "required", "default") if k in order]
            if order != canon:
                notes.append("add_argument keyword order")
            return out
        return {"k": "other", "src": ast.unparse(s)}
    if isinstance(s, ast.AnnAssign) and isinstance(s.target, ast.Name):
        if s.value is not None:
            u = expr_unsupported(s.value)
            if u:
                notes.append(u)
        return {"k": "ann", "target": s.target.id, "ann": ast.unparse(s.annotation), "value": None if s.value is None else expr_to_json(s.value)}
    if isinstance(s, ast.Assign) and len(s.targets) == 1 and _is_parser_attr(s.targets[0], "description") and isinstance(s.value, ast.Constant):
        return {"k": "descr", "c": const_to_json(s.value.value)}
    if isinstance(s, ast.Return):
        v = s.value
        if isinstance(v, ast.Name) and v.id == "argument_parser":
            return {"k": "retparser"}
        if isinstance(v, ast.Tuple) and len(v.elts) == 2 and isinstance(v.elts[0], ast.Name) and v.elts[0].id == "argument_parser":
            u = expr_unsupported(v.elts[1])
            if u:
                notes.append(u)
            return {"k": "rettuple", "e": expr_to_json(v.elts[1])}
        if v is not None:
            u = expr_unsupported(v)
            if u:
                notes.append(u)
            return {"k": "ret", "e": expr_to_json(v)}
    return {"k": "other", "src": ast.unparse(s)}


def top_to_json(node):
    """-> (structured JSON, notes on constructs the model does not record)"""
    notes = []
    if isinstance(node, ast.ClassDef):
        if node.keywords or node.decorator_list:
            notes.append("class keywords / decorators")
        return {"k": "cls", "name": node.name, "bases": [ast.unparse(b) for b in node.bases], "body": [stmt_to_json(s, notes) for s in node.body]}, notes
    if isinstance(node, ast.FunctionDef):
        a = node.args
        if a.posonlyargs or a.vararg or a.kwarg or node.decorator_list:
            notes.append("posonly / *args / **kwargs / decorators")
        for d in list(a.defaults) + [d for d in a.kw_defaults if d is not None]:
            u = expr_unsupported(d)
            if u:
                notes.append(u)
        return {"k": "fn", "name": node.name,
                "args": {"args": [{"name": x.arg, "ann": None if x.annotation is None else ast.unparse(x.annotation)} for x in a.args],
                         "defaults": [expr_to_json(d) for d in a.defaults],
                         "kwonly": [{"name": x.arg, "ann": None if x.annotation is None else ast.unparse(x.annotation)} for x in a.kwonlyargs],
                         "kw_defaults": [None if d is None else expr_to_json(d) for d in a.kw_defaults]},
                "body": [stmt_to_json(s, notes) for s in node.body], "returns": None if node.returns is None else ast.unparse(node.returns)}, notes
    return {"k": "other", "src": ast.unparse(node)}, ["not a class / function"]


# ----------------------------------------------------------------------------------------------
# the real code
# ----------------------------------------------------------------------------------------------
def _mods():
    import cdd.class_.parse  # noqa: F401  (import order, see notes)
    import cdd.argparse_function.emit
    import cdd.argparse_function.parse
    import cdd.class_.emit
    import cdd.docstring.emit
    import cdd.docstring.parse
    import cdd.function.emit
    import cdd.function.parse
    import cdd.pydantic.emit
    import cdd.pydantic.parse
    import cdd.shared.docstring_parsers
    import cdd.shared.source_transformer

    return cdd


def real_emit(fmt, cfg, ir):
    cdd = _mods()
    ir = copy.deepcopy(ir)
    style, edd = cfg["style"], cfg["edd"]
    if fmt == "class":
        return cdd.class_.emit.class_(ir, docstring_format=style, emit_default_doc=edd)
    if fmt == "pydantic":
        return cdd.pydantic.emit.pydantic(ir, docstring_format=style, emit_default_doc=edd)
    if fmt == "function":
        return cdd.function.emit.function(ir, function_name=None, function_type=None, docstring_format=style, emit_default_doc=edd,
                                          type_annotations=cfg["type_annotations"], emit_as_kwonlyargs=cfg["kw_only"])
    return cdd.argparse_function.emit.argparse_function(ir, docstring_format=style, emit_default_doc=edd)


def real_parse(fmt, node):
    cdd = _mods()
    if fmt == "class":
        return cdd.class_.parse.class_(node)
    if fmt == "pydantic":
        return cdd.pydantic.parse.pydantic(node)
    if fmt == "function":
        return cdd.function.parse.function(node)
    return cdd.argparse_function.parse.argparse_ast(node)


def real_doc_emit(dcfg, dir_json):
    """the docstring layer's answer to the emitter's request (`cdd.docstring.emit.docstring`)"""
    cdd = _mods()
    ir = json_to_ir(dir_json)
    return cdd.docstring.emit.docstring(ir, docstring_format=dcfg["style"], purpose=dcfg["purpose"], word_wrap=True, indent_level=dcfg["indent_level"],
                                        emit_separating_tab=dcfg["emit_separating_tab"], emit_types=dcfg["emit_types"],
                                        emit_original_whitespace=False, emit_default_doc=dcfg["emit_default_doc"])


def real_doc_parse(fmt, doc_str):
    """the docstring layer's answer to the parser's request"""
    cdd = _mods()
    if fmt in ("class", "pydantic"):
        return cdd.docstring.parse.docstring(doc_str, emit_default_doc=False, parse_original_whitespace=False)
    if fmt == "function":
        return cdd.docstring.parse.docstring(doc_str.replace(":cvar", ":param"), parse_original_whitespace=False, infer_type=False)
    return cdd.shared.docstring_parsers.parse_docstring(doc_str, word_wrap=False, emit_default_doc=True, parse_original_whitespace=False)


@lru_cache(maxsize=50000)
def real_extract_default(edd, doc):
    from cdd.shared.defaults_utils import extract_default

    d, v = extract_default(doc, emit_default_doc=edd)
    return d, v


@lru_cache(maxsize=200000)
def real_adhoc(doc, name, is_none):
    """parse_adhoc_doc_for_typ + the `eval` guard of `__set_name_and_type_handle_doc_in_param`"""
    import cdd.shared.docstring_parsers as dp

    typ = dp.parse_adhoc_doc_for_typ(doc, name, is_none)
    if typ is None:
        return None
    try:
        # the very call the analysed code makes (on a type string it derived itself), with the locals it has at that point
        eval(typ, vars(dp), {"_param": {}, "name": name, "was_none": is_none, "word_wrap": True, "typ": typ})  # noqa: S307
        return typ
    except (NameError, SyntaxError, TypeError):
        return None


def tidy(d):
    return " ".join(map(str.strip, d.split("\n"))).rstrip()


def py_expr(src):
    """CPython: ast.parse(src).body[0].value → (json | None for SyntaxError, note)"""
    if not src.strip():
        # the empty source: the model never asks the expression parser about it (an empty str default is falsy / handled before the
        # call), so it is no reason to leave a case unclaimed
        return None, None
    try:
        m = ast.parse(src)
    except SyntaxError:
        return None, None
    except Exception as e:  # noqa
        return None, "ast.parse raises %s" % type(e).__name__
    if len(m.body) != 1 or not isinstance(m.body[0], ast.Expr):
        return None, "source is not one expression statement"
    e = m.body[0].value
    return expr_to_json(e), expr_unsupported(e)


def build_env(fmt, ir, doc_text, doc_ir_json, top_json, names):
    """answers of the docstring layer / CPython to every question the model can ask on this case"""
    notes = []
    if doc_ir_json is not None:
        # the docstring layer may invent entries (a keyword in prose read as a marker): the model asks about those names too
        names = list(dict.fromkeys(list(names) + [k for k, _ in doc_ir_json["params"]]))
    strings = {""}
    for _, p in list((ir.get("params") or {}).items()) + list((ir.get("returns") or {}).items()):
        if isinstance(p.get("doc"), str):
            strings.add(p["doc"])
    if doc_ir_json is not None:
        for _, p in doc_ir_json["params"] + ([["return_type", doc_ir_json["returns"]]] if doc_ir_json["returns"] else []):
            if isinstance(p.get("doc"), str):
                strings.add(p["doc"])
    raw_doc = None
    if top_json is not None:
        for s in top_json.get("body", []):
            if s["k"] == "add" and isinstance(s.get("help"), str):
                strings.add(s["help"])
            if s["k"] == "doc" and raw_doc is None:
                raw_doc = s["s"]
    if raw_doc is not None and fmt == "argparse":
        for line in raw_doc.split("\n"):
            if line.lstrip().startswith(":return"):
                strings.add(line.partition(",")[2].lstrip())
    # closure under extract_default
    for _ in range(2):
        for s in list(strings):
            for edd in (True, False):
                try:
                    strings.add(real_extract_default(edd, s)[0])
                except Exception:  # noqa
                    pass
    ed = []
    for s in sorted(strings):
        for edd in (True, False):
            try:
                d, v = real_extract_default(edd, s)
            except Exception as e:  # noqa
                notes.append("extract_default raises %s" % type(e).__name__)
                continue
            vj = None if v is None else val_to_json(v)
            if vj is not None and vj["t"].startswith("other"):
                notes.append("extract_default value of type %s" % vj["t"])
                continue
            ed.append([edd, s, d, vj])
    adhoc = []
    for s in sorted({tidy(x) for x in strings}):
        for n in names:
            for b in (True, False):
                try:
                    adhoc.append([s, n, b, real_adhoc(s, n, b)])
                except Exception as e:  # noqa
                    notes.append("parse_adhoc_doc_for_typ raises %s" % type(e).__name__)
    exprs = []
    srcs = set()
    for _, p in list((ir.get("params") or {}).items()) + list((ir.get("returns") or {}).items()):
        d = p.get("default")
        if isinstance(d, str):
            srcs.update((d, d.strip("`")))
    for s in sorted(srcs):
        j, note = py_expr(s)
        if note:
            notes.append(note)
        exprs.append([s, j])
    return {"doc_text": doc_text, "doc_ir": doc_ir_json, "ed": ed, "adhoc": adhoc, "exprs": exprs}, notes
