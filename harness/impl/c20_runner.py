"""C20 — run the real `exmod` (through the CLI entry point `cdd.__main__.main`) on a materialised package tree in a
forked child process under `sys.addaudithook`, snapshot the temp tree before/after, and abstract the files on disk into
the description the Lean model consumes.

Canonical paths: the temp root is written `/R` in everything sent to the model / stored in replays.
"""
from __future__ import annotations

import ast
import hashlib
import io
import json
import os
import shutil
import sys
import tempfile
import traceback

CANON = "/R"
WRITE_FLAGS = os.O_WRONLY | os.O_RDWR | os.O_APPEND | os.O_CREAT | os.O_TRUNC
FS_EVENTS = ("os.mkdir", "os.remove", "os.rmdir", "os.rename", "os.replace", "os.symlink", "os.link", "os.truncate",
             "os.chmod", "os.chown", "os.utime", "shutil.rmtree", "shutil.move", "shutil.copyfile", "shutil.copytree",
             "shutil.copymode", "shutil.copystat", "os.mkfifo", "os.mknod", "tempfile.mkstemp", "tempfile.mkdtemp")


# ------------------------------------------------------------------------------------------------------------------
# materialise / snapshot / scan
# ------------------------------------------------------------------------------------------------------------------
def new_root() -> str:
    """A fresh temp directory outside /repo and /verif."""
    base = os.environ.get("C20_TMP", "/tmp")
    return os.path.realpath(tempfile.mkdtemp(prefix="c20_", dir=base))


def write_files(base: str, files: dict):
    for rel, content in files.items():
        p = os.path.join(base, rel)
        os.makedirs(os.path.dirname(p), exist_ok=True)
        with open(p, "w") as f:
            f.write(content)


def materialise(root: str, tree: dict):
    os.makedirs(os.path.join(root, "src"))
    os.makedirs(os.path.join(root, "out"))
    write_files(os.path.join(root, "src"), tree["files"])


def snapshot(root: str) -> dict:
    """{relative path: ("d",) | ("f", size, sha1, mtime_ns)} of everything under root (root itself excluded)."""
    res = {}
    for dp, dns, fns in os.walk(root):
        for d in dns:
            p = os.path.join(dp, d)
            st = os.lstat(p)
            res[os.path.relpath(p, root)] = ("d", st.st_mtime_ns)
        for f in fns:
            p = os.path.join(dp, f)
            st = os.lstat(p)
            with open(p, "rb") as fh:
                h = hashlib.sha1(fh.read()).hexdigest()
            res[os.path.relpath(p, root)] = ("f", st.st_size, h, st.st_mtime_ns)
    return res


def _imp(node: ast.ImportFrom):
    return {"module": node.module, "level": node.level, "names": [[a.name, a.asname] for a in node.names]}


def abstract_file(src: str):
    """The view of a Python file the model works on: top-level statements (def / import-from / __all__ / other) and
    every ImportFrom node in `ast.walk` order.  None when the file does not parse."""
    try:
        mod = ast.parse(src)
    except SyntaxError:
        return None
    body = []
    for st in mod.body:
        if hasattr(st, "name"):
            body.append({"k": "def", "name": st.name})
        elif isinstance(st, ast.ImportFrom):
            body.append({"k": "from", **_imp(st)})
        elif (isinstance(st, ast.Assign) and len(st.targets) == 1 and isinstance(st.targets[0], ast.Name) and st.targets[0].id == "__all__"
              and isinstance(st.value, (ast.List, ast.Tuple)) and all(isinstance(e, ast.Constant) and isinstance(e.value, str) for e in st.value.elts)):
            body.append({"k": "all", "names": [e.value for e in st.value.elts]})
        else:
            body.append({"k": "other"})
    walk = [_imp(n) for n in ast.walk(mod) if isinstance(n, ast.ImportFrom)]
    return {"body": body, "walk": walk}


def scan(root: str) -> dict:
    """Abstract file system for the model: directories and Python files (canonical paths), in os.walk order."""
    dirs, files = ["/", CANON], []  # the canonical root /R sits directly below /
    for dp, dns, fns in os.walk(root):
        dns.sort()
        for d in dns:
            dirs.append(CANON + "/" + os.path.relpath(os.path.join(dp, d), root))
        for f in sorted(fns):
            p = os.path.join(dp, f)
            with open(p, "r") as fh:
                src = fh.read()
            a = abstract_file(src) if f.endswith(".py") else None
            files.append({"path": CANON + "/" + os.path.relpath(p, root), **(a or {"body": [{"k": "other"}], "walk": []})})
    return {"dirs": dirs, "files": files}


def specs_and_packages(root: str, module: str):
    """What `importlib.util.find_spec` answers for the modules of the source tree (fqn → origin), and the *unfiltered*
    package list `setuptools.find_packages(<module_root_dir>)` walks (assumed: DESIGN §4 C20 ¬V)."""
    src = os.path.join(root, "src")
    specs = []
    for dp, dns, fns in os.walk(src):
        dns.sort()
        rel = os.path.relpath(dp, src)
        if rel == ".":
            for f in sorted(fns):  # top-level plain modules (none generated, kept for completeness)
                if f.endswith(".py"):
                    specs.append([f[:-3], CANON + "/src/" + f])
            continue
        if "__init__.py" not in fns:
            dns[:] = []
            continue
        fqn = rel.replace(os.sep, ".")
        specs.append([fqn, CANON + "/src/" + rel + "/__init__.py"])
        for f in sorted(fns):
            if f.endswith(".py") and f != "__init__.py":
                specs.append([fqn + "." + f[:-3], CANON + "/src/" + rel + "/" + f])
    return specs


def find_packages_unfiltered(module_root_dir_real: str):
    from setuptools import find_packages

    return find_packages(module_root_dir_real)


# ------------------------------------------------------------------------------------------------------------------
# the child: run exmod under the audit hook
# ------------------------------------------------------------------------------------------------------------------
def cli_args(cfg: dict, out: str, dry_run: bool):
    argv = ["exmod", "-m", cfg["module"], "-o", out]
    for e in cfg["emit"]:
        argv += ["--emit", e]
    for b in cfg["blacklist"]:
        argv += ["--blacklist", b]
    for w in cfg["whitelist"]:
        argv += ["--whitelist", w]
    if cfg.get("target"):
        argv += ["--target-module-name", cfg["target"]]
    if cfg.get("recursive"):
        argv.append("--recursive")
    if cfg.get("sqlsub"):
        argv.append("--emit-sqlalchemy-submodule")
    if dry_run:
        argv.append("--dry-run")
    return argv


def child_run(root: str, cfg: dict, dry_run: bool) -> dict:
    """Runs in a forked child (fresh import state for the generated package). Returns events / prints / error."""
    events = []

    def guard(p):
        """safety net: a write that would land outside the temp root is recorded and refused"""
        ap = os.path.abspath(p)
        if not (ap == root or ap.startswith(root + os.sep)):
            events.append(["blocked", ap])
            raise PermissionError("C20 harness: write outside the temp root refused: %s" % ap)

    def hook(ev, args):
        if ev == "open":
            p, mode, flags = args
            if isinstance(p, bytes):
                p = p.decode()
            if not isinstance(p, str):
                return
            wr = (isinstance(mode, str) and any(c in mode for c in "wax+")) or (mode is None and isinstance(flags, int) and flags & WRITE_FLAGS)
            if wr:
                m = mode if isinstance(mode, str) else "flags:%d" % flags
                guard(p)
                events.append(["open-a" if "a" in m else "open-w", p])
        elif ev in FS_EVENTS:
            ps = [a.decode() if isinstance(a, bytes) else str(a) for a in args[:2]]
            guard(ps[0])
            events.append([ev.replace("os.", "")] + ps[:1 if ev in ("os.mkdir", "os.remove", "os.rmdir") else 2])

    sys.dont_write_bytecode = True
    os.chdir(root)
    sys.path.insert(0, os.path.join(root, "src"))
    import cdd.compound.exmod_utils as eu
    from cdd.__main__ import main

    buf = io.StringIO()
    eu.EXMOD_OUT_STREAM = buf
    out = os.path.join(root, cfg["out_rel"])
    argv = cli_args(cfg, out, dry_run)
    err = None
    tb = None
    raised_in = None
    sys.addaudithook(hook)
    try:
        main(argv)
    except SystemExit as e:
        err = "SystemExit:%s" % (e.code,)
    except BaseException as e:  # noqa
        err = type(e).__name__
        tb = traceback.format_exc()[-1800:]
        frames = traceback.extract_tb(e.__traceback__)
        raised_in = frames[-1].filename if frames else None
    lines = buf.getvalue().split("\n")
    if lines and lines[-1] == "":
        lines.pop()
    return {"events": events, "prints": lines, "err": err, "tb": tb, "argv": argv, "raised_in": raised_in}


def canon(s: str, root: str) -> str:
    return s.replace(root, CANON)


def cleanup(root: str):
    shutil.rmtree(root, ignore_errors=True)


def run_forked(fn, args: tuple, timeout: float = 60.0):
    """Call fn(*args) in a forked child; returns its (picklable) result, {"timeout": True} or {"crashed": …}."""
    import multiprocessing as mp

    ctx = mp.get_context("fork")
    parent, child = ctx.Pipe(duplex=False)

    def target(conn):
        try:
            devnull = os.open(os.devnull, os.O_WRONLY)
            os.dup2(devnull, 2)
            os.dup2(devnull, 1)
            conn.send(fn(*args))
        except BaseException as e:  # noqa
            try:
                conn.send({"crashed": "%s: %s" % (type(e).__name__, e)})
            except Exception:  # noqa
                pass
        finally:
            os._exit(0)

    p = ctx.Process(target=target, args=(child,), daemon=True)
    p.start()
    child.close()
    res = None
    if parent.poll(timeout):
        try:
            res = parent.recv()
        except EOFError:
            res = {"crashed": "child died"}
    else:
        res = {"timeout": True}
    p.kill()
    p.join()
    parent.close()
    return res


def packages_for(root: str, module: str, specs: list) -> list:
    """`find_packages(<module_root_dir>)` without filters, for the module_root_dir the real code derives from `module`
    (dirname of the resolved file); [] when the module cannot be resolved."""
    table = dict((k, v) for k, v in specs)
    mroot, _, sub = module.rpartition(".")
    origin = table.get(mroot if mroot else module)
    if origin is None:
        return []
    real = origin.replace(CANON, root, 1)
    parent = os.path.dirname(real)
    if mroot:
        for cand in (os.path.join(parent, sub, "__init__.py"), os.path.join(parent, sub + ".py")):
            if os.path.exists(cand):
                real = cand
                break
    return find_packages_unfiltered(os.path.dirname(real))
