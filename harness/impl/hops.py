"""One conversion hop on the REAL code: IR → emit → render to text → re-read → parse → IR (used by C03, C08)."""
from __future__ import annotations

import ast
import copy
import json
from collections import OrderedDict

FORMATS = ("class", "pydantic", "function", "argparse", "docstring-rest", "docstring-google", "docstring-numpydoc",
           "json_schema", "sqlalchemy", "sqlalchemy_table", "sqlalchemy_hybrid")
CHAIN_FORMATS = ("class", "pydantic", "function", "argparse", "docstring-rest")


def _imports():
    import cdd.class_.parse  # noqa: F401  (import order)
    import cdd.argparse_function.emit
    import cdd.argparse_function.parse
    import cdd.class_.emit
    import cdd.docstring.emit
    import cdd.docstring.parse
    import cdd.function.emit
    import cdd.function.parse
    import cdd.json_schema.emit
    import cdd.json_schema.parse
    import cdd.pydantic.emit
    import cdd.pydantic.parse
    import cdd.sqlalchemy.emit
    import cdd.sqlalchemy.parse
    from cdd.shared.source_transformer import to_code

    return to_code


def clean(ir):
    """keep what a hop hands to the next one: name, doc, params, returns (the `_internal` AST bodies are not part of the interface)"""
    out = {"name": ir.get("name"), "doc": ir.get("doc") or "", "type": ir.get("type", "static"),
           "params": OrderedDict((k, dict(v)) for k, v in (ir.get("params") or {}).items()),
           "returns": None if not ir.get("returns") else OrderedDict((k, dict(v)) for k, v in ir["returns"].items())}
    return out


def hop(fmt: str, ir: dict, docstring_format: str = "rest", emit_default_doc: bool = True, parse_default_doc=None) -> dict:
    """may raise whatever the real code raises; `parse_default_doc` (docstring formats only): the parser's emit_default_doc when it differs from the emitter's"""
    import cdd

    to_code = _imports()
    ir = copy.deepcopy(clean(ir))
    name = ir.get("name") or "F"
    if fmt in ("class", "pydantic"):
        emit = cdd.class_.emit.class_ if fmt == "class" else cdd.pydantic.emit.pydantic
        node = emit(ir, emit_call=False, class_name=name, docstring_format=docstring_format, emit_default_doc=emit_default_doc)
        src = to_code(node)
        parse = cdd.class_.parse.class_ if fmt == "class" else cdd.pydantic.parse.pydantic
        return parse(ast.parse(src).body[0])
    if fmt == "function":
        node = cdd.function.emit.function(ir, function_name=name, function_type="static", docstring_format=docstring_format,
                                          emit_default_doc=emit_default_doc)
        return cdd.function.parse.function(ast.parse(to_code(node)).body[0])
    if fmt == "argparse":
        node = cdd.argparse_function.emit.argparse_function(ir, emit_default_doc=emit_default_doc, docstring_format=docstring_format)
        out = cdd.argparse_function.parse.argparse_ast(ast.parse(to_code(node)).body[0])
        out["name"] = name
        return out
    if fmt.startswith("docstring-"):
        style = fmt.split("-", 1)[1]
        s = cdd.docstring.emit.docstring(ir, docstring_format=style, emit_default_doc=emit_default_doc)
        out = cdd.docstring.parse.docstring(s, emit_default_doc=emit_default_doc if parse_default_doc is None else parse_default_doc)
        out["name"] = name
        return out
    if fmt == "json_schema":
        d = cdd.json_schema.emit.json_schema(ir)
        d = json.loads(json.dumps(d))
        return cdd.json_schema.parse.json_schema(d)
    if fmt in ("sqlalchemy", "sqlalchemy_table", "sqlalchemy_hybrid"):
        emit = getattr(cdd.sqlalchemy.emit, fmt)
        kw = {"class_name": name} if fmt != "sqlalchemy_table" else {"name": name}
        node = emit(ir, docstring_format=docstring_format, emit_default_doc=emit_default_doc, **kw)
        src = to_code(node)
        tree = ast.parse(src).body[0]
        parse = getattr(cdd.sqlalchemy.parse, fmt)
        if fmt == "sqlalchemy_table" and isinstance(tree, ast.Assign):
            pass
        return parse(tree)
    raise ValueError(fmt)
