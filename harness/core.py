"""
Shared machinery of the cdd-python verification checks (see /verif/DESIGN.md §1).

* lake build + audit of the Lean property theorems (``#print axioms`` ⊆ standard three, forbidden-word grep)
* the compiled Lean line-protocol driver (``cdd_model``) and batch helpers
* evidence / replay writers, known-findings matcher
* exit codes: 0 held (possibly KNOWN-FINDING lines), 1 violation, 2 harness problem / timeout
"""
from __future__ import annotations

import concurrent.futures as cf
import fcntl
import hashlib
import json
import os
import random
import re
import subprocess
import sys
import tempfile
import time
from pathlib import Path

VERIF = Path(__file__).resolve().parent.parent
LEAN = VERIF / "lean"
REPO = Path(os.environ.get("CDD_REPO", "/repo"))
PY = os.environ.get("CDD_PYTHON", "/venv/bin/python")
DRIVER = LEAN / ".lake" / "build" / "bin" / "cdd_model"
NCPU = min(16, os.cpu_count() or 4)
STD_AXIOMS = {"propext", "Classical.choice", "Quot.sound"}
FORBIDDEN = re.compile(
    r"\bsorry\b|\badmit\b|^\s*axiom\s|native_decide|bv_decide|implemented_by|\bunsafe\s|maxHeartbeats\s+0\b"
)
TRUSTED_BASE_COMMON = [
    "Lean 4.33.0 kernel (theorems accepted by `lake build`; thorough tier re-checks .olean files with leanchecker)",
    "axioms allowed in property theorems: propext, Classical.choice, Quot.sound (audited by #print axioms on every run); no native_decide / bv_decide / sorry / own axioms",
    "the correspondence harness (harness/*.py): generator coverage bounds what the model-vs-code tie sees",
    "CPython, json and the OS are outside the model",
]


class HarnessError(Exception):
    """A problem of the machinery itself (exit 2, never a violation)."""


# ----------------------------------------------------------------------------------------------
# Lean side
# ----------------------------------------------------------------------------------------------
def _lock():
    f = open(LEAN / ".build.lock", "w")
    fcntl.flock(f, fcntl.LOCK_EX)
    return f


def write_if_changed(path: Path, content: str) -> bool:
    """Write a generated file only when its content changes (keeps `lake build` a no-op)."""
    path.parent.mkdir(parents=True, exist_ok=True)
    if path.exists() and path.read_text() == content:
        return False
    path.write_text(content)
    return True


def lake_build(targets: list[str], timeout: int = 3000) -> tuple[bool, str]:
    """`lake build <targets>` under a file lock; returns (ok, combined log)."""
    lock = _lock()
    try:
        p = subprocess.run(
            ["lake", "build", *targets],
            cwd=LEAN,
            stdout=subprocess.PIPE,
            stderr=subprocess.STDOUT,
            text=True,
            timeout=timeout,
        )
        return p.returncode == 0, p.stdout
    except subprocess.TimeoutExpired as e:  # pragma: no cover
        raise HarnessError("lake build timed out: %s" % e)
    finally:
        lock.close()


def failing_modules(log: str) -> list[str]:
    return sorted(set(re.findall(r"^✖ \[\d+/\d+\] (?:Building|Built) (\S+)", log, re.M)) |
                  set(re.findall(r"^- (CddVerif\.\S+)", log, re.M)))


def source_audit(files: list[Path]) -> list[str]:
    """Forbidden words outside comments in the given Lean files."""
    hits = []
    for f in files:
        text = f.read_text()
        # strip block comments (non-nested is enough for our files) and line comments
        text = re.sub(r"/-.*?-/", lambda m: "\n" * m.group(0).count("\n"), text, flags=re.S)
        for i, line in enumerate(text.split("\n"), 1):
            line = line.split("--", 1)[0]
            if FORBIDDEN.search(line):
                hits.append("%s:%d: %s" % (f.relative_to(VERIF), i, line.strip()))
    return hits


def lean_deps(module: str, seen=None) -> list[Path]:
    """Transitive project-local imports of a module (files under lean/CddVerif)."""
    seen = {} if seen is None else seen
    path = LEAN / (module.replace(".", "/") + ".lean")
    if module in seen or not path.exists():
        return list(seen.values())
    seen[module] = path
    for m in re.findall(r"^import\s+(CddVerif\.\S+)", path.read_text(), re.M):
        lean_deps(m, seen)
    return list(seen.values())


LAST_AUDIT: dict = {"rc": None, "out": ""}


def print_axioms(module: str, theorems: list[str], tag: str) -> dict[str, list[str] | None]:
    """Run `#print axioms` for every theorem; None = theorem missing / module broken."""
    audit_dir = LEAN / ".audit"
    audit_dir.mkdir(exist_ok=True)
    src = "import %s\n" % module + "".join("#print axioms %s\n" % t for t in theorems)
    f = audit_dir / ("Audit_%s.lean" % tag)
    f.write_text(src)
    lock = _lock()
    try:
        p = subprocess.run(
            ["lake", "env", "lean", str(f)], cwd=LEAN, stdout=subprocess.PIPE, stderr=subprocess.STDOUT, text=True, timeout=900
        )
    finally:
        lock.close()
    out = p.stdout
    LAST_AUDIT["rc"], LAST_AUDIT["out"] = p.returncode, out
    res: dict[str, list[str] | None] = {t: None for t in theorems}
    for m in re.finditer(r"'([^']+)' depends on axioms: \[([^\]]*)\]", out, re.S):
        res[m.group(1)] = [a.strip() for a in m.group(2).replace("\n", " ").split(",") if a.strip()]
    for m in re.finditer(r"'([^']+)' does not depend on any axioms", out):
        res[m.group(1)] = []
    # names are printed fully qualified; map back
    for t in theorems:
        if res[t] is None:
            for k, v in list(res.items()):
                if k != t and (k.endswith("." + t) or t.endswith("." + k)) and v is not None:
                    res[t] = v
    return res


def leanchecker(modules: list[str]) -> tuple[bool, str]:
    lock = _lock()
    try:
        p = subprocess.run(["lake", "env", "leanchecker", *modules], cwd=LEAN, stdout=subprocess.PIPE,
                           stderr=subprocess.STDOUT, text=True, timeout=3000)
    finally:
        lock.close()
    return p.returncode == 0, p.stdout[-2000:]


def model_batch(requests: list[dict], nproc: int = NCPU, timeout: int = 1800) -> list[dict]:
    """Send requests to the compiled Lean driver (several processes), keep order."""
    if not requests:
        return []
    if not DRIVER.exists():
        raise HarnessError("Lean driver not built: %s" % DRIVER)
    nproc = max(1, min(nproc, (len(requests) + 199) // 200))
    chunks = [requests[i::nproc] for i in range(nproc)]

    def run(chunk):
        data = "".join(json.dumps(r, ensure_ascii=True) + "\n" for r in chunk)
        p = subprocess.run([str(DRIVER)], input=data, stdout=subprocess.PIPE, stderr=subprocess.PIPE, text=True, timeout=timeout)
        lines = p.stdout.split("\n")
        if lines and lines[-1] == "":
            lines.pop()
        if len(lines) != len(chunk):
            raise HarnessError("driver answered %d lines for %d requests (rc=%s, stderr=%s)" % (len(lines), len(chunk), p.returncode, p.stderr[-500:]))
        return [json.loads(x) for x in lines]

    with cf.ThreadPoolExecutor(nproc) as ex:
        outs = list(ex.map(run, chunks))
    res: list = [None] * len(requests)
    for k, out in enumerate(outs):
        res[k::nproc] = out
    return res


# ----------------------------------------------------------------------------------------------
# Known findings
# ----------------------------------------------------------------------------------------------
class KnownFindings:
    """known_findings.txt: `finding: property=Cxx id=<id> match=<json> :: text` / `fixed: property=Cxx <commit> text`."""

    def __init__(self, prop: str):
        self.items = []
        files = [VERIF / "known_findings.txt"] + sorted((VERIF / "known_findings.d").glob("*.txt"))
        for f in files:
            if not f.exists():
                continue
            for line in f.read_text().split("\n"):
                m = re.match(r"finding:\s+property=(\S+)\s+id=(\S+)\s+match=(\{.*?\})\s+::\s+(.*)$", line)
                if m and m.group(1) == prop:
                    self.items.append({"id": m.group(2), "match": json.loads(m.group(3)), "text": m.group(4), "seen": 0})

    def match(self, sig: dict):
        """A failure signature matches a finding when every key of the finding's `match` equals the signature's."""
        for it in self.items:
            if all(sig.get(k) == v for k, v in it["match"].items()):
                it["seen"] += 1
                return it
        return None


# ----------------------------------------------------------------------------------------------
# Check context: evidence, replay, verdict
# ----------------------------------------------------------------------------------------------
# strings that occur in the constants of the repository under test but not in the snapshot taken from the unchanged tree (or the other way round): empty on the
# unchanged tree; after a change to a constant table they are what a failing input most likely has to contain, so the generators sprinkle them into descriptions and
# header prose (dictionary-guided search for a concrete failing input once a constants-tie obligation is broken)
CONST_NOVEL: list[str] = []


def _strings_of(x, out):
    if isinstance(x, str):
        out.add(x)
    elif isinstance(x, dict):
        for k, v in x.items():
            _strings_of(k, out)
            _strings_of(v, out)
    elif isinstance(x, (list, tuple)):
        for v in x:
            _strings_of(v, out)
    return out


def _note_novelties(d):
    base = VERIF / "harness" / "translators" / "consts_baseline.json"
    if not base.exists():
        return
    a, b = _strings_of(json.loads(base.read_text()), set()), _strings_of(json.loads(json.dumps(d)), set())
    CONST_NOVEL[:] = sorted(x for x in (a ^ b) if 0 < len(x) <= 40)[:12]


def spice(rng, text: str, p: float = 0.25) -> str:
    """with probability p (only when the constants of the code under test differ from the snapshot) work one of the differing strings into a piece of prose"""
    if not CONST_NOVEL or rng.random() >= p:
        return text
    nov = rng.choice(CONST_NOVEL)
    return rng.choice(["%s. %s 5" % (text.rstrip("."), nov.strip()), "%s %s" % (nov.strip(), text), "%s %s the rest" % (text, nov), nov.strip() + " 5"])


# which sections of Properties/ConstsTie/S<k>.lean hold copies used by which property's models (see the header of Properties/ConstsTie.lean)
CONSTS_SECTIONS = {"C01": [0, 1, 2, 3], "C08": [0, 1, 2, 3], "C14": [0, 1, 2, 3, 5], "C11": [1, 4], "C15": [1, 4], "C02": [5], "C03": [5], "C09": [6], "C07": [6, 9], "C10": [7],
                   "C17": [8], "C04": [9], "C05": [9], "C06": [9], "C19": [9]}
CONSTS_THEOREMS = {
    0: ["gen_forms_strs", "gen_forms_scalars"], 1: ["source_tokens_structure"],
    2: ["doc_announceVariants_tie", "doc_noneStr_tie", "doc_tab_tie", "doc_simpleTypes_tie", "simpleTypes_otherKeys_pinned", "doc_noneTypes_tie", "doc_defaultsTo_tie",
        "doc_allRestTokens_tie", "doc_restTokens_tie", "doc_argToken_returnToken_tie", "doc_lineLength_pinned", "doc_tyName_tie"],
    3: ["docgn_restTokensAll_tie", "docgn_googleTokensAll_tie", "docgn_argTok_retTok_tie", "docgn_simpleDefault_tie", "docgn_evalKnown_tie"],
    4: ["docutils_restTokens_tie", "docutils_googleTokens_tie", "docutils_numpySet_tie", "docutils_tokensSet_perm_tie", "docutils_raises_pinned"],
    5: ["iface_NoneStr_tie", "iface_simpleTypes_tie", "iface_zeroOf_tie", "iface_noneTypes_tie", "iface_requiredLower_tie", "iface_fallbackTyp_pinned"],
    6: ["cst_contains2statement_tie", "cst_augassign_perm_tie", "cst_mathOperators_perm_tie", "cst_multicontains_pinned"],
    7: ["merge_simpleTypes_tie", "merge_noneTypes_tie"],
    8: ["adhoc_adhocTypeToType_tie", "adhoc_typeToName_tie", "adhoc_simpleTypes_tie", "adhoc_tuple3ToType_tie", "adhoc_tuple3ToCollection_tie", "adhoc_kwlist_tie"],
    9: ["emitiface_noneStr_tie", "emitiface_simpleTypes_tie", "emitiface_requiredTyps_tie", "sql_NoneStr_tie", "jsonschema_noneStr_tie", "doctranscst_noneStr_tie",
        "genimports_noneStr_tie", "genimports_pyKeywords_tie"],
}


class Check:
    def __init__(self, prop: str, tier: str, seed: int):
        self.prop, self.tier, self.seed = prop, tier, seed
        self.t0 = time.time()
        self.rng = random.Random(seed)
        self.kf = KnownFindings(prop)
        self.obligations: list[dict] = []  # {"name", "kind", "ok", "detail"}
        self.coverage: dict = {"samples": []}
        self.assumptions: list[str] = []
        self.violations: list[dict] = []  # unlisted property failures with concrete input
        self.broken: list[dict] = []  # proof obligations / correspondences that no longer check
        self.known_seen: dict[str, dict] = {}
        self.evaluations = 0
        self.distinct: set = set()
        self.trusted_base = list(TRUSTED_BASE_COMMON)
        self.checker_cmd = ""
        self.notes: list[str] = []

    @property
    def quick(self):
        return self.tier == "quick"

    # -- obligations ---------------------------------------------------------------------------
    def oblige(self, name: str, kind: str, ok: bool, detail: str = ""):
        self.obligations.append({"name": name, "kind": kind, "ok": bool(ok), "detail": detail[:2000]})
        if not ok:
            self.broken.append({"name": name, "kind": kind, "detail": detail[:4000]})

    def lean(self, module: str, theorems: list[str], extra_targets: list[str] | None = None, checker: bool | None = None):
        """Build the property module (+ driver), audit it, register one obligation per theorem."""
        if not getattr(self, "_consts_done", False):
            self._consts_done = True
            self.consts_tie()
        targets = [module] + (extra_targets or [])
        self.checker_cmd = "cd /verif/lean && lake build %s cdd_model && lake env lean .audit/Audit_%s.lean  # #print axioms" % (" ".join(targets), self.prop)
        # (1) the property's own modules: a failure here is a broken proof obligation
        ok, log = lake_build(targets)
        if not ok and re.search(r"exited with code (137|139|143|-9)|[Kk]illed|[Oo]ut of memory|Cannot allocate memory|resource temporarily unavailable", log):
            raise HarnessError("lake build was interrupted by the machine (killed / out of memory), not by a Lean error: %s" % log[-600:])
        # (2) the shared driver (all properties' ops): a failure here that is not caused by this property's modules is a
        #     problem of the machinery (exit 2), never a verdict about the property
        okd, logd = lake_build(["cdd_model"])
        if okd:
            # private copy: concurrent builds of other checks relink (and briefly remove) the shared binary
            global DRIVER
            import shutil

            scratch = VERIF / ".scratch"
            scratch.mkdir(exist_ok=True)
            mine = scratch / ("cdd_model_%s_%d" % (self.prop, os.getpid()))
            lock = _lock()
            try:
                shutil.copy2(LEAN / ".lake" / "build" / "bin" / "cdd_model", mine)
            finally:
                lock.close()
            DRIVER = mine
            self._driver_copy = mine
        if not okd:
            own = {str(p.relative_to(LEAN))[:-5].replace("/", ".") for p in lean_deps(module)}
            bad = set(failing_modules(logd))
            if ok and not (bad & own):
                raise HarnessError("the shared Lean driver does not build (modules of another property are broken): %s" % sorted(bad))
            self.oblige("lake build cdd_model", "build", False, logd[-3000:])
        if not ok:
            bad = failing_modules(log)
            self.oblige("lake build %s" % module, "build", False, "failing modules: %s\n%s" % (bad, log[-3000:]))
            for t in theorems:
                self.oblige(t, "theorem", False, "module does not build")
            return False
        hits = source_audit(lean_deps(module))
        self.oblige("source audit (no sorry/admit/axiom/native_decide/bv_decide/implemented_by/unsafe/maxHeartbeats 0)", "audit", not hits, "\n".join(hits))
        ax = print_axioms(module, theorems, self.prop)
        for t in theorems:
            a = ax.get(t)
            if a is None:
                # a theorem that really is missing is named in an "unknown constant/identifier" message; anything else (lean killed under
                # memory pressure, truncated output) is a problem of the run, not a verdict about the property
                short = t.split(".")[-1]
                if re.search(r"[Uu]nknown (constant|identifier)[^\n]*%s" % re.escape(short), LAST_AUDIT["out"]):
                    self.oblige(t, "theorem", False, "theorem not found by #print axioms")
                else:
                    raise HarnessError("axiom audit did not complete for %s (lean rc=%s): %s" % (t, LAST_AUDIT["rc"], LAST_AUDIT["out"][-600:]))
            else:
                extra = sorted(set(a) - STD_AXIOMS)
                self.oblige(t, "theorem", not extra, "axioms: %s" % (a,))
        if checker if checker is not None else (not self.quick):
            mods = [module]
            okc, outc = leanchecker(mods)
            self.checker_cmd += " && lake env leanchecker %s" % " ".join(mods)
            self.oblige("leanchecker %s" % " ".join(mods), "recheck", okc, outc)
        return True

    def consts_tie(self):
        """Constants tie: regenerate Gen/Consts.lean from the repository under test (values of the module-level constants the models copy) and re-check the tie
        theorems `Gen.Consts.x = <model constant>` of the sections this property's models depend on.  A constant that moved in the source is a broken obligation
        of exactly the properties whose model copies it; the check then searches for a failing input as usual."""
        secs = CONSTS_SECTIONS.get(self.prop)
        if not secs:
            return
        from harness.translators import consts

        # one table for all properties: runs against different checkouts (CDD_REPO) must not interleave between regeneration and audit
        clock = open(LEAN / ".consts.lock", "w")
        fcntl.flock(clock, fcntl.LOCK_EX)
        try:
            self._consts_tie_locked(secs, consts)
        finally:
            clock.close()

    def _consts_tie_locked(self, secs, consts):
        try:
            d, _ = consts.regen(REPO)
            _note_novelties(d)
        except Exception as e:  # noqa
            # the constants cannot even be read (a table was removed or renamed): the copies in the models are no longer tied to anything
            for k in secs:
                for t in CONSTS_THEOREMS[k]:
                    self.oblige("ConstsTie." + t, "theorem", False, "constants could not be read from the source: %s" % str(e)[-400:])
            return
        for k in secs:
            mod = "CddVerif.Properties.ConstsTie.S%d" % k
            ok, log = lake_build([mod])
            if not ok and re.search(r"exited with code (137|139|143|-9)|[Kk]illed|[Oo]ut of memory|Cannot allocate memory|resource temporarily unavailable", log):
                raise HarnessError("lake build was interrupted by the machine: %s" % log[-400:])
            names = ["ConstsTie." + t for t in CONSTS_THEOREMS[k]]
            if not ok:
                bad = set(re.findall(r"ConstsTie/S%d\.lean:(\d+):" % k, log))
                for t in names:
                    self.oblige(t, "theorem", False, "constants tie section %d does not build against the regenerated Gen/Consts.lean (error lines %s): %s" % (k, sorted(bad)[:6], log[-1200:]))
                continue
            ax = print_axioms(mod, names, self.prop + "_consts")
            for t in names:
                a = ax.get(t)
                if a is None:
                    raise HarnessError("axiom audit did not complete for %s: %s" % (t, LAST_AUDIT["out"][-400:]))
                self.oblige(t, "theorem", not (set(a) - STD_AXIOMS), "axioms: %s" % (a,))
        self.trusted_base.append("constants tie: harness/translators/consts.py reads the VALUES of the module-level constants the models copy (by importing the modules of the repository "
                                 "under test in a subprocess) into Gen/Consts.lean on every run; Properties/ConstsTie/S*.lean prove by evaluation that each model constant equals the value "
                                 "read (sections %s for this property); inline literals of the models without a named source constant are tied only where a `_pinned` theorem exists" % secs)

    # -- exploration accounting ---------------------------------------------------------------
    def count(self, key, nontrivial: bool = True):
        self.evaluations += 1
        if nontrivial:
            self.distinct.add(hashlib.blake2b(repr(key).encode("utf-8", "surrogatepass"), digest_size=8).digest())

    def sample(self, s, limit: int = 6):
        if len(self.coverage["samples"]) < limit:
            self.coverage["samples"].append(s)

    # -- failures ---------------------------------------------------------------------------------
    def failure(self, sig: dict, what: str, replay: dict):
        """A concrete property failure on the real code. Known finding → noted; otherwise a violation."""
        it = self.kf.match(sig)
        if it is not None:
            if it["id"] not in self.known_seen:
                self.known_seen[it["id"]] = {"text": it["text"], "count": 0, "first": replay}
            self.known_seen[it["id"]]["count"] += 1
            return False
        if len(self.violations) < 20:
            self.violations.append({"sig": sig, "what": what, "replay": replay})
        else:
            self.violations.append({"sig": sig, "what": what})
        return True

    def disagreement(self, name: str, case, impl, model):
        """Model and implementation differ on a case: the correspondence `name` is broken."""
        for b in self.broken:
            if b["name"] == name and b["kind"] == "correspondence":
                b["count"] = b.get("count", 1) + 1
                return
        self.broken.append({"name": name, "kind": "correspondence", "count": 1,
                            "detail": json.dumps({"case": case, "impl": impl, "model": model}, ensure_ascii=True, default=repr)[:4000]})

    # -- finishing --------------------------------------------------------------------------------
    def finish(self, rule: str, extra_cov: dict | None = None) -> int:
        wall = time.time() - self.t0
        n_ob = len(self.obligations)
        n_ok = sum(1 for o in self.obligations if o["ok"])
        cov = dict(self.coverage)
        cov.update({
            "obligations": n_ob,
            "discharged": n_ok,
            "checker_cmd": self.checker_cmd or "n/a",
            "trusted_base": self.trusted_base,
            "evaluations": self.evaluations,
            "distinct_nontrivial": len(self.distinct),
            "rule": rule,
            "obligation_list": [{"name": o["name"], "kind": o["kind"], "ok": o["ok"], "detail": o["detail"][:200]} for o in self.obligations],
            "broken": [{k: (v[:300] if isinstance(v, str) else v) for k, v in b.items()} for b in self.broken],
            "known_findings_seen": {k: {"count": v["count"], "text": v["text"]} for k, v in self.known_seen.items()},
            "notes": self.notes,
        })
        if extra_cov:
            cov.update(extra_cov)
        if not cov["samples"]:
            cov["samples"] = [o["name"] for o in self.obligations[:5]] or ["(none)"]
        rc = 0
        lines = []
        for k, v in self.known_seen.items():
            lines.append("KNOWN-FINDING: property=%s %s :: %s (seen %d×)" % (self.prop, k, v["text"], v["count"]))
        # stale findings are only reported, never fatal
        for it in self.kf.items:
            if it["seen"] == 0 and it["match"].get("_always"):
                self.notes.append("finding %s not observed in this run" % it["id"])
        replay_dir = Path(os.environ.get("VERIF_REPLAY_DIR") or (VERIF / "replays")) / self.prop
        if self.violations:
            replay_dir.mkdir(parents=True, exist_ok=True)
            v = self.violations[0]
            path = replay_dir / ("violation_%s_%d.json" % (self.tier, self.seed))
            path.write_text(json.dumps({"property": self.prop, "kind": "failing-input", "what": v["what"], "sig": v["sig"],
                                        "replay": v.get("replay"), "broken": self.broken,
                                        "more": [{"sig": x["sig"], "what": x["what"]} for x in self.violations[1:20]]},
                                       indent=1, ensure_ascii=True, default=repr))
            lines.append("VIOLATION property=%s replay=%s" % (self.prop, path))
            rc = 1
        elif self.broken:
            replay_dir.mkdir(parents=True, exist_ok=True)
            path = replay_dir / ("broken_%s_%d.json" % (self.tier, self.seed))
            path.write_text(json.dumps({"property": self.prop, "kind": "no-failing-input-found",
                                        "no_longer_checks": self.broken}, indent=1, ensure_ascii=True, default=repr))
            lines.append("VIOLATION property=%s replay=%s no-failing-input-found" % (self.prop, path))
            rc = 1
        ev = {
            "property_id": self.prop,
            "tier": self.tier,
            "seed": self.seed,
            "level": "proof",
            "coverage": cov,
            "assumptions": self.assumptions,
            "wall_s": round(wall, 2),
            "violations": len(self.violations) + (1 if (self.broken and not self.violations) else 0),
        }
        evdir = Path(os.environ.get("VERIF_EVIDENCE_DIR") or (VERIF / "evidence"))  # seeded-change runs keep the committed evidence untouched
        evdir.mkdir(parents=True, exist_ok=True)
        (evdir / ("%s.json" % self.prop)).write_text(json.dumps(ev, indent=1, ensure_ascii=True, default=repr) + "\n")
        try:
            if getattr(self, "_driver_copy", None) is not None:
                self._driver_copy.unlink()
        except OSError:
            pass
        for l in lines:
            print(l)
        if os.environ.get("VERIF_SIGS") and self.violations:  # triage aid: the distinct unlisted signatures of this run
            groups: dict = {}
            for v in self.violations:
                k = json.dumps(v["sig"], sort_keys=True)
                g = groups.setdefault(k, {"n": 0, "what": v["what"], "replay": v.get("replay")})
                g["n"] += 1
                if g["replay"] is None:
                    g["replay"] = v.get("replay")
            for k, g in sorted(groups.items(), key=lambda kv: -kv[1]["n"]):
                print("SIG %4d× %s :: %s" % (g["n"], k, g["what"][:400]))
                if os.environ.get("VERIF_SIGS") == "2" and g["replay"] is not None:
                    print("    REPLAY " + json.dumps(g["replay"], default=repr)[:1500])
        print("%s %s tier=%s seed=%d: obligations %d/%d, evaluations %d (distinct non-trivial %d), broken %d, violations %d, known findings %d, %.1fs"
              % ("OK" if rc == 0 else "FAIL", self.prop, self.tier, self.seed, n_ok, n_ob, self.evaluations, len(self.distinct),
                 len(self.broken), len(self.violations), len(self.known_seen), wall))
        return rc


# ----------------------------------------------------------------------------------------------
# Running the real code
# ----------------------------------------------------------------------------------------------
def repo_on_path():
    """Make `import cdd` resolve to REPO's working tree (it is installed in develop mode; be explicit anyway)."""
    p = str(REPO)
    if p not in sys.path:
        sys.path.insert(0, p)


def pmap(fn, items, nproc: int = NCPU, chunksize: int = 64):
    """Process-parallel map (fn must be a module-level function)."""
    if len(items) < 2 * chunksize or nproc <= 1:
        return [fn(x) for x in items]
    with cf.ProcessPoolExecutor(nproc) as ex:
        return list(ex.map(fn, items, chunksize=chunksize))


def run_watchdog(code: str, timeout: float, env: dict | None = None, cwd: str | None = None) -> tuple[str, str]:
    """Run python code in a subprocess with a timeout. Returns (status, output); status ∈ ok|raises|timeout."""
    e = dict(os.environ)
    e["PYTHONPATH"] = str(REPO) + os.pathsep + e.get("PYTHONPATH", "")
    if env:
        e.update(env)
    try:
        p = subprocess.run([PY, "-c", code], stdout=subprocess.PIPE, stderr=subprocess.PIPE, text=True, timeout=timeout, env=e, cwd=cwd)
    except subprocess.TimeoutExpired:
        return "timeout", ""
    return ("ok" if p.returncode == 0 else "raises"), (p.stdout + ("\n" + p.stderr[-1500:] if p.returncode else ""))


def exc_name(e: BaseException) -> str:
    return "raises:" + type(e).__name__


# ----------------------------------------------------------------------------------------------
# Watchdog-guarded evaluation of the real code (a hang must become a result, not a hung check)
# ----------------------------------------------------------------------------------------------
def _guard_child(fn, items, start, conn):
    try:
        # the analysed code prints diagnostics to stderr (e.g. failed type probes); keep the check's output clean
        devnull = os.open(os.devnull, os.O_WRONLY)
        os.dup2(devnull, 2)
        os.dup2(devnull, 1)  # some commands (doctrans, sync) print progress lines; results travel over `conn`
        sys.stdout = open(os.devnull, "w")
        for k in range(start, len(items)):
            try:
                r = fn(items[k])
            except BaseException as e:  # noqa
                r = {"error": exc_name(e)}
            conn.send((k, r))
        conn.send((None, None))
    except BaseException:  # noqa
        pass


_CONFIRMED_HANGS = [0]  # per process: hangs confirmed by a second run, over all guarded_map calls of this check


def guarded_map(fn, items, per_item_timeout: float = 5.0, nproc: int = NCPU, max_timeouts: int = 4):
    """Map `fn` over `items` in child processes; an item that does not finish within the timeout yields {"timeout": True}.
    After `max_timeouts` timeouts the remaining items are skipped ({"skipped": True}): a few hanging inputs are a finding,
    thousands of them must not stall the check."""
    import multiprocessing as mp
    import threading

    n_timeouts = [0]
    tlock = threading.Lock()
    if _CONFIRMED_HANGS[0] >= 2:
        max_timeouts = min(max_timeouts, 2)  # a hang is already established in this run: keep later stages short

    ctx = mp.get_context("fork")
    n = len(items)
    res = [None] * n
    if n == 0:
        return res
    nproc = max(1, min(nproc, (n + 31) // 32))
    shards = [list(range(i, n, nproc)) for i in range(nproc)]

    def run_shard(idxs):
        sub = [items[i] for i in idxs]
        start = 0
        while start < len(sub):
            if n_timeouts[0] >= max_timeouts:
                for k in range(start, len(sub)):
                    res[idxs[k]] = {"skipped": True}
                break
            parent, child = ctx.Pipe(duplex=False)
            p = ctx.Process(target=_guard_child, args=(fn, sub, start, child), daemon=True)
            p.start()
            child.close()
            done = False
            while True:
                if parent.poll(per_item_timeout):
                    try:
                        k, r = parent.recv()
                    except EOFError:
                        # child died (crash): mark current item
                        res[idxs[start]] = {"error": "raises:ChildCrashed"}
                        start += 1
                        break
                    if k is None:
                        done = True
                        break
                    res[idxs[k]] = r
                    start = k + 1
                else:
                    res[idxs[start]] = {"timeout": True}
                    with tlock:
                        n_timeouts[0] += 1
                    start += 1
                    break
            p.kill()
            p.join()
            parent.close()
            if done:
                break

    with cf.ThreadPoolExecutor(nproc) as ex:
        list(ex.map(run_shard, shards))
    # second chance: a timeout under machine load must not be reported as a hang — re-run timed-out items alone,
    # sequentially, with three times the budget; an item that still does not finish keeps {"timeout": True}.  After two
    # confirmed hangs the rest keep their verdict unexamined (a real hang is established; the check must stay fast).
    confirmed = 0
    for i, r in enumerate(res):
        if isinstance(r, dict) and r.get("timeout"):
            if confirmed >= 2 or _CONFIRMED_HANGS[0] >= 2:
                break
            parent, child = ctx.Pipe(duplex=False)
            p = ctx.Process(target=_guard_child, args=(fn, [items[i]], 0, child), daemon=True)
            p.start()
            child.close()
            finished = False
            try:
                if parent.poll(per_item_timeout * 3):
                    k, rr = parent.recv()
                    if k == 0:
                        res[i] = rr
                        finished = True
            except EOFError:
                pass
            if not finished:
                confirmed += 1
                _CONFIRMED_HANGS[0] += 1
            p.kill()
            p.join()
            parent.close()
    return res


class LineCounter:
    """sys.settrace-based counter of 'line' events for chosen (filename suffix, line) pairs; optional capture of locals."""

    def __init__(self, targets: dict, capture: dict | None = None):
        # targets: {(file_suffix, lineno): key}; capture: {(file_suffix, lineno): local variable name}
        self.targets, self.capture = targets, capture or {}
        self.files = {f for f, _ in targets}
        self.counts = {k: 0 for k in targets.values()}
        self.captured = {}

    def _local(self, frame, event, arg):
        if event == "line":
            fn = frame.f_code.co_filename
            for suf in self.files:
                if fn.endswith(suf):
                    key = self.targets.get((suf, frame.f_lineno))
                    if key is not None:
                        self.counts[key] += 1
                        cap = self.capture.get((suf, frame.f_lineno))
                        if cap is not None and key not in self.captured:
                            self.captured[key] = frame.f_locals.get(cap)
        return self._local

    def _global(self, frame, event, arg):
        fn = frame.f_code.co_filename
        for suf in self.files:
            if fn.endswith(suf):
                return self._local
        return None

    def __enter__(self):
        sys.settrace(self._global)
        return self

    def __exit__(self, *a):
        sys.settrace(None)
