"""C12 — sync makes every target equivalent to the truth, then is a no-op (DESIGN.md §4 C12).

Three ties between lean/CddVerif/Model/Sync.lean and the real code:
  c12.find     find_in_ast            (in-process, wild modules whose names collide with the search paths on purpose)
  c12.rewrite  RewriteAtQuery.visit   (in-process, same modules, class / def / AnnAssign / Assign replacements)
  c12.sync     `python -m cdd sync`   (real CLI in temp dirs, 1-3 consecutive runs; the abstract emitters of the model are
                                       instantiated with the nodes the REAL emitters produce for the model's requests)
and the property's own oracle on the files the real CLI leaves behind.
"""
from __future__ import annotations

import ast
import re
import concurrent.futures as cf
import contextlib
import copy
import io
import inspect
import json
import os
import shutil
import subprocess
import tempfile
from collections import OrderedDict
from pathlib import Path

from harness import core
from harness.gen import c12mods
from harness.impl import pyast

MODULE = "CddVerif.Properties.C12Iface"  # imports Properties.C12; the C12 theorems instantiated on the C02 interface model's emitters and parsers
IFACE_THEOREMS = ["C12Iface." + t for t in "laws_name_kind laws_roundTrip C12_class_iface C12_created_iface C12_missing_iface truth_unchanged_cls_iface truth_unchanged_fn_iface sync_idempotent_fn_truth sync_idempotent_cls_truth hfix_of_canonical stateA_truth stateA_ok stateB_truth stateB_ok function_target_not_conformed_iface emitCongr_fails_for_views".split()]
THEOREMS = [
    "C12.rewrite_frame", "C12.conform_frame", "C12.sync_frame", "C12.sync_frame_shared", "C12.syncAt_id",
    "C12.C12_partial_class", "C12.C12_partial_created", "C12.C12_partial_missing", "C12.truth_unchanged",
    "C12.conform_idempotent", "C12.sync_idempotent",
    "C12.function_target_never_rewritten", "C12.toy_laws", "C12.witness_run",
    "C12.C12_not_full_function", "C12.C12_not_full_argparse",
    "C12.dotted_append_not_idempotent", "C12.missing_function_file_raises",
]
KINDS = ["argparse_function", "class", "function"]  # iteration order of arg2parse_emit_type
FLAG = {"argparse_function": "--argparse-function", "class": "--class", "function": "--function"}
FNAME = {"argparse_function": "argp.py", "class": "cls.py", "function": "meth.py"}
CLI_TIMEOUTS = (120, 480)  # seconds per `python -m cdd sync` run (normally < 1 s); second attempt after restoring the files


# ======================================================================================================
# in-process ties: find_in_ast / RewriteAtQuery
# ======================================================================================================
def fname(case, kind):
    """the file a kind's target lives in; several kinds may share one file (`layout`)"""
    return (case.get("layout") or FNAME)[kind]


def sharing(case, kind):
    return [k for k in KINDS if fname(case, k) == fname(case, kind)]


def slots(case):
    """kind -> the first kind (processing order) that names the same file: where the model keeps that file"""
    return {k: sharing(case, k)[0] for k in KINDS}


def is_shared(case):
    return len({fname(case, k) for k in KINDS}) < 3


def quiet():
    """the docstring parser prints failed type probes to stderr; keep the check's output clean"""
    return contextlib.redirect_stderr(io.StringIO())


def _cdd():
    import cdd.class_.parse  # noqa: F401  (import order)
    import cdd.argparse_function.emit
    import cdd.argparse_function.parse
    import cdd.class_.emit
    import cdd.function.emit
    import cdd.function.parse
    import cdd.shared.ast_utils
    import cdd.shared.source_transformer

    return cdd


def impl_find(case):
    from cdd.shared.ast_utils import annotate_ancestry, find_in_ast

    src, search = case
    m = ast.parse(src)
    annotate_ancestry(m, filename="x.py")
    try:
        f = find_in_ast(list(search), m)
    except Exception as e:  # noqa
        return {"error": core.exc_name(e)}
    return {"found": found_json(f)}


def found_json(f):
    if f is None:
        return None
    if isinstance(f, ast.Module):
        return {"k": "module"}
    if isinstance(f, ast.arg):
        return {"k": "arg", "name": f.arg, "ann": pyast._u(f.annotation), "default": pyast._u(getattr(f, "default", None))}
    return {"k": "stmt", "node": pyast.stmt_to_json(f)}


def impl_rewrite(case):
    from cdd.shared.ast_utils import RewriteAtQuery, annotate_ancestry

    src, search, repl = case
    m = ast.parse(src)
    annotate_ancestry(m, filename="x.py")
    rw = RewriteAtQuery(search=list(search), replacement_node=ast.parse(repl).body[0])
    try:
        rw.visit(m)
    except Exception as e:  # noqa
        return {"error": core.exc_name(e)}
    try:
        js = pyast.module_to_json(m)
        ast.unparse(m)
    except Exception:  # noqa
        return {"error": "unrepresentable"}
    return {"module": js, "replaced": bool(rw.replaced)}


def impl_cmp(case):
    from cdd.shared.ast_utils import cmp_ast

    a, b = case
    return {"eq": bool(cmp_ast(ast.parse(a).body[0], ast.parse(b).body[0]))}


def _drop_last(lines, rng):
    """remove the last top-level line group of an indented body (keeps at least one statement)"""
    return lines[:-1] if len(lines) > 1 else lines


def cmp_cases(rng, n):
    """pairs of definitions; many differ only in that one list (class body, nested method body, parameters, defaults, bases,
    decorators, call arguments) is a strict PREFIX of the other — `cmp_ast` must compare lengths, not just zip"""
    out = []
    attrs = ["a: int = 1", "b: str = 'x'", "c: float = 0.5", "d = [1, 2]", "e: int", "print(a, b)", "f = g(1, 2)"]
    for _ in range(n):
        k = rng.randint(2, 5)
        body = rng.sample(attrs, k)
        doc = ['"""doc"""'] if rng.random() < 0.6 else []
        meth_body = rng.sample(["x = 1", "y = (1, 2)", "return x", "z = h(x, y)"], rng.randint(2, 4))
        params = rng.sample(["p", "q", "r", "s"], rng.randint(2, 4))
        ndef = rng.randint(1, len(params))
        bases = rng.sample(["object", "Base", "Mixin"], rng.randint(1, 3))
        decos = rng.sample(["@d1", "@d2"], rng.randint(0, 2))

        def render(body=body, meth_body=meth_body, params=params, ndef=ndef, bases=bases, decos=decos):
            sig = ["self"] + [pn + ("=%d" % i if i >= len(params) - ndef else "") for i, pn in enumerate(params)]
            lines = list(decos) + ["class K(%s):" % ", ".join(bases)] + ["    " + l for l in doc + list(body)]
            lines += ["    def m(%s):" % ", ".join(sig)] + ["        " + l for l in meth_body]
            return "\n".join(lines) + "\n"

        a = render()
        kind = rng.choice(["same", "body", "nested", "params", "defaults", "bases", "decos", "expr", "other"])
        if kind == "same":
            b = render()
        elif kind == "body":
            b = render(body=body[:rng.randint(1, k - 1)])
        elif kind == "nested":
            b = render(meth_body=meth_body[:-1])
        elif kind == "params":
            b = render(params=params[:-1], ndef=min(ndef, len(params) - 1))
        elif kind == "defaults":
            b = render(ndef=ndef - 1) if ndef > 1 else render(ndef=ndef + 1 if ndef < len(params) else ndef)
        elif kind == "bases":
            b = render(bases=bases[:-1] or ["object", "Extra"])
        elif kind == "decos":
            b = render(decos=decos[:-1] if decos else ["@d1"])
        elif kind == "expr":
            b = a.replace("[1, 2]", "[1, 2, 3]").replace("(1, 2)", "(1, 2, 3)").replace("g(1, 2)", "g(1)").replace("print(a, b)", "print(a)")
        else:
            b = render(body=rng.sample(attrs, k))
        pair = (a, b) if rng.random() < 0.5 else (b, a)
        out.append((kind, pair))
    return out


def paths_in(src):
    """search paths that denote something in the module (as annotate_ancestry names things), to make hits frequent"""
    out = []
    try:
        m = ast.parse(src)
    except SyntaxError:
        return out
    for parent in ast.walk(m):
        pname = [parent.name] if isinstance(getattr(parent, "name", None), str) else []
        for ch in ast.iter_child_nodes(parent):
            if isinstance(getattr(ch, "name", None), str):
                out.append(pname + [ch.name])
                if isinstance(ch, (ast.FunctionDef, ast.AsyncFunctionDef)):
                    for a in ch.args.args + ch.args.kwonlyargs:
                        out.append(pname + [ch.name, a.arg])
                        out.append([ch.name, a.arg])
            elif isinstance(ch, ast.AnnAssign) and isinstance(ch.target, ast.Name):
                out.append(pname + [ch.target.id])
    return out


def ARG_NAMES(src):
    try:
        return {a.arg for n in ast.walk(ast.parse(src)) if isinstance(n, (ast.FunctionDef, ast.AsyncFunctionDef)) for a in n.args.args + n.args.kwonlyargs}
    except SyntaxError:
        return set()


def wild_cases(rng, n):
    finds, rws = [], []
    for _ in range(n):
        src = c12mods.gen_module(rng)
        cands = paths_in(src)
        q = rng.choice(cands) if cands and rng.random() < 0.6 else c12mods.gen_search(rng)
        finds.append((src, q))
        src = c12mods.gen_module(rng)
        cands = paths_in(src)
        q = rng.choice(cands) if cands and rng.random() < 0.7 else c12mods.gen_search(rng)
        repl = c12mods.gen_repl(rng)
        argp = [c for c in cands if len(c) >= 2 and c[-1] in ARG_NAMES(src)]
        if argp and rng.random() < 0.3:
            # sync_properties-style use: replace a parameter by an (annotated) assignment of the same / another name
            q = rng.choice(argp)
            nm = q[-1] if rng.random() < 0.8 else rng.choice(c12mods.POOL)
            repl = rng.choice(["%s: int = 77\n", "%s: str\n", "%s: Optional[int] = None\n", "%s = 77\n", "%s = other = 5\n"]) % nm
        elif rng.random() < 0.5 and q:
            # name the replacement after the last path component, as sync does
            head = repl.split("(")[0].split(":")[0].split("=")[0].split()
            if head:
                repl = repl.replace(head[-1], q[-1], 1)
                try:
                    ast.parse(repl)
                except SyntaxError:
                    repl = c12mods.gen_repl(rng)
        rws.append((src, q, repl))
    return finds, rws


# ======================================================================================================
# structured stream: triples of target files
# ======================================================================================================
PARAMS = ["alpha", "beta", "lr", "epochs", "dataset_name", "n_items", "path_to", "seed", "momentum", "verbose_level", "tag", "ratio"]
DOCS = ["the alpha thing", "dataset name", "learning rate used", "a thing", "some text here", "level of verbosity", "batch count here", "Random seed",
        "keep 80% of the rows for training", "format like %s or %(name)s", "100% of it",  # per cent signs (argparse would %-format a help string; the interface must not)
        # longer than the 100-column wrap width of the emitters
        "an identifier that is forwarded unchanged to every one of the workers started by the scheduler when the run begins and once more at the very end"]
HEAD_DOCS = ["Summary line", "Train the model", "Configuration of the run", "Acquire the data"]
CLASS_NAMES = ["ConfigClass", "K", "Settings", "Config", "Run"]
METHOD_PATHS = ["C.m", "Trainer.run", "Runner.train_step", "run_it", "main_fn", "Config.run", "Run.run_it"]
ARGPARSE_NAMES = ["set_cli_args", "cli_args", "run"]
UNRELATED_TOP = [
    "import os\n",
    "from typing import Optional\n",
    "LIMIT = 10\n",
    "threshold: float = 0.5\n",
    "# a top-level comment\nTABLE = {'a': 1, 'b': [1, 2]}\n",
    "def util_one(p, q=2):\n    \"\"\"helper doc\"\"\"\n    return p + q  # inline comment\n",
    "def util_two(*args, **kwargs):\n    return args, kwargs\n",
    "async def fetcher(url):\n    return url\n",
    "class Unrelated(object):\n    \"\"\"Unrelated doc\"\"\"\n\n    zed: int = 3\n\n    def meth(self, w=1):\n        return w\n",
    "class Plain:\n    pass\n",
    "if __name__ == '__main__':\n    print('hi')\n",
    "for _i in range(2):\n    pass\n",
    "print('side effect')\n",
    "try:\n    import numpy as np\nexcept ImportError:\n    np = None\n",
]
UNRELATED_IN_CLASS = [
    "other_attr: int = 4\n",
    "SOME_CONST = 'v'\n",
    "def other_method(self, w=1):\n    \"\"\"other doc\"\"\"\n    return w\n",
    "@staticmethod\ndef stat(y):\n    return y\n",
    "# comment inside class\nflag = True\n",
]


# surrounding code that mentions a target's name as DATA (annotate_ancestry gives string constants a `_location`, too), and
# definitions whose names are prefixes / extensions of the target's name
NAME_AS_DATA = [
    "__all__ = [\"NAME\", \"other_symbol\"]\n",
    "__all__ = [\"zzz\", \"NAME\"]\n",
    "TARGET_NAME = \"NAME\"\n",
    "REGISTRY = {\"NAME\": 1, \"zzz\": 2}\n",
    "\"NAME\"\n",
    "ALL_OF = (\"NAME\", \"NAME\")\n",
    "log(\"NAME\", key=\"NAME\")\n",
]
NAME_RELATED_DEFS = [
    "class NAMEBase(object):\n    \"\"\"NAMEBase doc\"\"\"\n\n    base_attr: int = 1\n",
    "class PREFIX(object):\n    pass\n",
    "NAME_DEFAULT = 3\n",
    "PREFIX: int = 4\n",
    "async def NAME_async(url):\n    return url\n",
]


def data_mentions(rng, path):
    """0-2 snippets mentioning the target (one of its path components, or the dotted name) as data / as a related identifier"""
    out = []
    for _ in range(rng.choice([0, 1, 1, 2])):
        if rng.random() < 0.7:
            nm = rng.choice([path[-1], path[-1], path[0], ".".join(path)])
            out.append(rng.choice(NAME_AS_DATA).replace("NAME", nm))
        else:
            nm = path[-1]
            pfx = nm[:max(1, len(nm) // 2)].rstrip("_") or "p"
            if pfx == nm or not pfx.isidentifier():
                pfx = nm + "_"
            out.append(rng.choice(NAME_RELATED_DEFS).replace("NAME", nm).replace("PREFIX", pfx + "_px"))
    return out


SAME_NAMED_AFTER = [
    "NAME = dataclasses.dataclass(NAME)\n",
    "NAME: type = NAME\n",
    "NAME = Alias = NAME\n" .replace("NAME = Alias = NAME", "Alias = NAME = NAME"),
    "if FLAG:\n    class NAME(object):\n        \"\"\"redefinition\"\"\"\n\n        zzz: int = 0\n",
    "try:\n    NAME = wrap(NAME)\nexcept NameError:\n    pass\n",
    "class NAME(NAME):\n    \"\"\"later re-definition\"\"\"\n\n    extra_attr: int = 1\n",
    "def NAME():\n    return None\n",
    "async def NAME():\n    return None\n",
]


def gen_iface(rng, exclude=(), falsy=False):
    n = rng.randint(1, 4)
    names = rng.sample([p for p in PARAMS if p not in exclude], n)
    params = OrderedDict()
    for nm in names:
        typ = rng.choice(["int", "float", "str", "int", "str"] + (["bool"] if falsy else []))
        default = {"int": rng.choice([0, 1, 5, 42, 100]), "float": rng.choice([0.5, 1.0, 2.5, 0.001]), "str": rng.choice(["mnist", "foo", "a_b", "data"]),
                   "bool": rng.choice([True, False])}[typ]
        if falsy and rng.random() < 0.5:
            # falsy defaults of every scalar type (an emitter testing `not default` loses them)
            default = {"int": 0, "float": 0.0, "str": "", "bool": False}[typ]
            if rng.random() < 0.25:
                typ = "Optional[%s]" % typ
        params[nm] = {"typ": typ, "doc": rng.choice(DOCS), "default": default}
    return {"doc": rng.choice(HEAD_DOCS), "params": params}


def render_class(name, iface, rng, shape=None):
    doc = (shape or {}).get("doc", "full")
    lines = ["class %s(object):" % name]
    if doc == "one":
        lines.append('    """%s"""' % iface["doc"])  # a summary, attributes but no `:cvar`s
    elif doc == "full":
        lines += ['    """', "    %s" % iface["doc"], ""]
        for n, p in iface["params"].items():
            lines.append("    :cvar %s: %s" % (n, p["doc"]))
        lines.append('    """')
    lines.append("")
    for n, p in iface["params"].items():
        lines.append("    %s: %s = %r" % (n, p["typ"], p["default"]))
    return "\n".join(lines) + "\n"


def render_function(name, iface, rng, first=None, shape=None):
    ret = rng.choice(["    return None", "    return None", None, "    pass"])
    sh = shape or {}
    doc, ann = sh.get("doc", "full"), sh.get("ann", True)
    pn = list(iface["params"])
    if "ret" in sh:
        ret = {None: None, "pass": "    pass", "None": "    return None", "param": "    return %s" % pn[0], "tuple": "    return %s, %s" % (pn[0], pn[-1]),
               "ann-literal": "    return 5"}[sh["ret"]]
    sig = ([first] if first else []) + [("%s: %s = %r" % (n, p["typ"], p["default"])) if ann else "%s=%r" % (n, p["default"]) for n, p in iface["params"].items()]
    if sh.get("kwargs"):
        sig.append("**kwargs")
    # `partial`: the docstring documents only some parameters of the signature (the others come from the signature alone)
    documented = set(pn)
    if sh.get("partial") and len(pn) > 1:
        documented = set(pn[::2]) if sh["partial"] == "interleaved" else set(pn[:max(1, len(pn) // 2)])
    lines = ["def %s(%s)%s:" % (name, ", ".join(sig), " -> int" if sh.get("ret") == "ann-literal" else "")]
    if doc == "one":
        lines.append('    """%s"""' % iface["doc"])
    elif doc == "full":
        lines += ['    """', "    %s" % iface["doc"], ""]
        for n, p in iface["params"].items():
            if n not in documented:
                continue
            lines.append("    :param %s: %s" % (n, p["doc"]))
            if rng.random() < 0.5:
                lines.append("    :type %s: ```%s```" % (n, p["typ"]))
            lines.append("")
        if sh.get("kwargs") == "documented":
            lines += ["    :param kwargs: extra keyword arguments", "    :type kwargs: ```dict```", ""]
        lines.append('    """')
    if ret or doc == "none":
        lines.append(ret or "    pass")
    return "\n".join(lines) + "\n"


def render_argparse(name, iface, rng, shape=None):
    sh = shape or {}
    doc, desc = sh.get("doc", "full"), sh.get("desc", "before")
    lines = ["def %s(argument_parser):" % name]
    if doc == "one":
        lines.append('    """Set CLI arguments"""')
    elif doc == "full":
        lines += ['    """', "    Set CLI arguments", "", "    :param argument_parser: argument parser",
                  "    :type argument_parser: ```ArgumentParser```", "", "    :return: argument_parser", "    :rtype: ```ArgumentParser```", '    """']
    if desc == "before":
        lines.append("    argument_parser.description = %r" % iface["doc"])
    for n, p in iface["params"].items():
        base = p["typ"][9:-1] if p["typ"].startswith("Optional[") else p["typ"]
        t = "" if base == "str" else "type=%s, " % base
        lines.append("    argument_parser.add_argument('--%s', %shelp=%r, required=True, default=%r)" % (n, t, p["doc"], p["default"]))
    if desc == "after":
        lines.append("    argument_parser.description = %r" % iface["doc"])
    lines.append("    return argument_parser")
    return "\n".join(lines) + "\n"


def gen_shape(rng, kind):
    """the shapes people write a truth in (the hand-written default shape is the fully documented one)"""
    doc = rng.choice(["full", "one", "one", "none", "none"])
    if kind == "class":
        return {"doc": doc}
    if kind == "argparse_function":
        return {"doc": doc, "desc": rng.choice(["before", "after", "absent", "absent"])}
    if rng.random() < 0.85 and doc == "none":
        doc = "one"  # (a function truth without docstring aborts sync on the unchanged tree: finding; kept rare)
    ret = rng.choice([None, "pass", "None", "param", "tuple"])
    if rng.random() < 0.04:
        ret = "ann-literal"
    sh = {"doc": doc, "ann": rng.random() < 0.6, "ret": ret}
    if doc == "full":
        sh["partial"] = rng.choice([False, False, "prefix", "prefix", "prefix", "interleaved"])
        x = rng.random()
        sh["kwargs"] = "documented" if x < 0.45 else ("undocumented" if x < 0.5 else None)
        if sh["kwargs"] or sh["partial"]:
            sh["ann"] = True  # (an undocumented parameter without annotation has no stated type anywhere)
    return sh


def truth_shape(kind, text, path):
    """root-cause markers for signatures: how the truth is written (read with the stdlib only)"""
    node = written_node(text, path) if text else None
    if node is None:
        return {}
    d = ast.get_docstring(node, clean=False)
    out = {"truth_doc": "none" if d is None else ("one" if "\n" not in d.strip() else "multi")}
    body = node.body[1:] if d is not None else node.body
    if kind == "argparse_function":
        idx = [i for i, st in enumerate(body) if isinstance(st, ast.Assign) and ast.unparse(st.targets[0]).endswith(".description")]
        adds = [i for i, st in enumerate(body) if isinstance(st, ast.Expr) and isinstance(st.value, ast.Call) and getattr(st.value.func, "attr", "") == "add_argument"]
        out["truth_desc"] = "absent" if not idx else ("before" if not adds or idx[0] < adds[0] else "after")
    if kind == "function" and isinstance(node, (ast.FunctionDef, ast.AsyncFunctionDef)):
        rets = [st for st in ast.walk(node) if isinstance(st, ast.Return)]
        v = rets[-1].value if rets else None
        out["truth_ret"] = ("none" if not rets else "None" if v is None or (isinstance(v, ast.Constant) and v.value is None) else
                            "name" if isinstance(v, ast.Name) else "tuple" if isinstance(v, ast.Tuple) else "literal" if isinstance(v, ast.Constant) else "other")
        out["truth_retann"] = node.returns is not None
        if node.args.kwarg is not None:
            out["truth_kwargs"] = "documented" if d and (":param %s:" % node.args.kwarg.arg) in d else "undocumented"
        pos = [a_.arg for a_ in node.args.posonlyargs + node.args.args + node.args.kwonlyargs if a_.arg not in ("self", "cls")]
        if d and any((":param %s:" % n_) in d for n_ in pos) and not all((":param %s:" % n_) in d for n_ in pos):
            out["truth_partial_doc"] = True
    return out


def indent(src, by="    "):
    return "".join((by + l if l.strip() else l) for l in src.splitlines(True))


def surround(rng, target_src, pool, lo=0, hi=3):
    before = [rng.choice(pool) for _ in range(rng.randint(lo, hi))]
    after = [rng.choice(pool) for _ in range(rng.randint(lo, hi))]
    return before, after


def build_file(rng, kind, name, iface, state, shape=None):
    """source text of one target file (None = the file does not exist)"""
    if state == "missing":
        return None
    if state == "empty":
        return rng.choice(["", "", "\n"])
    path = [c.strip() for c in name.split(".")]
    parts = []
    if rng.random() < 0.5:
        parts.append('"""%s"""\n' % rng.choice(["module doc", "Module docstring.\n\nSecond paragraph."]))
    n_before = rng.randint(0, 3)
    n_after = rng.randint(0, 3)
    before = [rng.choice(UNRELATED_TOP) for _ in range(n_before)]
    after = [rng.choice(UNRELATED_TOP) for _ in range(n_after)]
    if rng.random() < 0.5:
        for snip in data_mentions(rng, path):
            (before if rng.random() < 0.6 else after).insert(0 if rng.random() < 0.5 else 10 ** 6, snip)
    if state == "absent":
        body = before + after or ["LIMIT = 10\n"]
        text = "\n".join(parts + body)
        return text.rstrip("\n") if rng.random() < 0.1 else text
    if kind == "class":
        tgt = render_class(path[-1], iface, rng, shape)
    elif kind == "argparse_function":
        tgt = render_argparse(path[-1], iface, rng, shape)
    else:
        first = None
        if len(path) > 1:
            first = rng.choice(["self", "self", "self", "cls", None])
        tgt = render_function(path[-1], iface, rng, first, shape)
        if first is None and len(path) > 1:
            tgt = "@staticmethod\n" + tgt
    if kind == "class" and len(path) == 1 and rng.random() < 0.3:
        # statements AFTER the target whose `_location` is the target's path, too: only the first match may be replaced
        nm = path[-1]
        after = [rng.choice(SAME_NAMED_AFTER).replace("NAME", nm)] + after
        rng.shuffle(after)
    for comp in reversed(path[:-1]):
        inner_before = [rng.choice(UNRELATED_IN_CLASS) for _ in range(rng.randint(0, 2))]
        inner_after = [rng.choice(UNRELATED_IN_CLASS) for _ in range(rng.randint(0, 2))]
        body = "\n".join(inner_before + [tgt] + inner_after)
        tgt = "class %s(object):\n" % comp + ('    """%s holder"""\n\n' % comp if rng.random() < 0.5 else "") + indent(body)
    return "\n".join(parts + before + [tgt] + after)


def build_case(rng, k):
    truth = rng.choice(KINDS)
    names = {"class": rng.choice(CLASS_NAMES), "function": rng.choice(METHOD_PATHS), "argparse_function": rng.choice(ARGPARSE_NAMES)}
    while names["argparse_function"] == names["function"].split(".")[-1]:
        # equal names make the emitters reuse the truth's own body (`_internal` is keyed by the name): a different matter
        names["argparse_function"] = rng.choice(ARGPARSE_NAMES)
    if truth != "function" and rng.random() < 0.08:
        names["function"] = " " + names["function"].replace(".", " . ")  # targets go through strip_split (the truth's name does not)
    ifaces, states, used = {}, {}, []
    for kind in KINDS:
        ifaces[kind] = gen_iface(rng, exclude=used if rng.random() < 0.8 else (), falsy=rng.random() < 0.5)
        used += list(ifaces[kind]["params"])
        states[kind] = "present" if kind == truth else rng.choice(["present", "present", "present", "present", "empty", "missing", "absent"])
    shapes = {kind: (gen_shape(rng, kind) if kind == truth and rng.random() < 0.6 else None) for kind in KINDS}
    files = {kind: build_file(rng, kind, names[kind], ifaces[kind], states[kind], shapes[kind]) for kind in KINDS}
    return {"id": k, "truth": truth, "names": names, "states": states, "files": files, "runs": rng.choice([1, 2, 2, 3])}


PARTITIONS = [
    [["class", "function"], ["argparse_function"]],
    [["class", "argparse_function"], ["function"]],
    [["function", "argparse_function"], ["class"]],
    [["class", "function", "argparse_function"]],
]
RENDER = {"class": render_class, "function": render_function, "argparse_function": render_argparse}


def build_shared_case(rng, k):
    """two or three kinds name the SAME file: truth's file shared with another kind, two non-truth kinds sharing a file, all in
    one; each file pre-existing with / without the targets, empty, or missing.  (Function targets are top-level here; method
    targets are covered by the distinct-file stream.)"""
    part = rng.choice(PARTITIONS)
    truth = rng.choice(KINDS)
    names = {"class": rng.choice(CLASS_NAMES), "function": rng.choice(["run_it", "main_fn", "do_work"]), "argparse_function": rng.choice(ARGPARSE_NAMES)}
    layout, files, states, used = {}, {}, {}, []
    for gi, group in enumerate(part):
        fn = "shared.py" if len(group) > 1 else "other_%d.py" % gi
        fstate = "has" if truth in group else rng.choice(["has", "has", "has", "empty", "missing"])
        blocks = []
        for kind in group:
            layout[kind] = fn
            iface = gen_iface(rng, exclude=used if rng.random() < 0.8 else (), falsy=rng.random() < 0.5)
            used += list(iface["params"])
            present = fstate == "has" and (kind == truth or rng.random() < 0.6)
            states[kind] = "present" if present else {"has": "absent", "empty": "empty", "missing": "missing"}[fstate]
            if present:
                blocks.append(RENDER[kind](names[kind], iface, rng, shape=gen_shape(rng, kind) if kind == truth and rng.random() < 0.5 else None))
        if fstate == "missing":
            text = None
        elif fstate == "empty":
            text = rng.choice(["", "\n"])
        else:
            rng.shuffle(blocks)
            pieces = ['"""module doc"""\n'] if rng.random() < 0.4 else []
            for b in blocks or [None]:
                pieces += [rng.choice(UNRELATED_TOP) for _ in range(rng.randint(0, 2))]
                if b:
                    pieces.append(b)
            pieces += [rng.choice(UNRELATED_TOP) for _ in range(rng.randint(0, 2))]
            text = "\n".join(pieces or ["LIMIT = 10\n"])
        for kind in group:
            files[kind] = text
    return {"id": "shared-%s" % k, "truth": truth, "names": names, "states": states, "files": files, "layout": layout, "runs": rng.choice([1, 2, 2, 3])}


def layout_and_default_cases():
    """fixed corner cases, run on every seed: shared files in every partition, and falsy defaults that must survive a WRITE"""
    rng = __import__("random").Random(12)
    P = lambda **kw: OrderedDict((n, {"typ": t_, "doc": "the %s" % n, "default": d}) for n, (t_, d) in kw.items())  # noqa: E731
    i_ab = {"doc": "The K", "params": P(a=("int", 5), b=("str", "foo"))}
    i_q = {"doc": "The q", "params": P(q=("float", 1.0))}
    i_z = {"doc": "desc", "params": P(z=("int", 3))}
    i_f = {"doc": "Falsy defaults", "params": P(count=("int", 0), rate=("float", 0.0), flag=("bool", False), label=("str", ""), maybe=("Optional[int]", 0), on=("bool", True))}
    cls_ab, cls_f = render_class("K", i_ab, rng), render_class("K", i_f, rng)
    fn_q, fn_f = render_function("run_it", i_q, rng), render_function("run_it", i_f, rng)
    ap_z, ap_f = render_argparse("set_cli_args", i_z, rng), render_argparse("set_cli_args", i_f, rng)
    names = {"class": "K", "function": "run_it", "argparse_function": "set_cli_args"}
    pre = "import os\n\nLIMIT = 10\n\n"

    def case(id_, truth, layout, texts, states, runs=2):
        return {"id": id_, "truth": truth, "names": names, "states": states, "layout": layout, "runs": runs,
                "files": {k: texts[layout[k]] for k in KINDS}}

    L = lambda c, f, a: {"class": c, "function": f, "argparse_function": a}  # noqa: E731
    return [
        # the argparse target is requested in the TRUTH's (class) file, where it does not exist yet
        case("layout-argparse-in-class-truth-file", "class", L("shared.py", "fn.py", "shared.py"), {"shared.py": pre + cls_ab, "fn.py": fn_q},
             {"class": "present", "function": "present", "argparse_function": "absent"}),
        # an old class sits in the TRUTH's (function) file
        case("layout-stale-class-in-function-truth-file", "function", L("shared.py", "shared.py", "ap.py"), {"shared.py": pre + cls_ab + "\n" + fn_q, "ap.py": ap_z},
             {"class": "present", "function": "present", "argparse_function": "present"}),
        # all three in one file, argparse is the truth, the class is stale, the function is missing from the file
        case("layout-all-in-one", "argparse_function", L("shared.py", "shared.py", "shared.py"), {"shared.py": pre + cls_ab + "\n" + ap_z},
             {"class": "present", "function": "absent", "argparse_function": "present"}, runs=3),
        # two non-truth kinds share a file that does not exist / is empty
        case("layout-two-kinds-missing-file", "function", L("shared.py", "fn.py", "shared.py"), {"shared.py": None, "fn.py": fn_q},
             {"class": "missing", "function": "present", "argparse_function": "missing"}),
        case("layout-two-kinds-empty-file", "argparse_function", L("shared.py", "shared.py", "ap.py"), {"shared.py": "", "ap.py": ap_z},
             {"class": "empty", "function": "empty", "argparse_function": "present"}),
        # falsy defaults of every scalar type must survive into a function target that gets WRITTEN (empty file / file without it)
        case("falsy-class-truth", "class", L("cls.py", "meth.py", "argp.py"), {"cls.py": cls_f, "meth.py": "", "argp.py": ""},
             {"class": "present", "function": "empty", "argparse_function": "empty"}),
        case("falsy-argparse-truth", "argparse_function", L("cls.py", "meth.py", "argp.py"), {"cls.py": "", "meth.py": pre, "argp.py": ap_f},
             {"class": "empty", "function": "absent", "argparse_function": "present"}),
        case("falsy-function-truth", "function", L("cls.py", "meth.py", "argp.py"), {"cls.py": pre, "meth.py": fn_f, "argp.py": ""},
             {"class": "absent", "function": "present", "argparse_function": "empty"}),
    ]


def truth_shape_cases():
    """fixed corner cases on every seed: truths in the shapes people write them"""
    rng = __import__("random").Random(7)
    P = lambda **kw: OrderedDict((n, {"typ": t_, "doc": "the %s" % n, "default": d}) for n, (t_, d) in kw.items())  # noqa: E731
    ifc = {"doc": "The desc", "params": P(alpha=("int", 5), beta=("str", "foo"), rate=("float", 0.5), count=("int", 0))}
    names = {"class": "K", "function": "run_it", "argparse_function": "set_cli_args"}
    stale = render_class("K", {"doc": "Old", "params": P(old_attr=("int", 1))}, rng)
    pre = "import os\n\n"

    def case(id_, truth, src, runs=2):
        files = {"class": pre + stale, "function": "", "argparse_function": ""}
        states = {"class": "present", "function": "empty", "argparse_function": "empty"}
        files[truth], states[truth] = src, "present"
        return {"id": id_, "truth": truth, "names": names, "states": states, "files": files, "runs": runs}

    return [
        # `add_argument` is the very first statement: no docstring, description later / absent
        case("shape-argparse-nodoc-add-argument-first", "argparse_function", render_argparse("set_cli_args", ifc, rng, {"doc": "none", "desc": "absent"})),
        case("shape-argparse-nodoc-description-after", "argparse_function", render_argparse("set_cli_args", ifc, rng, {"doc": "none", "desc": "after"})),
        case("shape-argparse-oneline-description-before", "argparse_function", render_argparse("set_cli_args", ifc, rng, {"doc": "one", "desc": "before"})),
        case("shape-class-nodoc", "class", render_class("K", ifc, rng, {"doc": "none"})),
        case("shape-class-summary-only", "class", render_class("K", ifc, rng, {"doc": "one"})),
        case("shape-function-oneline-no-annotations-return-param", "function", render_function("run_it", ifc, rng, None, {"doc": "one", "ann": False, "ret": "param"})),
        case("shape-function-oneline-return-tuple", "function", render_function("run_it", ifc, rng, None, {"doc": "one", "ann": True, "ret": "tuple"})),
        # `**kwargs` documented, other parameters of the signature NOT documented: order must stay a, b, c, kwargs
        case("shape-function-kwargs-documented-partial-doc", "function",
             "def run_it(alpha: int = 5, beta: str = 'foo', rate: float = 0.5, **kwargs):\n    \"\"\"\n    The desc\n\n    :param alpha: the alpha\n\n"
             "    :param kwargs: extra keyword arguments\n    :type kwargs: ```dict```\n    \"\"\"\n    pass\n"),
        case("shape-function-partial-doc", "function", render_function("run_it", ifc, rng, None, {"doc": "full", "ann": True, "ret": "pass", "partial": "interleaved"})),
        case("shape-function-partial-doc-prefix-kwargs", "function", render_function("run_it", ifc, rng, None, {"doc": "full", "ann": True, "ret": "pass", "partial": "prefix", "kwargs": "documented"})),
        case("shape-function-kwargs-documented-all-doc", "function", render_function("run_it", ifc, rng, None, {"doc": "full", "ann": True, "ret": None, "kwargs": "documented"})),
        case("shape-function-kwargs-undocumented", "function", render_function("run_it", ifc, rng, None, {"doc": "full", "ann": True, "ret": "pass", "kwargs": "undocumented"})),
        # shapes on which the unchanged tree aborts (findings C12-truth-*)
        case("shape-function-nodoc", "function", render_function("run_it", ifc, rng, None, {"doc": "none", "ann": True, "ret": "pass"}), runs=1),
        case("shape-function-return-annotation-literal", "function", render_function("run_it", ifc, rng, None, {"doc": "one", "ann": True, "ret": "ann-literal"}), runs=1),
        case("shape-argparse-oneline-no-description", "argparse_function", render_argparse("set_cli_args", ifc, rng, {"doc": "one", "desc": "absent"}), runs=1),
    ]


def emitter_class_text(name, iface):
    """a class in exactly the layout sync itself writes for an interface without parameter descriptions"""
    lines = ["class %s(object):" % name, '    """', '    %s"""' % iface["doc"], ""]
    for n, p in iface["params"].items():
        lines.append("    %s: %s = %r" % (n, p["typ"], p["default"]))
    return "\n".join(lines) + "\n"


def bare_function(name, iface, rng, first=None, body="pass"):
    """a truth with a summary line and NO per-parameter descriptions"""
    sig = ([first] if first else []) + ["%s: %s = %r" % (n, p["typ"], p["default"]) for n, p in iface["params"].items()]
    lines = ["def %s(%s):" % (name, ", ".join(sig)), '    """', "    %s" % iface["doc"], '    """']
    if body:
        lines.append("    " + body)
    return "\n".join(lines) + "\n"


def edit_iface(rng, iface):
    """the user's edit of the truth: drop the last parameter, or append one at the end (prefix / extension)"""
    params = OrderedDict(iface["params"])
    if len(params) > 1 and rng.random() < 0.5:
        params.popitem()
    else:
        nm = rng.choice([p for p in PARAMS if p not in params])
        params[nm] = {"typ": "int", "doc": "", "default": rng.choice([0, 3, 7])}
    return {"doc": iface["doc"], "params": params}


def build_history_case(rng, k):
    """truth = function without parameter descriptions; the class target is (or becomes, in run 1) sync's own output; the truth's
    parameter list is then edited at its end between runs, so the stale and the wanted class body are in a prefix relation"""
    names = {"class": rng.choice(CLASS_NAMES), "function": rng.choice(["run_it", "main_fn", "C.m", "Trainer.run"]), "argparse_function": rng.choice(ARGPARSE_NAMES)}
    path = names["function"].split(".")
    iface = gen_iface(rng)
    for p_ in iface["params"].values():
        p_["doc"] = ""
    while len(iface["params"]) < 2:
        iface = edit_iface(rng, dict(iface, params=OrderedDict(iface["params"])))
    first = rng.choice(["self", "cls"]) if len(path) > 1 else None
    body = rng.choice(["pass", "pass", None])

    def truth_text(ifc, pre, post):
        tgt = bare_function(path[-1], ifc, rng, first, body)
        for comp in reversed(path[:-1]):
            tgt = "class %s(object):\n" % comp + indent(tgt)
        return "\n".join(pre + [tgt] + post)

    # no top-level `def` before a method truth (finding C12-truth-method-not-found is exercised elsewhere)
    pool = [u for u in UNRELATED_TOP if len(path) == 1 or not u.startswith("def ")]
    pre = [rng.choice(pool) for _ in range(rng.randint(0, 2))]
    post = [rng.choice(UNRELATED_TOP) for _ in range(rng.randint(0, 2))]
    if rng.random() < 0.4:
        pre = data_mentions(rng, path) + pre
    cstate = rng.choice(["synced-prefix", "synced-prefix", "empty", "present"])
    if cstate == "synced-prefix":
        cls_text = "\n".join((data_mentions(rng, [names["class"]]) if rng.random() < 0.5 else []) +
                             [rng.choice(UNRELATED_TOP) for _ in range(rng.randint(0, 2))] + [emitter_class_text(names["class"], edit_iface(rng, iface))]
                             + [rng.choice(UNRELATED_TOP) for _ in range(rng.randint(0, 2))])
    elif cstate == "empty":
        cls_text = ""
    else:
        cls_text = build_file(rng, "class", names["class"], gen_iface(rng), "present")
    files = {"function": truth_text(iface, pre, post), "class": cls_text,
             "argparse_function": build_file(rng, "argparse_function", names["argparse_function"], gen_iface(rng), "present")}
    runs = rng.choice([2, 3, 3, 4])
    edits, cur = {}, iface
    for ri in range(1, runs):
        if ri == 1 or rng.random() < 0.6:
            cur = edit_iface(rng, cur)
            edits[str(ri)] = truth_text(cur, pre, post)
    states = {"function": "present", "argparse_function": "present", "class": "present" if cstate != "empty" else "empty"}
    return {"id": "history-%s" % k, "truth": "function", "names": names, "states": states, "files": files, "runs": runs, "edits": edits}


# ------------------------------------------------------------------------------------------------------
# the real CLI
# ------------------------------------------------------------------------------------------------------
def cli_args(case, d):
    args = ["sync", "--truth", case["truth"]]
    for kind in KINDS:
        args += [FLAG[kind], os.path.join(d, fname(case, kind)), FLAG[kind] + "-name", case["names"][kind]]
    return args


def run_real(case):
    """run the real CLI `runs` times in a fresh temp dir; snapshot every file after every run"""
    d = tempfile.mkdtemp(prefix="c12_", dir=os.environ.get("C12_TMP", tempfile.gettempdir()))
    try:
        for kind in KINDS:
            if case["files"][kind] is not None:
                Path(d, fname(case, kind)).write_text(case["files"][kind])
        env = dict(os.environ, PYTHONPATH=str(core.REPO), PYTHONHASHSEED="0")
        snaps = []
        edits = case.get("edits") or {}
        for ri in range(case["runs"]):
            if str(ri) in edits:
                # the user edits the truth between two runs
                Path(d, fname(case, case["truth"])).write_text(edits[str(ri)])
            before = {}
            for kind in KINDS:
                f = Path(d, fname(case, kind))
                before[kind] = f.read_text() if f.exists() else None
            rc = None
            for tmo in CLI_TIMEOUTS:
                try:
                    p = subprocess.run([core.PY, "-m", "cdd"] + cli_args(case, d), stdout=subprocess.PIPE, stderr=subprocess.PIPE, text=True,
                                       env=env, cwd=d, timeout=tmo)
                    rc, out, err = p.returncode, p.stdout, p.stderr
                    break
                except subprocess.TimeoutExpired:
                    # a run that was cut off may have written some files: restore the state before it and try again, longer
                    for kind in KINDS:
                        f = Path(d, fname(case, kind))
                        if before[kind] is None:
                            if f.exists():
                                f.unlink()
                        else:
                            f.write_text(before[kind])
            if rc is None:
                # never a verdict: the case is dropped (and too many of them make the check a harness error, exit 2)
                snaps.append({"timeout": True})
                return snaps
            files = {}
            for kind in KINDS:
                f = Path(d, fname(case, kind))
                files[kind] = f.read_text() if f.exists() else None
            flags = {}
            for line in out.splitlines():
                if "\t" in line:
                    w, fn = line.split("\t", 1)
                    for kind in KINDS:
                        # (a report about a shared file cannot be attributed to one kind)
                        if os.path.basename(fn) == fname(case, kind) and len(sharing(case, kind)) == 1:
                            flags[kind] = w
            exc = None
            if rc != 0:
                last = [l for l in err.strip().splitlines() if l.strip()]
                exc = "raises:" + (last[-1].split(":")[0].strip() if last else "?")
            snaps.append({"rc": rc, "before": before, "files": files, "flags": flags, "exc": exc, "stderr": err[-600:] if rc else ""})
        return snaps
    finally:
        shutil.rmtree(d, ignore_errors=True)


# ------------------------------------------------------------------------------------------------------
# canonical AST views
# ------------------------------------------------------------------------------------------------------
def normdoc(s):
    return "\n".join(l.rstrip() for l in inspect.cleandoc(s).strip().splitlines())


def norm_json(stmts):
    """docstring layout is not code: ast_parse re-indents the module docstring and black re-indents every docstring"""
    out = []
    for i, s in enumerate(stmts):
        s = dict(s)
        if i == 0 and s.get("k") == "str":
            s["s"] = normdoc(s["s"])
        if "body" in s:
            s["body"] = norm_json(s["body"])
        out.append(s)
    return out


def file_json(text):
    """None (no file) | list (normalised flat AST) | {"syntax-error": …}"""
    if text is None:
        return None
    try:
        return norm_json(pyast.module_to_json(ast.parse(text)))
    except SyntaxError as e:
        return {"syntax-error": str(e)}


# ------------------------------------------------------------------------------------------------------
# instantiating the abstract emitters with the real ones
# ------------------------------------------------------------------------------------------------------
class RealEmitter:
    """What the REAL parser/emitters produce for the model's requests, in the order `ground_truth` calls them and on the
    same (mutable, shared) IR object.  `texts`: the real file contents before this run."""

    def __init__(self, case, texts, plan):
        cdd = _cdd()
        from cdd.shared.ast_utils import find_in_ast
        from cdd.shared.source_transformer import ast_parse

        self.tab = {
            "argparse_function": (cdd.argparse_function.parse.argparse_ast, cdd.argparse_function.emit.argparse_function),
            "class": (cdd.class_.parse.class_, cdd.class_.emit.class_),
            "function": (cdd.function.parse.function, cdd.function.emit.function),
        }
        self.dead, self.tie, self.gold = True, None, None
        t = case["truth"]
        tr = plan["truth"]
        if "error" in tr or tr.get("found") is None or texts[t] is None:
            return
        tree = ast_parse(texts[t], filename="truth.py")
        node = find_in_ast(case["names"][t].split("."), tree)
        if node is None:
            return
        # the model's idea of the truth node must be the real one
        tie = found_json(node)
        if tie and tie.get("k") == "stmt":
            tie = {"k": "stmt", "node": norm_json([tie["node"]])[0]}
        opts = {"class_name": tr["name"]} if t == "class" else {"function_type": tr["ft"], "function_name": tr["name"]}
        try:
            self.gold = self.tab[t][0](node, **opts)
        except Exception as e:  # noqa
            self.tie = {"truth_parse_error": core.exc_name(e), "truth_found": tie}
            return
        self.tie = {"truth_found": tie}
        self.dead = False

    def emit(self, plan, kinds):
        from cdd.shared.source_transformer import to_code

        out = []
        for kind in kinds:
            if self.dead:
                break
            rq = plan["requests"][kind]
            if "error" in rq:
                self.dead = True  # the real run raises here, nothing is emitted afterwards
                break
            try:
                if rq["new"]:
                    if kind == "function":
                        self.dead = True  # TypeError in the real call, before any emission
                        break
                    n = self.tab[kind][1](self.gold, emit_default_doc=False, word_wrap=False)
                elif kind == "class":
                    n = self.tab[kind][1](self.gold, class_name=rq["name"], word_wrap=False)
                else:
                    n = self.tab[kind][1](self.gold, function_type=rq["ft"], function_name=rq["name"], word_wrap=False)
                js = norm_json(pyast.module_to_json(ast.parse(to_code(ast.Module(body=[n], type_ignores=[])))))[0]
            except Exception as e:  # noqa
                out.append({"key": rq["key"], "node": {"k": "other", "src": "<emitter raised %s>" % core.exc_name(e)}})
                self.dead = True
                break
            out.append({"key": rq["key"], "node": js})
        return out


# ------------------------------------------------------------------------------------------------------
# the property's own oracle, on the real files
# ------------------------------------------------------------------------------------------------------
def resolve(mod, path):
    """the named target by plain Python scoping (independent of find_in_ast): nested class / def bodies, first match"""
    body, node = mod.body, None
    for comp in path:
        node = next((s for s in body if isinstance(s, (ast.ClassDef, ast.FunctionDef, ast.AsyncFunctionDef)) and s.name == comp), None)
        if node is None:
            return None
        body = node.body
    return node


def is_python(text):
    try:
        ast.parse(text)
        return True
    except SyntaxError:
        return False


def resolve_text(text, path):
    try:
        return resolve(ast.parse(text), path) is not None
    except SyntaxError:
        return False


def truth_quirk(case):
    """the truth is a method (dotted path) whose class comes after a top-level `def`: find_in_ast pops the path component at that def"""
    t = case["truth"]
    path = [c for c in case["names"][t].split(".")]
    if t == "class" or len(path) < 2 or case["files"][t] is None:
        return False
    try:
        body = ast.parse(case["files"][t]).body
    except SyntaxError:
        return False
    for s in body:
        if isinstance(s, ast.FunctionDef):
            return True
        if isinstance(s, ast.ClassDef) and s.name == path[0]:
            return False
    return False


def fn_type(node):
    if not node.args.args:
        return "static"
    return node.args.args[0].arg if node.args.args[0].arg in ("self", "cls") else "static"


def view(ir):
    def one(p):
        d = repr(p["default"]) if "default" in p else "<none>"
        return (p.get("typ"), d, " ".join((p.get("doc") or "").split()).rstrip("."))

    params = [(n,) + one(p) for n, p in ir["params"].items()]
    ret = (ir.get("returns") or {}).get("return_type")
    return {"params": params, "returns": None if not ret else one(ret)}


def parse_target(kind, text, name):
    """(view | None, why) of the named target of a file, parsed with the kind's own cdd parser"""
    cdd = _cdd()
    from cdd.shared.source_transformer import ast_parse

    if text is None:
        return None, "file-missing"
    try:
        tree = ast_parse(text, filename="f.py")
    except SyntaxError:
        return None, "syntax-error"
    path = [c.strip() for c in name.split(".")]
    node = resolve(tree, path)
    if node is None:
        return None, "target-missing"
    try:
        if kind == "class":
            if not isinstance(node, ast.ClassDef):
                return None, "wrong-node-type"
            ir = cdd.class_.parse.class_(node, class_name=path[-1])
        else:
            if not isinstance(node, ast.FunctionDef):
                return None, "wrong-node-type"
            f = cdd.function.parse.function if kind == "function" else cdd.argparse_function.parse.argparse_ast
            ir = f(node, function_type=fn_type(node), function_name=path[-1])
    except Exception as e:  # noqa
        return None, "parser-" + core.exc_name(e)
    return view(ir), "ok"


def control_hop(kind, truth_kind, truth_text, truth_name):
    """view of parse_k(reparse(emit_k(truth IR))) with fresh IR: what a *working* sync would leave in a target of this kind
    (isolates C12 from the conversion losses that belong to C02/C03)"""
    cdd = _cdd()
    from cdd.shared.source_transformer import ast_parse, to_code

    tree = ast_parse(truth_text, filename="t.py")
    path = [c.strip() for c in truth_name.split(".")]
    node = resolve(tree, path)
    if node is None:
        return None
    try:
        if truth_kind == "class":
            ir = cdd.class_.parse.class_(node, class_name=path[-1])
        else:
            f = cdd.function.parse.function if truth_kind == "function" else cdd.argparse_function.parse.argparse_ast
            ir = f(node, function_type=fn_type(node), function_name=path[-1])
        ir = copy.deepcopy(ir)
        if kind == "class":
            n = cdd.class_.emit.class_(ir, class_name="T", word_wrap=False)
        elif kind == "function":
            n = cdd.function.emit.function(ir, function_type="static", function_name="T", word_wrap=False)
        else:
            n = cdd.argparse_function.emit.argparse_function(ir, function_type="static", function_name="T", word_wrap=False)
        text = to_code(ast.Module(body=[n], type_ignores=[]))
    except Exception:  # noqa
        return None
    v, why = parse_target(kind, text, "T")
    return v


def _lit(e):
    try:
        v = ast.literal_eval(e)
        return "%s:%r" % (type(v).__name__, v)
    except Exception:  # noqa
        return "expr:" + ast.unparse(e)


def stdlib_defaults(kind, node):
    """parameter -> typed default, read with the stdlib `ast` only (no cdd parser): class attributes, signature defaults,
    `add_argument(..., default=…)` keywords"""
    out = OrderedDict()
    if node is None:
        return out
    if kind == "class":
        for st in node.body:
            if isinstance(st, ast.AnnAssign) and isinstance(st.target, ast.Name) and st.value is not None:
                out[st.target.id] = _lit(st.value)
    elif kind == "function":
        a = node.args
        pos = a.posonlyargs + a.args
        for arg, d in zip(pos[len(pos) - len(a.defaults):], a.defaults):
            out[arg.arg] = _lit(d)
        for arg, d in zip(a.kwonlyargs, a.kw_defaults):
            if d is not None:
                out[arg.arg] = _lit(d)
    else:
        for st in ast.walk(node):
            if isinstance(st, ast.Call) and isinstance(st.func, ast.Attribute) and st.func.attr == "add_argument" and st.args \
                    and isinstance(st.args[0], ast.Constant) and isinstance(st.args[0].value, str):
                for kw in st.keywords:
                    if kw.arg == "default":
                        out[st.args[0].value.lstrip("-")] = _lit(kw.value)
    return out


def stdlib_iface(kind, node):
    """An interface read with the stdlib `ast` only — names in order, type, typed default — independent of cdd's parsers:
    class attributes, the signature (without self/cls), the `add_argument` calls in statement order."""
    out = []
    if node is None:
        return out

    def ent(name, ann, dflt):
        d = None if dflt is None else _lit(dflt)
        t = None if ann is None else ast.unparse(ann)
        # (no annotation / no `type=`: the docstring may state the type, which the stdlib reading does not see — no type then)
        out.append((name, t, d))

    if kind == "class":
        for st in node.body:
            if isinstance(st, ast.AnnAssign) and isinstance(st.target, ast.Name):
                ent(st.target.id, st.annotation, st.value)
            elif isinstance(st, ast.Assign) and len(st.targets) == 1 and isinstance(st.targets[0], ast.Name):
                ent(st.targets[0].id, None, st.value)
    elif kind == "function":
        a = node.args
        pos = a.posonlyargs + a.args
        dflts = [None] * (len(pos) - len(a.defaults)) + list(a.defaults)
        for i, (arg, d) in enumerate(zip(pos, dflts)):
            if i == 0 and arg.arg in ("self", "cls"):
                continue
            ent(arg.arg, arg.annotation, d)
        for arg, d in zip(a.kwonlyargs, a.kw_defaults):
            ent(arg.arg, arg.annotation, d)
        if a.kwarg is not None:
            ent(a.kwarg.arg, None, None)  # `**kwargs` is a parameter of the interface, the last one
    else:
        for st in node.body:
            call = st.value if isinstance(st, ast.Expr) else None
            if isinstance(call, ast.Call) and isinstance(call.func, ast.Attribute) and call.func.attr == "add_argument" and call.args \
                    and isinstance(call.args[0], ast.Constant) and isinstance(call.args[0].value, str):
                kw = {k.arg: k.value for k in call.keywords}
                ent(call.args[0].value.lstrip("-"), kw.get("type"), kw.get("default"))
    return out


def doc_first_order(kind, text, path, names):
    """the order `merge_params` gives a function truth: the parameters its docstring documents (docstring order) first, then the
    others in signature order, a documented `**kwargs` last"""
    node = written_node(text, path) if text else None
    if kind != "function" or not isinstance(node, (ast.FunctionDef, ast.AsyncFunctionDef)):
        return None
    d = ast.get_docstring(node, clean=False) or ""
    import re

    documented = [m for m in re.findall(r":param\s+(\w+):", d) if m in names]
    kw = node.args.kwarg.arg if node.args.kwarg is not None else None
    head = [n for n in documented if n != kw]
    return head + [n for n in names if n not in documented] + ([kw] if kw in documented else [])


def stdlib_docs(kind, node):
    """Parameter descriptions read with the stdlib only: `:cvar n:` / `:param n:` fields of the docstring (class / function), `help=` of add_argument (argparse);
    normalised the way the property compares descriptions (whitespace collapsed, a default announcement and a terminal full stop dropped)."""
    out = {}
    if node is None:
        return out

    def norm(txt):
        txt = " ".join(txt.split())
        m = re.search(r"[.,;]?\s*\(?\b[Dd]efault", txt)
        if m:
            txt = txt[: m.start()]
        return txt.rstrip(". ").strip()

    if kind in ("class", "function"):
        ds = ast.get_docstring(node, clean=True) or ""
        cur = None
        for line in ds.split("\n"):
            m = re.match(r"\s*:(?:cvar|param|ivar|var)\s+(\w+):\s*(.*)$", line)
            if m:
                cur = m.group(1)
                out[cur] = m.group(2)
            elif re.match(r"\s*:(type|rtype|return|returns|raises)\b", line) or not line.strip():
                cur = None
            elif cur is not None:
                out[cur] += " " + line.strip()
    else:
        for st in node.body:
            call = st.value if isinstance(st, ast.Expr) else None
            if isinstance(call, ast.Call) and isinstance(call.func, ast.Attribute) and call.func.attr == "add_argument" and call.args \
                    and isinstance(call.args[0], ast.Constant) and isinstance(call.args[0].value, str):
                kw = {k.arg: k.value for k in call.keywords}
                h = kw.get("help")
                if isinstance(h, ast.Constant) and isinstance(h.value, str):
                    out[call.args[0].value.lstrip("-")] = h.value
    return {k: norm(v) for k, v in out.items() if norm(v)}


def written_node(text, path):
    """the definition sync wrote for a target: the named target, or (method targets) the stray top-level `def` it appended"""
    try:
        mod = ast.parse(text)
    except (SyntaxError, TypeError):
        return None
    node = resolve(mod, path)
    if node is None and len(path) > 1:
        node = next((x for x in reversed(mod.body) if isinstance(x, ast.FunctionDef) and x.name == path[-1]), None)
    return node


def strip_target(mod, path):
    """module dump with the named target removed and docstrings normalised"""
    mod = copy.deepcopy(mod)
    node = resolve(mod, path)
    if node is not None:
        for parent in ast.walk(mod):
            b = getattr(parent, "body", None)
            if isinstance(b, list) and any(x is node for x in b):
                b[:] = [x for x in b if x is not node]
                break
    for n in ast.walk(mod):
        b = getattr(n, "body", None)
        if isinstance(b, list) and b and isinstance(b[0], ast.Expr) and isinstance(b[0].value, ast.Constant) and isinstance(b[0].value.value, str) \
                and isinstance(n, (ast.Module, ast.ClassDef, ast.FunctionDef, ast.AsyncFunctionDef)):
            b[0].value.value = normdoc(b[0].value.value)
    return ast.dump(mod)


def classify_outcome(before, after, path):
    """what run 1 did to a file, from the outside"""
    if before is None:
        return "not-created" if after is None else "created"
    if after == before:
        return "unchanged"
    if before and not before.endswith("\n") and after.startswith(before) and len(after) > len(before):
        return "glued-append"  # mode "a" wrote right after the last character of the last line
    try:
        mb, ma = ast.parse(before), ast.parse(after)
    except SyntaxError:
        return "invalid-python"
    if len(ma.body) == len(mb.body) + 1 and ast.dump(ast.Module(body=ma.body[:-1], type_ignores=[])) == ast.dump(mb):
        last = ma.body[-1]
        if len(path) > 1 and isinstance(last, ast.FunctionDef) and last.name == path[-1]:
            return "method-appended-at-top-level"
        return "appended"
    return "rewritten"


def ndump(node):
    node = copy.deepcopy(node)
    for n in ast.walk(node):
        b = getattr(n, "body", None)
        if isinstance(b, list) and b and isinstance(b[0], ast.Expr) and isinstance(b[0].value, ast.Constant) and isinstance(b[0].value.value, str):
            b[0].value.value = normdoc(b[0].value.value)
    return ast.dump(node)


def classify_target(before, after, path):
    """what run 1 did to ONE target of a file that several kinds share (the file-level view cannot tell the kinds apart)"""
    if before is None:
        return "not-created" if after is None else "created"
    if after == before:
        return "unchanged"
    if before and not before.endswith("\n") and after.startswith(before) and len(after) > len(before):
        return "glued-append"
    try:
        tb, ta = resolve(ast.parse(before), path), resolve(ast.parse(after), path)
    except SyntaxError:
        return "invalid-python"
    if tb is not None and ta is not None:
        return "unchanged" if ndump(tb) == ndump(ta) else "rewritten"
    if tb is None and ta is not None:
        return "appended"
    return "not-appended" if tb is None else "removed"


def segment(text, path):
    """the named target as code (normalised dump; None if absent): in a shared file a kind answers for its target's code, the
    bytes of the file as a whole are answered for once (see the second-run clause)"""
    try:
        node = resolve(ast.parse(text), path)
    except (SyntaxError, TypeError):
        return None
    return None if node is None else ndump(node)


def strip_targets(mod, paths):
    mod = copy.deepcopy(mod)
    for path in paths:
        node = resolve(mod, path)
        if node is not None:
            for parent in ast.walk(mod):
                b = getattr(parent, "body", None)
                if isinstance(b, list) and any(x is node for x in b):
                    b[:] = [x for x in b if x is not node]
                    break
    return ndump(mod)


def const_collision(text, path):
    """Does a string constant of the module get the target's `_location` under annotate_ancestry's rule *as it is in the pinned
    tree* (`parent_location + [value]`, `parent_location` = location of the named node annotated last, in ast.walk order)?  Own
    re-implementation on purpose: the signature must not move when the code under test changes."""
    if not text:
        return False
    try:
        mod = ast.parse(text)
    except SyntaxError:
        return False
    parent_location = []
    for node in ast.walk(mod):
        name = [node.name] if hasattr(node, "name") else []
        for ch in ast.iter_child_nodes(node):
            if hasattr(ch, "name") and not isinstance(ch, ast.alias):
                parent_location = name + [ch.name]
            elif isinstance(ch, ast.Constant):
                if parent_location + [ch.value] == path:
                    return True
    return False


def collisions(case, texts, effective=False):
    """kinds whose file holds a string constant at the target's `_location`; effective: the target is there, too, so a rewrite runs"""
    out = []
    for k in KINDS:
        path = [c.strip() for c in case["names"][k].split(".")]
        if const_collision(texts[k], path) and (not effective or resolve_text(texts[k], path)):
            out.append(k)
    return out


def state_of(text, path):
    if text is None:
        return "missing"
    if not text.strip():
        return "empty"
    return "present" if resolve_text(text, path) else "absent"


def oracle(chk, case, snaps):
    """C12 on the real files, phase by phase: a phase starts at run 1 and at every run before which the truth was edited;
    its first run must establish the property, its further runs must leave every file byte-identical."""
    starts = [0] + sorted(int(k) for k in (case.get("edits") or {}) if 0 < int(k) < len(snaps))
    fails = []
    for n, j in enumerate(starts):
        end = starts[n + 1] if n + 1 < len(starts) else len(snaps)
        before = snaps[j]["before"]
        states = case["states"] if j == 0 else {k: state_of(before[k], [c.strip() for c in case["names"][k].split(".")]) for k in KINDS}
        got = oracle_phase(chk, case, before, states, snaps[j:end])
        if j:
            got = [(dict(sg, after_edit=True), "after editing the truth (run %d): %s" % (j + 1, w)) for sg, w in got]
        fails += got
        if any(s_["rc"] != 0 for s_ in snaps[j:end]):
            break
    return fails


def oracle_phase(chk, case, before, states, snaps):
    fails = []
    t = case["truth"]
    first = snaps[0]
    truth_view, why = parse_target(t, before[t], case["names"][t])
    base = {"truth": t}
    case = dict(case, files=before, states=states)
    tpath = [c.strip() for c in case["names"][t].split(".")]
    tshape = truth_shape(t, before[t], tpath)
    # the truth's interface read with the stdlib only: a defect of the truth's cdd parser must not cancel out on both sides
    t_iface = stdlib_iface(t, written_node(before[t], tpath)) if before[t] else []
    t_docs = stdlib_docs(t, written_node(before[t], tpath)) if before[t] else {}
    _tn = written_node(before[t], tpath) if before[t] else None
    t_kwarg = _tn.args.kwarg.arg if isinstance(_tn, (ast.FunctionDef, ast.AsyncFunctionDef)) and _tn.args.kwarg is not None else None

    def fail(sig, what):
        s = dict(base)
        s.update(sig)
        fails.append((s, what))

    if first["rc"] != 0:
        # which file was being processed? the first one (in order) that a working run would have touched but is untouched
        missing_fn = before["function"] is None and sharing(case, "function")[0] == "function"
        coll = collisions(case, before, effective=True)
        fail({"clause": "crash", "exc": first["exc"], "function_file_missing": missing_fn, "truth_method_after_toplevel_def": truth_quirk(case),
              **tshape,
              "const_collision": coll[0] if coll else False,
              "states": "/".join(case["states"][k] for k in KINDS) if not (missing_fn or truth_quirk(case) or coll) else "*"},
             "sync exits %s: %s" % (first["rc"], first["stderr"].strip().splitlines()[-1] if first["stderr"].strip() else ""))
    invalid = any(first["files"][k] is not None and not is_python(first["files"][k]) for k in KINDS)
    glued = [k for k in KINDS if classify_outcome(before[k], first["files"][k], []) == "glued-append"]
    for kind in KINDS:
        name = case["names"][kind]
        path = [c.strip() for c in name.split(".")]
        after = first["files"][kind]
        mates = sharing(case, kind)
        outcome = classify_outcome(before[kind], after, path) if len(mates) == 1 else classify_target(before[kind], after, path)
        sig0 = {"target_kind": kind, "initial": case["states"][kind], "outcome": outcome, "dotted": len(path) > 1}
        if len(mates) > 1:
            sig0["file_shared_with"] = "+".join(k for k in mates if k != kind)
            sig0["in_truth_file"] = t in mates
        if outcome == "created":
            sig0["created_under"] = "target-name" if resolve_text(after, path) else "other-name"
        if before[kind] and not before[kind].endswith("\n"):
            sig0["no_trailing_newline"] = True
        if const_collision(before[kind], path):
            sig0["const_collision"] = True
        if outcome == "glued-append":
            fail(dict(sig0, clause="valid-python" if not is_python(after) else "frame"),
                 "%s had no trailing newline; the emission was appended onto its last line" % fname(case, kind))
            continue
        # (a) valid Python
        if after is not None:
            try:
                ast.parse(after)
            except SyntaxError as e:
                fail(dict(sig0, clause="valid-python"), "%s is not valid Python after sync: %s" % (fname(case, kind), e))
                continue
        if first["rc"] != 0 or invalid or glued:
            continue  # the crash / the broken file is already reported; the other clauses are about completed runs on valid files
        # (b) interface of the named target
        if truth_view is not None:
            v, why = parse_target(kind, after, name)
            exp = control_hop(kind, t, before[t], case["names"][t])
            comparable = exp is not None and exp["params"] == truth_view["params"]
            if v is None:
                fail(dict(sig0, clause="interface", diff=why), "%s target %s: %s after sync" % (kind, name, why))
            elif comparable and v["params"] != truth_view["params"]:
                fail(dict(sig0, clause="interface", diff="params-differ"),
                     "%s target %s holds %s, truth (%s) holds %s" % (kind, name, [p[0] for p in v["params"]], t, [p[0] for p in truth_view["params"]]))
            elif comparable and exp["returns"] == truth_view["returns"] and v["returns"] != truth_view["returns"]:
                fail(dict(sig0, clause="interface", diff="returns-differ"), "%s target %s return entry %s, truth %s" % (kind, name, v["returns"], truth_view["returns"]))
            elif not comparable:
                chk.coverage["outside_common_domain"] = chk.coverage.get("outside_common_domain", 0) + 1
        # (b') a WRITTEN target against the truth's interface as the stdlib reads both (names in order, types, typed defaults) — not
        #      through cdd's own parsers and not relative to a control conversion: a parser that drops a parameter of the truth, or
        #      an emitter that drops `= 0`, must not vanish in the comparison.  (`return_type` is the class form of a return entry.)
        if outcome in ("created", "appended", "rewritten", "method-appended-at-top-level") and t_iface:
            wi = [e for e in stdlib_iface(kind, written_node(after, path)) if not (kind == "class" and e[0] == "return_type")]
            wn, tn = [e[0] for e in wi], [e[0] for e in t_iface]
            if wn != tn:
                # root-cause markers, so that the two deviations the unchanged tree has stay apart from anything else
                diffs = []
                kw = t_kwarg if tshape.get("truth_kwargs") == "undocumented" else None
                if kw and kw not in wn:
                    diffs.append("kwargs-dropped")  # an undocumented `**kwargs` never reaches the IR
                    tn = [n_ for n_ in tn if n_ != kw]
                if wn != tn:
                    if sorted(wn) != sorted(tn):
                        diffs.append("set-differs")
                    elif wn == doc_first_order(t, before[t], tpath, tn):
                        diffs.append("order:documented-first")  # merge_params: documented parameters first, then the signature's
                    else:
                        diffs.append("order:other")
                for df in diffs:
                    fail(dict(sig0, clause="stdlib-interface", field="names", names_diff=df, **tshape),
                         "%s target %s was written with parameters %s, the truth (%s) declares %s" % (kind, name, wn, t, [e[0] for e in t_iface]))
            else:
                for (pn, tt, tv), (_, wt, wv) in zip(t_iface, wi):
                    if tv is not None and wv != tv:
                        fail(dict(sig0, clause="defaults", default_from=tv.split(":")[0], default_to=(wv or "missing").split(":")[0]),
                             "%s target %s was written with %s = %s, the truth (%s) has %s" % (kind, name, pn, wv or "missing", t, tv))
                        break
                    if wt is None:
                        # the written side states no type: what its literal default says (argparse omits `type=` for str on purpose)
                        wt = wv.split(":")[0] if wv and wv.split(":")[0] in ("int", "float", "str", "bool") else ("str" if kind == "argparse_function" else None)
                    if "argparse_function" in (kind, t):
                        # `add_argument(type=…)` cannot say Optional: compare the base types
                        tt, wt = (x[9:-1] if x and x.startswith("Optional[") and x.endswith("]") else x for x in (tt, wt))
                    if tt is not None and wt != tt:
                        fail(dict(sig0, clause="stdlib-interface", field="type", type_from=tt, type_to=wt or "missing", **tshape),
                             "%s target %s was written with %s: %s, the truth (%s) declares %s" % (kind, name, pn, wt, t, tt))
                        break
        # (b'') descriptions of a WRITTEN target against the truth's, both read with the stdlib (the fields / help strings themselves)
        if outcome in ("created", "appended", "rewritten", "method-appended-at-top-level") and t_docs:
            w_docs = stdlib_docs(kind, written_node(after, path))
            for pn, td in t_docs.items():
                wd = w_docs.get(pn)
                if wd is not None and wd != td:
                    fail(dict(sig0, clause="description", pct="%" in td, long=len(td) > 90, gained=(wd[len(td):].strip()[:20] if wd.startswith(td) else None)), "%s target %s was written with the description %r for %s, the truth (%s) says %r" % (kind, name, wd, pn, t, td))
                    break
        # (c) frame: everything but the named target(s) of this file is the same code
        if before[kind] is not None and after is not None:
            try:
                if len(mates) == 1:
                    a, b = strip_target(ast.parse(before[kind]), path), strip_target(ast.parse(after), path)
                else:
                    ps = [[c.strip() for c in case["names"][k].split(".")] for k in mates]
                    a, b = strip_targets(ast.parse(before[kind]), ps), strip_targets(ast.parse(after), ps)
            except SyntaxError:
                a = b = None
            if a != b:
                fail(dict(sig0, clause="frame"), "%s: code outside the target %s changed" % (fname(case, kind), name))
        # (d) second (and third) run byte-identical
        for i in range(1, len(snaps)):
            if snaps[i]["rc"] != 0:
                break  # reported once per case, below
            if len(mates) > 1:
                # a shared file: this kind answers for its own target's text; the rest of the file (layout included) is
                # answered for by the class kind if there is one (only class targets make sync re-emit a whole file), else by
                # the first kind of the file
                prev, cur = snaps[i - 1]["files"][kind], snaps[i]["files"][kind]
                owner = "class" if "class" in mates else mates[0]
                ps = [[c.strip() for c in case["names"][k].split(".")] for k in mates]
                if segment(prev, path) != segment(cur, path):
                    fail(dict(sig0, clause="second-run", run=i + 1), "target %s in %s differs between run %d and run %d" % (name, fname(case, kind), i, i + 1))
                    break
                if kind == owner and prev != cur and all(segment(prev, p_) == segment(cur, p_) for p_ in ps):
                    raw = any(classify_target(before[k], first["files"][k], [c.strip() for c in case["names"][k].split(".")]) in ("appended", "created")
                              for k in mates)
                    same_code = is_python(prev) and is_python(cur) and ndump(ast.parse(prev)) == ndump(ast.parse(cur))
                    fail(dict(sig0, clause="second-run", run=i + 1, layout_only=same_code, raw_write_in_file=raw),
                         "%s differs between run %d and run %d (outside the targets%s)" % (fname(case, kind), i, i + 1, ", layout only" if same_code else ""))
                    break
                continue
            if snaps[i]["files"][kind] != snaps[i - 1]["files"][kind]:
                fail(dict(sig0, clause="second-run", run=i + 1), "%s differs between run %d and run %d" % (fname(case, kind), i, i + 1))
                break
    if first["rc"] == 0 and not invalid and not glued:
        for i in range(1, len(snaps)):
            if snaps[i]["rc"] != 0:
                coll = collisions(case, before, effective=True) or collisions(case, snaps[i]["before"], effective=True)
                fail({"clause": "crash", "exc": snaps[i]["exc"], "run": i + 1, "const_collision": coll[0] if coll else False, **tshape,
                      "states": "/".join(states[k] for k in KINDS) if not coll else "*"},
                     "run %d exits %s: %s" % (i + 1, snaps[i]["rc"], snaps[i]["stderr"].strip().splitlines()[-1] if snaps[i]["stderr"].strip() else ""))
                break
    return fails


# ======================================================================================================
def check_sync_cases(chk, cases, label):
    """runs the real CLI, the model, the tie and the oracle over `cases`; returns #disagreements"""
    with cf.ThreadPoolExecutor(core.NCPU) as ex:
        real = list(ex.map(run_real, cases))
    slow = [i for i, sn in enumerate(real) if any(x.get("timeout") for x in sn)]
    if slow:
        chk.coverage["cli_timeouts_dropped"] = chk.coverage.get("cli_timeouts_dropped", 0) + len(slow)
        chk.notes.append("%d case(s) dropped: `python -m cdd sync` did not finish within %s s twice (machine load); not evaluated" % (len(slow), CLI_TIMEOUTS))
        if len(slow) > max(3, len(cases) // 50):
            raise core.HarnessError("%d of %d CLI cases timed out (%s s): the machine is overloaded, no verdict" % (len(slow), len(cases), CLI_TIMEOUTS))
        keep = [i for i in range(len(cases)) if i not in set(slow)]
        cases[:] = [cases[i] for i in keep]
        real = [real[i] for i in keep]
    n_dis = 0
    state = [{k: file_json(c["files"][k]) for k in KINDS} for c in cases]
    alive = [True] * len(cases)
    maxruns = max(c["runs"] for c in cases) if cases else 0
    flagstats = chk.coverage.setdefault("flags", {})
    for run in range(maxruns):
        idx = [i for i, c in enumerate(cases) if alive[i] and c["runs"] > run]
        if not idx:
            break
        for i in idx:
            ed = (cases[i].get("edits") or {}).get(str(run))
            if ed is not None:
                state[i] = dict(state[i], **{cases[i]["truth"]: file_json(ed)})
        def plan_req(i, em):
            return {"op": "c12.plan", "files": state[i], "names": cases[i]["names"], "truth": cases[i]["truth"], "slots": slots(cases[i]), "emissions": em}

        plans = core.model_batch([plan_req(i, []) for i in idx])
        emitters, ems, plan0 = {}, {}, {}
        for i, plan in zip(idx, plans):
            plan0[i] = plan
            try:
                with quiet():
                    emitters[i] = RealEmitter(cases[i], real[i][run]["before"], plan)
                    # with distinct files every request is known up front; with a shared file the request of a later kind
                    # depends on what the earlier kind made of the file, so the plan is refined kind by kind
                    ems[i] = emitters[i].emit(plan, KINDS[:1] if is_shared(cases[i]) else KINDS)
            except Exception as e:  # noqa
                emitters[i], ems[i] = None, []
        sh = [i for i in idx if is_shared(cases[i]) and emitters[i] is not None]
        for j in (1, 2):
            if not sh:
                break
            for i, plan in zip(sh, core.model_batch([plan_req(i, ems[i]) for i in sh])):
                try:
                    with quiet():
                        ems[i] += emitters[i].emit(plan, KINDS[j:j + 1])
                except Exception:  # noqa
                    emitters[i].dead = True
        reqs, ties = [], []
        for i in idx:
            tie = emitters[i].tie if emitters[i] is not None else {"harness_emission_error": True}
            ties.append((plan0[i], tie))
            reqs.append({"op": "c12.sync", "files": state[i], "names": cases[i]["names"], "truth": cases[i]["truth"], "slots": slots(cases[i]),
                         "emissions": ems[i]})
        outs = core.model_batch(reqs)
        for i, (plan, tie), out in zip(idx, ties, outs):
            c, snap = cases[i], real[i][run]
            realj = {k: file_json(snap["files"][k]) for k in KINDS}
            bad = None
            collide = []
            if "error" in out:
                bad = "driver: %s" % out["error"]
            else:
                merr = out["err"]["error"] if out["err"] else None
                if merr == "out-of-model":
                    alive[i] = False
                    chk.coverage["sync_out_of_model"] = chk.coverage.get("sync_out_of_model", 0) + 1
                    continue
                texts0 = snap["before"]
                collide = collisions(c, texts0)
                if any(str(e_["node"].get("src", "")).startswith("<emitter raised") for e_ in ems[i]):
                    # the black-box emitter itself raised on this interface (not modelled): the real run must abort, too
                    alive[i] = False
                    chk.coverage["sync_emitter_raised"] = chk.coverage.get("sync_emitter_raised", 0) + 1
                    if snap["rc"] == 0:
                        n_dis += 1
                        chk.disagreement("C12 correspondence: Sync.sync vs `python -m cdd sync` (%s)" % label,
                                         {"case": {k: c.get(k) for k in ("truth", "names", "states", "files", "runs", "edits", "layout")}, "run": run + 1,
                                          "why": "a real emitter raised in the harness, the real run did not abort"}, {"rc": snap["rc"]}, {})
                    continue
                if any(isinstance(v, dict) for v in realj.values()) or \
                        any(classify_outcome(texts0[k], snap["files"][k], []) == "glued-append" for k in KINDS):
                    # a real file is not valid Python / text was glued onto a last line without newline: a text-level effect of
                    # mode "a" that the AST-level model does not cover; the oracle reports it
                    alive[i] = False
                    chk.coverage["sync_text_level_append"] = chk.coverage.get("sync_text_level_append", 0) + 1
                    continue
                if tie and "truth_found" in tie and plan["truth"].get("found") is not None and tie["truth_found"] is not None:
                    mf = plan["truth"]["found"]
                    if mf.get("k") == "stmt":
                        mf = {"k": "stmt", "node": norm_json([mf["node"]])[0]}
                    if mf != tie["truth_found"]:
                        bad = "truth node differs"
                if (merr is None) != (snap["rc"] == 0):
                    if not (tie and "truth_parse_error" in tie and snap["rc"] != 0):
                        bad = "model err=%s, real rc=%s exc=%s" % (merr, snap["rc"], snap["exc"])
                elif merr is not None and merr != snap["exc"] and out["flags"]:
                    # (an exception while parsing the truth is a black-box parser matter; after that the class must agree)
                    bad = "model raises %s, real %s" % (merr, snap["exc"])
                if bad is None:
                    for k in KINDS:
                        mj = out["files"][k]
                        mj = None if mj is None else norm_json(mj)
                        if mj != realj[k]:
                            bad = "file %s differs after run %d" % (fname(c, k), run + 1)
                            break
                if bad is None:
                    # flags: the model works modulo docstring layout / unparse text, so the real cmp_ast may see a difference the
                    # model does not; then the real run re-writes the file with the same AST
                    for k, mf in out["flags"].items():
                        rf = snap["flags"].get(k)
                        key = "%s:model=%s,real=%s" % (k, mf, rf)
                        flagstats[key] = flagstats.get(key, 0) + 1
                        if mf and rf == "unchanged":
                            bad = "model says %s modified, the real run printed unchanged" % fname(c, k)
            if bad and "error" not in out and collide:
                # a string constant carries the target's `_location`: RewriteAtQuery replaces an *expression*, which the
                # statement-level model cannot represent (trusted base); the oracle reports what happens
                alive[i] = False
                chk.coverage["sync_constant_location_collision"] = chk.coverage.get("sync_constant_location_collision", 0) + 1
            elif bad:
                n_dis += 1
                alive[i] = False
                chk.disagreement("C12 correspondence: Sync.sync vs `python -m cdd sync` (%s)" % label,
                                 {"case": {k: c.get(k) for k in ("truth", "names", "states", "files", "runs", "edits", "layout")}, "run": run + 1, "why": bad},
                                 {"files": snap["files"], "flags": snap["flags"], "rc": snap["rc"], "exc": snap["exc"]},
                                 {"files": out.get("files"), "flags": out.get("flags"), "err": out.get("err")})
            else:
                state[i] = {k: (None if out["files"][k] is None else norm_json(out["files"][k])) for k in KINDS}
    return n_dis, real


def run(chk: core.Check) -> int:
    chk.lean(MODULE, THEOREMS + IFACE_THEOREMS)
    chk.trusted_base.append("Properties/C12Iface.lean: the C12 theorems with the abstract emitters/parsers of Model/Sync.lean instantiated by the class / function / argparse emitters and parsers of the C02 "
                            "interface model (name and kind laws proved for every interface, the round-trip law on the C02 domain from C02_class/_function/_argparse; the congruence law emitCongr is "
                            "proved FALSE for view equality and survives as one decidable instance `hfix`, needed only for idempotence with a class truth); the reverse adapter PyAst.Stmt -> Iface.Top "
                            "is a parameter with a pointwise decidable hypothesis (readsBack), CPython's expression parser stays env.pyExpr")
    chk.trusted_base += [
        "model lean/CddVerif/Model/Sync.lean over the shared flat Python AST (PyAst: expressions as ast.unparse text): find_in_ast, annotate_ancestry's "
        "_location, RewriteAtQuery.generic_visit/visit_FunctionDef, cmp_ast, _conform_filename, ground_truth — tied by c12.find / c12.rewrite / c12.sync",
        "ASSUMED (named hypotheses of the theorems, property C02/C08): parse_k(emit_k(ir)) ~ ir; emit_k respects ~; emit_k names its node after the target "
        "and produces a ClassDef / FunctionDef; the correspondence instantiates emit_k with the nodes of the REAL emitters instead",
        "not modelled: ast.unparse / black / ast.parse on write+read are the identity on the AST modulo docstring layout (ast_parse re-indents the module "
        "docstring, black every docstring); compared views are normalised with inspect.cleandoc on both sides",
        "not visible to PyAst, hence outside the model: definitions nested in compound statements other than class/def (if/for/try/with bodies), and "
        "string constants equal to the last component of a search path (annotate_ancestry gives Constant nodes a _location too)",
        "several kinds naming ONE file: the model runs them through Sync.syncAt (slot map; tied on every shared-layout case, plan refined kind by kind); "
        "proved for that loop: sync_frame_shared (chain of per-kind frames) and syncAt_id (= sync for distinct files); C12_partial_* / idempotence are "
        "stated for three distinct files, the shared layouts are covered by the oracle per (kind, file) pair",
        "defaults of written targets are compared as typed values read with the stdlib ast (class attributes, signature defaults, add_argument default=), "
        "not through cdd's parsers and not relative to a control conversion",
        "the real class_ emitter mutates the shared IR (moves `returns` into params); the harness replays the real emissions in the real order on one IR object",
        "interface oracle compares the parameter view (names, order, types, defaults, normalised descriptions) and is applied when the plain conversion "
        "truth->kind (C02/C03 territory) itself preserves that view; the skipped cases are counted in coverage.outside_common_domain",
    ]
    rng = chk.rng
    have_driver = core.DRIVER.exists()
    # ---- (1) find_in_ast / RewriteAtQuery on wild modules ------------------------------------------------
    finds, rws = wild_cases(rng, 4000 if chk.quick else 40000)
    impl_f = core.pmap(impl_find, finds, chunksize=256)
    impl_r = core.pmap(impl_rewrite, rws, chunksize=256)
    n_f = n_r = 0
    kinds_f, kinds_r = {}, {}
    if have_driver:
        mod_f = core.model_batch([{"op": "c12.find", "module": pyast.module_to_json(s), "search": q} for s, q in finds])
        mod_r = core.model_batch([{"op": "c12.rewrite", "module": pyast.module_to_json(s), "search": q, "repl": pyast.module_to_json(rp)[0]} for s, q, rp in rws])
        for c, i, m in zip(finds, impl_f, mod_f):
            m = {k: v for k, v in m.items() if k != "what"}
            key = i["error"] if "error" in i else ("none" if i["found"] is None else i["found"]["k"])
            kinds_f[key] = kinds_f.get(key, 0) + 1
            chk.count(("find", c[0], tuple(c[1])), key != "none")
            if i != m:
                n_f += 1
                chk.disagreement("C12 correspondence: Sync.findInAst vs find_in_ast", {"src": c[0], "search": c[1]}, i, m)
        for c, i, m in zip(rws, impl_r, mod_r):
            m = {k: v for k, v in m.items() if k != "what"}
            if "error" in i:
                key = i["error"]
            else:
                key = ("node-replaced" if c[2].lstrip().startswith(("class ", "def ")) else "arg-replaced") if i["replaced"] else \
                    ("same" if i["module"] == pyast.module_to_json(c[0]) else "default-changed-only")
            kinds_r[key] = kinds_r.get(key, 0) + 1
            chk.count(("rw", c[0], tuple(c[1]), c[2]), key != "same")
            if m.get("error") == "out-of-model":
                kinds_r["model:out-of-model"] = kinds_r.get("model:out-of-model", 0) + 1
                continue
            if i != m:
                n_r += 1
                chk.disagreement("C12 correspondence: Sync.rwList vs RewriteAtQuery.visit", {"src": c[0], "search": c[1], "repl": c[2]}, i, m)
    chk.oblige("correspondence Sync.findInAst = find_in_ast on %d (module, path) pairs" % len(finds), "correspondence", have_driver and n_f == 0, "%d disagreements" % n_f)
    chk.oblige("correspondence Sync.rwList = RewriteAtQuery.visit on %d (module, path, replacement) triples" % len(rws), "correspondence", have_driver and n_r == 0, "%d disagreements" % n_r)
    # cmp_ast, with prefix / extension pairs
    cmps = cmp_cases(rng, 1500 if chk.quick else 15000)
    impl_c = core.pmap(impl_cmp, [pr for _, pr in cmps], chunksize=256)
    n_c, kinds_c, cmp_fails = 0, {}, []
    if have_driver:
        mod_c = core.model_batch([{"op": "c12.cmp", "a": pyast.module_to_json(a)[0], "b": pyast.module_to_json(b)[0]} for _, (a, b) in cmps])
        for (kind, pr), i, m in zip(cmps, impl_c, mod_c):
            key = "%s:%s" % (kind, "equal" if i["eq"] else "different")
            kinds_c[key] = kinds_c.get(key, 0) + 1
            chk.count(("cmp",) + pr, pr[0] != pr[1])
            # the property needs exactly this: two nodes are reported equal only if they are the same code
            if i["eq"] and pyast.module_to_json(pr[0]) != pyast.module_to_json(pr[1]):
                cmp_fails.append(({"clause": "change-detection", "cmp_case": kind}, "cmp_ast reports two different definitions as equal (%s)" % kind,
                                  {"fn": "cmp", "a": pr[0], "b": pr[1]}))
            if i.get("eq") != m.get("eq"):
                n_c += 1
                chk.disagreement("C12 correspondence: Stmt.beq vs cmp_ast", {"a": pr[0], "b": pr[1]}, i, m)
    chk.oblige("correspondence Stmt.beq = cmp_ast on %d pairs of definitions (prefix / extension pairs included)" % len(cmps), "correspondence",
               have_driver and n_c == 0, "%d disagreements" % n_c)
    chk.coverage["cmp_outcomes"] = kinds_c
    chk.coverage["find_outcomes"] = kinds_f
    chk.coverage["rewrite_outcomes"] = kinds_r
    # ---- (2) the real CLI on triples of files ---------------------------------------------------------------
    cases = [build_case(rng, k) for k in range(160 if chk.quick else 1600)]
    cases = witness_cases() + fixed_cases() + layout_and_default_cases() + truth_shape_cases() + cases + [build_shared_case(rng, k) for k in range(50 if chk.quick else 500)] + [build_history_case(rng, k) for k in range(40 if chk.quick else 400)]
    n_s, real = check_sync_cases(chk, cases, "structured") if have_driver else (0, [run_real(c) for c in cases])
    chk.oblige("correspondence Sync.sync = `python -m cdd sync` (files after every run) on %d triples, %d CLI runs" % (len(cases), sum(c["runs"] for c in cases)),
               "correspondence", have_driver and n_s == 0, "%d disagreements" % n_s)
    dist = {"truth": {}, "states": {}, "runs": {}, "outcomes": {}}
    for c, snaps in zip(cases, real):
        dist["truth"][c["truth"]] = dist["truth"].get(c["truth"], 0) + 1
        dist["runs"][str(c["runs"])] = dist["runs"].get(str(c["runs"]), 0) + 1
        for k in KINDS:
            key = "%s:%s" % (k, c["states"][k])
            dist["states"][key] = dist["states"].get(key, 0) + 1
            oc = "%s:%s" % (k, classify_outcome(c["files"][k], snaps[0]["files"][k], [x.strip() for x in c["names"][k].split(".")]))
            dist["outcomes"][oc] = dist["outcomes"].get(oc, 0) + 1
        nontrivial = any(s["files"][k] != c["files"][k] for s in snaps[:1] for k in KINDS)
        chk.count(("sync", json.dumps(c["files"], sort_keys=True), c["truth"], json.dumps(c["names"], sort_keys=True), c["runs"]), nontrivial)
        if c["id"] in (0, 1) or str(c["id"]).startswith("witness"):
            chk.sample({"truth": c["truth"], "names": c["names"], "states": c["states"], "runs": c["runs"],
                        "flags_per_run": [s["flags"] for s in snaps], "rc": [s["rc"] for s in snaps]})
        with quiet():
            fails = oracle(chk, c, snaps)
        for sig, what in fails:
            chk.failure(sig, what, {"fn": "sync", "case": {k: c.get(k) for k in ("id", "truth", "names", "states", "files", "runs", "edits", "layout")}})
        if str(c["id"]).startswith("witness"):
            # the witnesses of the negation theorems must (still) fail on the real code, in the recorded way
            want = WITNESS_EXPECT[c["id"]]
            got = [sig for sig, _ in fails if all(sig.get(k) == v for k, v in want.items())]
            chk.oblige("witness %s of the negation theorems fails on the real code" % c["id"], "witness", bool(got),
                       "expected a failure matching %s, oracle reported %s" % (want, [sg for sg, _ in fails]))
    for sig, what, rp in cmp_fails:  # after the end-to-end failures, so that the replay file holds a CLI history when there is one
        chk.failure(sig, what, rp)
    chk.coverage["sync_distribution"] = dist
    return chk.finish("wild stream: random nested modules x search paths (60-70% taken from the module) x replacement nodes; structured stream: triples "
                      "(class file, method file, argparse file) with mutually different interfaces or empty/missing/target-less files, unrelated "
                      "surrounding code, truth in {class, function, argparse_function}, 1-3 consecutive real CLI runs; non-trivial = find hits / "
                      "rewrite changes something / the first run changes a file")


def fixed_cases():
    """hand-written modules that mention the target names as data (run on every seed)"""
    w = {c["id"]: c for c in witness_cases()}["witness-never-rewritten"]
    cls, meth, argp = w["files"]["class"], w["files"]["function"], w["files"]["argparse_function"]
    st = dict(w["states"])
    data_cls = '__all__ = ["K", "other"]\nNAME = "K"\nREG = {"K": 1}\n"K"\n\n' + cls + '\n__all__ += ["K"]\n'
    data_argp = '"""set_cli_args"""\n__all__ = ["set_cli_args"]\n\n' + argp + '\nDISPATCH = {"set_cli_args": set_cli_args}\n'
    data_meth = '__all__ = ["C", "C.m"]\n\n' + meth + '\nHANDLERS = {"m": C.m, "C": C}\n'
    return [
        # the class differs from a function truth: it must be rewritten, `__all__` and the other mentions untouched
        {"id": "fixed-names-as-data", "truth": "argparse_function", "names": w["names"], "states": st,
         "files": {"class": data_cls, "function": data_meth, "argparse_function": data_argp}, "runs": 2},
        # finding C12-string-constant-at-method-location: `HANDLER = "m"` before `class C` gets `_location == ['C', 'm']`
        {"id": "fixed-constant-at-method-location", "truth": "class", "names": w["names"], "states": st,
         "files": {"class": cls, "function": '__all__ = ["C"]\nHANDLER = "m"\n\n' + meth, "argparse_function": argp}, "runs": 1},
        # finding C12-string-statement-at-method-location: the same collision for a string expression statement
        {"id": "fixed-string-statement-at-method-location", "truth": "class", "names": w["names"], "states": st,
         "files": {"class": cls, "function": '"""module doc"""\n\n"m"\n\n' + meth, "argparse_function": argp}, "runs": 2},
    ]


WITNESS_EXPECT = {
    "witness-never-rewritten": {"clause": "interface", "target_kind": "function", "outcome": "unchanged"},
    "witness-dotted-append": {"clause": "second-run", "target_kind": "function", "outcome": "method-appended-at-top-level"},
    "witness-missing-function-file": {"clause": "crash", "exc": "raises:TypeError", "function_file_missing": True},
}


def witness_cases():
    """the concrete witnesses of the negation theorems in Properties/C12.lean, replayed on the real code on every run"""
    cls = "class K(object):\n    \"\"\"\n    The K\n\n    :cvar a: first\n    :cvar b: second\n    \"\"\"\n\n    a: int = 5\n    b: str = 'foo'\n"
    meth = "class C(object):\n    \"\"\"C class\"\"\"\n\n    def m(self, q: float = 1.0):\n        \"\"\"\n        The m\n\n        :param q: the q\n        \"\"\"\n        return None\n"
    argp = ("def set_cli_args(argument_parser):\n    \"\"\"\n    Set CLI arguments\n\n    :param argument_parser: argument parser\n    :type argument_parser: ```ArgumentParser```\n\n"
            "    :return: argument_parser\n    :rtype: ```ArgumentParser```\n    \"\"\"\n    argument_parser.description = 'desc'\n"
            "    argument_parser.add_argument('--z', type=int, help='the z', required=True, default=3)\n    return argument_parser\n")
    names = {"class": "K", "function": "C.m", "argparse_function": "set_cli_args"}
    st = {"class": "present", "function": "present", "argparse_function": "present"}
    return [
        {"id": "witness-never-rewritten", "truth": "class", "names": names, "states": st, "files": {"class": cls, "function": meth, "argparse_function": argp}, "runs": 2},
        {"id": "witness-dotted-append", "truth": "class", "names": names, "states": dict(st, function="empty"), "files": {"class": cls, "function": "", "argparse_function": argp}, "runs": 3},
        {"id": "witness-missing-function-file", "truth": "class", "names": names, "states": dict(st, function="missing"), "files": {"class": cls, "function": None, "argparse_function": argp}, "runs": 1},
    ]


def replay(path: str) -> int:
    d = json.loads(Path(path).read_text())
    rp = d.get("replay") or {}
    if rp.get("fn") == "cmp":
        eq = impl_cmp((rp["a"], rp["b"]))["eq"]
        same = pyast.module_to_json(rp["a"]) == pyast.module_to_json(rp["b"])
        print("replay cmp_ast: reports %s, the definitions are %s" % ("equal" if eq else "different", "the same" if same else "different"))
        return 1 if (eq and not same) else 0
    if rp.get("fn") != "sync":
        print("replay: nothing to replay (kind=%s)" % d.get("kind"))
        return 2
    case = rp["case"]
    snaps = run_real(case)
    if any(x.get("timeout") for x in snaps):
        print("replay: the CLI did not finish within %s s (machine load): no verdict" % (CLI_TIMEOUTS,))
        return 2
    chk = core.Check("C12", "quick", 0)
    with quiet():
        fails = oracle(chk, case, snaps)
    want = d.get("sig")
    unlisted = 0
    for sig, what in fails:
        new_ = chk.failure(sig, what, {})
        unlisted += bool(new_)
        print("replay: %s %s :: %s" % ("FAILS" if new_ else "known finding", json.dumps(sig, sort_keys=True), what))
    if want and not any(all(s.get(k) == v for k, v in want.items()) for s, _ in fails):
        print("replay: the recorded signature was not reproduced")
    if not unlisted:
        print("replay: property holds on this case (apart from listed findings)")
        return 0
    return 1
