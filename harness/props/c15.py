"""C15 — docstring prose outside the parameter section is preserved (DESIGN.md §4 C15)."""
from __future__ import annotations

import itertools
import json
from pathlib import Path

from harness import core
from harness.gen import ir as G
from harness.props.c11 import ALPHABET, mutate, repo_docstrings

STRUCT = "field_compact_split field_adjacent_split field_absorbed_split field_absorbed_pieces field_absorbed_nl field_unterminated_split field_single_line_split field_single_line_header_lost field_no_token_split field_raises_split field_raises_pieces exact_ordered exact_parts exact_partitions exact_whence field_compact_whence field_adjacent_whence field_absorbed_whence whence_slices not_partitions_of_gt raises_only_not_partition numpy_split numpy_partitions numpy_no_colon_cut numpy_whence numpy_indented_split C15_split_structured idx_ordered header_token_word_needed header_returns_word_needed header_exact_keyword_line_harmless footer_quiet_needed section_start_needed single_line_witness raises_only_witness raises_min_witness rtype_lands_in_footer numpy_body_quiet_needed numpy_indented_instance numpy_underline_needed numpy_format_irrelevant".split()
ALLSTR = "start_range last_exits idx_range last_le_length_or_dashes last_beyond_end_witness last_beyond_end_witness2 last_raises_iff last_typeError last_indexError last_total raises_witnesses last_never_raises_without_dash idx_ordered_all C15_split_ordered unordered_classified unordered_not_partition clauseA_needed clauseA_needed_returns clauseB_needed ordered_not_necessary".split()
MODULE = "CddVerif.Properties.C15All"  # every-string theorems (C15All) on top of the structural split theorems (C15Struct), which import Properties.C15
THEOREMS = ["C15All." + t for t in ALLSTR] + ["C15Struct." + t for t in STRUCT] + ["C15.slice_partition", "C15.split_partial", "C15.haf_header_prefix", "C15.haf_footer_suffix",
            "C15.whence_preserves_header", "C15.rawParts_prefix_suffix"]
STYLES = ("rest", "google", "numpydoc")
PROSE = ["Summary line here.", "Compute the thing quickly.", "Longer paragraph one", "continues on this line.", "Second paragraph.",
         "It handles edge cases well", "and is safe to call twice.", "See the manual for details",
         # a line longer than the emitters' wrap width (100): header prose is the user's, it must not be re-flowed
         "This sentence is deliberately written on one single very long line so that it is wider than any wrap width an emitter might want to apply to it"]
# header prose that *mentions* section keywords (legitimate prose; tagged so that findings can be signed narrowly)
KW_PROSE = {
    "line-Parameters": "Parameters\nare described in the manual, not here.",
    "line-Returns": "Returns\nare discussed in the second section.",
    "mid-Returns:": "Validation of the arguments is lazy. Returns: a 2-tuple, described below.",
    "mid-Args:": "All of the Args: are validated lazily.",
    "mid-Raises:": "On bad input it Raises: nothing at all.",
    "start-Returns-word": "Returns the computed value when it is ready.",
    "start-Parameters-word": "Parameters given here are forwarded.",
    "mid-:param": "The role :param is used below in the field list.",
    # the same words in lower case are ordinary prose for every style (the section tokens are case-sensitive)
    "lower-kwargs:": "Extra kwargs: forwarded to the backend unchanged.",
    "lower-returns:": "On success it returns: nothing of interest.",
}
FOOTERS = ["Notes about usage.", ">>> f(1, 2)", "'x'", "Example follows below", "    indented example line", "References are listed elsewhere",
           "Example:", "Usage:", "See also:", "Example::", "Caveat: slow on big inputs"]


def render_section(r, ir, style, with_types=True):
    """hand-written renderers (independent of the real emitter) of a parameter/return section"""
    out = []
    ps = list(ir["params"].items())
    rt = (ir.get("returns") or {}).get("return_type")
    if style == "rest":
        for n, p in ps:
            d = p.get("doc", "thing")
            if "default" in p:
                d += ". Defaults to %s" % G.render_default(p["default"])
            d += r.choice(["", "", "."])  # a sentence may end with its full stop at the end of the line
            out += [":param %s: %s" % (n, d)] + ([":type %s: ```%s```" % (n, p["typ"])] if with_types else []) + [""]
        if rt:
            rd = rt.get("doc", "result") + (". Defaults to %s" % r.choice(["5", "-3", "0.5", "True"]) if r.random() < 0.3 else "") + r.choice(["", "", "."])
            out += [":return: %s" % rd] + ([":rtype: ```%s```" % rt["typ"]] if with_types else [])
    elif style == "google":
        if ps:
            out.append("Args:")
            for n, p in ps:
                d = p.get("doc", "thing")
                if "default" in p:
                    d += ". Defaults to %s" % G.render_default(p["default"])
                out.append("  %s (%s): %s" % (n, p["typ"], d))
            out.append("")
        if rt:
            out += ["Returns:", "  %s: %s" % (rt["typ"], rt.get("doc", "result"))]
    else:
        if ps:
            out += ["Parameters", "----------"]
            for n, p in ps:
                d = p.get("doc", "thing")
                if "default" in p:
                    d += ". Defaults to %s" % G.render_default(p["default"])
                out += ["%s : %s" % (n, p["typ"]), "    %s" % d]
            out.append("")
        if rt:
            out += ["Returns", "-------", rt["typ"], "    %s" % rt.get("doc", "result")]
    while out and out[-1] == "":
        out.pop()
    return "\n".join(out)


def gen_doc(r):
    style = r.choice(STYLES)
    minimal = r.random() < 0.15  # the smallest legal sections: one entry, possibly one line, nothing after it (not even a newline)
    ret_only = r.random() < 0.1  # a section that consists of the return entry alone (a function without arguments)
    ir = G.gen_ir(r, nparams=0 if ret_only else (1 if minimal else r.randint(1, 4)), none_ok=False, with_return=ret_only or ((r.random() < 0.6) and not minimal))
    paras = []
    for _ in range(r.randint(1, 3)):
        paras.append(core.spice(r, "\n".join(r.sample(PROSE, r.randint(1, 2))), 0.2))  # dictionary-guided search (inactive on the unchanged tree)
    kw = None
    if r.random() < 0.25:
        kw = r.choice(sorted(KW_PROSE))
        paras.insert(r.randint(1, len(paras)), KW_PROSE[kw])
    header = "\n\n".join(paras)
    header_lines = [l for l in header.split("\n") if l.strip()]
    footer = "\n".join(r.sample(FOOTERS, r.randint(1, 3))) if r.random() < 0.5 and not minimal else ""
    footer_lines = [l.strip() for l in footer.split("\n") if l.strip()]
    d = header + "\n\n" + render_section(r, ir, style, with_types=not ((minimal and r.random() < 0.6) or (style == "rest" and r.random() < (0.5 if ret_only else 0.25)))) + ("\n\n" + footer if footer else "") + ("" if minimal else r.choice(["", "\n"]))
    ind = r.choice([0, 4, 4, 8]) if minimal else r.choice([0, 4, 8])
    # "blank" separator lines that are not empty: they keep the indentation whitespace (what the project's own emitter writes at
    # indent_level >= 1) or, at indentation 0, carry a few stray blanks
    blank_ws = r.random() < 0.4
    if blank_ws and not ind:
        d = "\n".join((l if l or r.random() < 0.5 else "    ") for l in d.split("\n"))
    on_quote_line = bool(ind) and r.random() < 0.2  # the summary sits on the line of the opening quotes (what ast.get_docstring(clean=False) returns): no leading newline
    if ind:
        d = "\n" + "\n".join((" " * ind + l) if (l or blank_ws) else l for l in d.split("\n")) + r.choice(["", "" if minimal else "\n" + " " * ind])
        if on_quote_line:
            d = d[1 + ind:]
    return {"doc": d, "style": style, "indent": ind, "header_lines": header_lines, "footer_lines": footer_lines, "has_footer": bool(footer),
            "has_return": bool(ir.get("returns")), "nparams": len(ir["params"]), "names": list(ir["params"]), "kw": kw, "blank_ws": blank_ws, "ret_only": ret_only}


def impl_split(case):
    from cdd.shared import docstring_utils as du

    cur, org = case
    out = {}
    try:
        h, a, f = du.parse_docstring_into_header_args_footer(cur, org)
        out["haf"] = {"h": h, "a": a, "f": f}
    except Exception as e:  # noqa
        out["haf"] = {"raises": "IndexError" if isinstance(e, IndexError) else "TypeError" if isinstance(e, TypeError) else type(e).__name__}
    try:
        out["whence"] = {"r": du.ensure_doc_args_whence_original(cur, org)}
    except Exception as e:  # noqa
        out["whence"] = {"raises": type(e).__name__}
    if cur == org:
        try:
            out["idx"] = [du._get_token_start_idx(org), du._get_token_last_idx(org)]
        except Exception as e:  # noqa
            out["idx"] = "raises:" + type(e).__name__
    return out


def impl_tostr(t):
    from cdd.shared import docstring_utils as du

    return du.header_args_footer_to_str(*t)


def impl_convert(g):
    """docstring → IR → every target style (the conversion path of the property)"""
    import cdd.class_.parse  # noqa: F401
    from cdd.docstring.emit import docstring as emit
    from cdd.docstring.parse import docstring as parse

    d = g["doc"]
    try:
        ir = parse(d)
    except Exception as e:  # noqa
        return {"parse": core.exc_name(e)}
    fields = []
    for n, p in list((ir.get("params") or {}).items()) + list((ir.get("returns") or {}).items()):
        for k in ("typ", "default"):
            if isinstance(p.get(k), str):
                fields.append([n, k, p[k]])
    outs = {}
    for tgt in STYLES:
        try:
            outs[tgt] = emit(ir, docstring_format=tgt)
        except Exception as e:  # noqa
            outs[tgt] = None
            outs[tgt + "_err"] = core.exc_name(e)
    # second path: the docstring inside a function; the function parser keeps `_internal.original_doc_str`, which the
    # emitter re-splits with parse_docstring_into_header_args_footer (what doctrans does)
    if g["indent"] == 4:
        import ast

        import cdd.function.parse

        src = 'def f(%s):\n    """%s"""\n    return None\n' % (", ".join(g["names"]), d.replace("\\", "\\\\"))
        try:
            ir2 = cdd.function.parse.function(ast.parse(src).body[0])
            for tgt in STYLES:
                try:
                    outs["fn_" + tgt] = emit(ir2, docstring_format=tgt, indent_level=1)
                except Exception as e:  # noqa
                    outs["fn_" + tgt] = None
        except Exception as e:  # noqa
            outs["fn_parse_err"] = core.exc_name(e)
    return {"fields": fields, "outs": outs, "nparams": len(ir.get("params") or {})}


def in_order(lines, text):
    """first of `lines` that is not found, in order, AS A LINE of `text` (compared without surrounding blanks): a header line that has been
    fused with another line is no longer present as a line"""
    out_lines = [x.strip() for x in text.split("\n")]
    idx = 0
    for l in lines:
        try:
            idx = out_lines.index(l.strip(), idx) + 1
        except ValueError:
            return l
    return None


def run(chk: core.Check) -> int:
    chk.lean(MODULE, THEOREMS)
    chk.trusted_base += [
        "models lean/CddVerif/Model/DocstringUtils.lean + DocSplit.lean: faithful ports of the index walkers, parse_docstring_into_header_args_footer, header_args_footer_to_str, ensure_doc_args_whence_original, num_of_nls, textwrap.indent — tied by exact comparison of indices, parts and strings",
        "Properties/C15All.lean: for EVERY string the walkers' indices are range-bounded (start_range, idx_range; `last` may exceed the length by up to 2 on the NumPy dashes exit — "
        "witnesses), _get_token_last_idx raises exactly when the token index reaches the length (last_raises_iff), and the decidable condition `Ordered` implies start <= last and hence the "
        "partition (idx_ordered_all, C15_split_ordered) with each clause shown necessary; an exact characterisation of ordering is not proved (Ordered is sufficient, not necessary); the parse side (no prose absorbed into a type/default) is checked on the real code only",
    ]
    rng = chk.rng
    have = core.DRIVER.exists()
    # ---- (1) correspondence on raw strings and pairs -------------------------------------------------------
    docs = ["".join(t) for k in range((3 if chk.quick else 4) + 1) for t in itertools.product(ALPHABET, repeat=k)]
    base = repo_docstrings()
    docs += base[: (200 if chk.quick else 3000)] + [mutate(rng, rng.choice(base), ALPHABET) for _ in range(800 if chk.quick else 10000)]
    gens = [gen_doc(rng) for _ in range(1500 if chk.quick else 20000)]
    docs += [g["doc"] for g in gens]
    pairs = [(d, d) for d in docs] + [(rng.choice(docs), rng.choice(docs)) for _ in range(2000 if chk.quick else 30000)]
    impl = core.guarded_map(impl_split, pairs, 10.0)
    reqs = []
    for a, b in pairs:
        reqs.append({"op": "c15.haf", "current": a, "original": b})
        reqs.append({"op": "c15.whence", "current": a, "original": b})
    model = core.model_batch(reqs) if have else None
    n_dis = 0
    n_unordered = 0
    for k, ((a, b), r) in enumerate(zip(pairs, impl)):
        if r is None or r.get("timeout") or r.get("skipped"):
            continue
        chk.count(("split", a, b), "raises" not in r["haf"] and bool(r["haf"].get("h")))
        if model is not None:
            mh, mw = model[2 * k], model[2 * k + 1]
            ok = (("raises" in mh) == ("raises" in r["haf"])) and ("raises" in mh or {x: mh.get(x) for x in "haf"} == r["haf"])
            ok = ok and (("raises" in mw) == ("raises" in r["whence"])) and ("raises" in mw or mw.get("r") == r["whence"].get("r"))
            if not ok:
                n_dis += 1
                chk.disagreement("C15 correspondence: parse_docstring_into_header_args_footer / ensure_doc_args_whence_original", {"current": a[:800], "original": b[:800]}, r, [mh, mw])
        # the property's split identity on the index pair (every string where the walkers return)
        if a == b and isinstance(r.get("idx"), list):
            s, l = r["idx"]
            ordered = s <= -1 or l == -1 or s <= l
            if not ordered:
                n_unordered += 1
    chk.oblige("correspondence: split parts and re-assembled strings = model on %d (current, original) pairs" % len(pairs), "correspondence",
               n_dis == 0 and have, "%d disagreements" % n_dis)
    chk.coverage["raw_strings_with_start_gt_last"] = n_unordered
    # ---- (2) header_args_footer_to_str on a grid -------------------------------------------------------------
    parts = ["", "H", "Header.\n", "Header.\n\n", "  Header", "\n    Head\n    ", ":param a: b", "\n:param a: b\n", "    :param a: b\n    :type a: int\n",
             "Args:\n  a: b\n", "\n\nfoot", "foot\n", "  foot", "\n", " ", "\n\n", "x\n ", "\t:param a: b\r\n", "A\x0cB\n"]
    trip = [(h, a, f) for h in parts for a in parts for f in parts]
    if chk.quick:
        trip = rng.sample(trip, 2500)
    impl_t = core.pmap(impl_tostr, trip)
    model_t = core.model_batch([{"op": "c15.tostr", "h": h, "a": a, "f": f} for h, a, f in trip]) if have else None
    n_dis = 0
    for k, (t, r) in enumerate(zip(trip, impl_t)):
        chk.count(("tostr", t), all(t))
        if not (r.startswith(t[0]) and r.endswith(t[2])):
            chk.failure({"kind": "reassembly-drops-header-or-footer"}, "header_args_footer_to_str%r = %r" % (t, r), {"fn": "tostr", "t": list(t)})
        if model_t is not None and model_t[k].get("r") != r:
            n_dis += 1
            chk.disagreement("C15 correspondence: header_args_footer_to_str", {"t": list(t)}, r, model_t[k])
    chk.oblige("correspondence: header_args_footer_to_str = model on %d triples" % len(trip), "correspondence", n_dis == 0 and have, "%d disagreements" % n_dis)
    # ---- (3) the property on generated header + section + footer documents ------------------------------------
    split = core.guarded_map(impl_split, [(g["doc"], g["doc"]) for g in gens], 10.0)
    conv = core.guarded_map(impl_convert, gens, 15.0)
    dist = {}
    for g, sp, cv in zip(gens, split, conv):
        key = "%s/indent%d/%s" % (g["style"], g["indent"], "footer" if g["has_footer"] else "nofooter")
        dist[key] = dist.get(key, 0) + 1
        chk.count(("doc", g["doc"]), True)
        base_sig = {"style": g["style"], "indented": g["indent"] > 0, "has_footer": g["has_footer"], "kw": g["kw"]}
        ws = {"blank_ws": True} if g.get("blank_ws") else {}  # root-cause marker: separator lines that are blank but not empty
        base_sig.update(ws)
        if g.get("ret_only"):
            base_sig["ret_only"] = True  # the section is the return entry alone
        if sp and not sp.get("timeout") and not sp.get("skipped"):
            if "raises" in sp["haf"]:
                chk.failure({"kind": "split-raises", **base_sig, "exc": sp["haf"]["raises"]}, "parse_docstring_into_header_args_footer raises %s" % sp["haf"]["raises"],
                            {"fn": "split", "doc": g["doc"]})
            else:
                h, f = sp["haf"]["h"] or "", sp["haf"]["f"] or ""
                d = g["doc"]
                if not (d.startswith(h) and d.endswith(f) and len(h) + len(f) <= len(d)):
                    chk.failure({"kind": "split-not-a-partition", **base_sig}, "header/footer are not a non-overlapping prefix/suffix of the docstring (start > last)",
                                {"fn": "split", "doc": g["doc"], "idx": sp.get("idx")})
                else:
                    miss = in_order(g["header_lines"], h) if sp.get("idx") and isinstance(sp["idx"], list) and sp["idx"][0] > -1 else None
                    if miss is not None:
                        chk.failure(({"kind": "header-line-not-in-header-part", **base_sig} if g["kw"] is None else
                                     {"kind": "header-line-not-in-header-part", "kw": g["kw"], "style": g["style"], "indented": g["indent"] > 0, **ws}), "header line %r is not inside the header part" % miss, {"fn": "split", "doc": g["doc"]})
        if cv and not cv.get("timeout") and not cv.get("skipped") and "fields" in cv:
            for tgt in STYLES + tuple("fn_" + t for t in STYLES):
                out = cv["outs"].get(tgt)
                if out is None:
                    continue
                miss = in_order(g["header_lines"], out)
                if miss is not None:
                    chk.failure(({"kind": "header-line-lost", **base_sig, "target": tgt} if g["kw"] is None else
                                 {"kind": "header-line-lost", "kw": g["kw"], "style": g["style"], "path": "fn" if tgt.startswith("fn_") else "doc", "indented": g["indent"] > 0, **ws, **({"ret_only": True} if g.get("ret_only") else {})}), "converting %s → %s loses header line %r" % (g["style"], tgt, miss),
                                {"fn": "convert", "gen": g, "target": tgt})
            for n, k, v in cv["fields"]:
                for l in g["header_lines"] + g["footer_lines"]:
                    if l.strip() and l.strip() in v:
                        extra = {}
                        if k == "default" and g["style"] == "rest":
                            # root-cause marker: the ReST field that announces this default is the last field of the section and its sentence has no
                            # terminating full stop (extract_default then reads on to the next ". " or the end of the text)
                            tag = ":return:" if n == "return_type" else ":param %s:" % n
                            ls = [x.strip() for x in g["doc"].split("\n")]
                            at = [i for i, x in enumerate(ls) if x.startswith(tag)]
                            if at and not ls[at[0]].endswith(".") and not any(x.startswith((":param", ":type", ":rtype", ":return")) for x in ls[at[0] + 1:]):
                                extra["unterminated_last_field"] = True
                        chk.failure({"kind": "prose-absorbed", "style": g["style"], "field": k, "entry": "return" if n == "return_type" else "param", "kw": g["kw"],
                                     "prose": "footer" if l.strip() in [x.strip() for x in g["footer_lines"]] else "header", **ws, **extra},
                                    "prose line %r absorbed into %s.%s = %r" % (l.strip(), n, k, v[:120]), {"fn": "convert", "gen": g})
                        break
    chk.coverage["generated_docs_by_shape"] = dist
    chk.sample({"generated_doc": gens[0]["doc"], "style": gens[0]["style"], "split": split[0].get("haf") if split[0] else None})
    return chk.finish("raw strings: all token sequences up to length %d over a %d-token docstring alphabet, repo docstrings and mutants, random (current, original) pairs; "
                      "documents: multi-paragraph header + hand-rendered parameter/return section (3 styles) + optional footer at indent 0/4/8, converted to all 3 styles; "
                      "non-trivial = the split finds a header" % (3 if chk.quick else 4, len(ALPHABET)))


def replay(path: str) -> int:
    d = json.loads(Path(path).read_text())["replay"]
    if d.get("fn") == "tostr":
        r = impl_tostr(tuple(d["t"]))
        ok = r.startswith(d["t"][0]) and r.endswith(d["t"][2])
    elif d.get("fn") == "split":
        r = impl_split((d["doc"], d["doc"]))
        h, f = (r["haf"].get("h") or ""), (r["haf"].get("f") or "")
        ok = "raises" not in r["haf"] and d["doc"].startswith(h) and d["doc"].endswith(f) and len(h) + len(f) <= len(d["doc"])
    else:
        g = d["gen"]
        r = impl_convert(g)
        ok = all(in_order(g["header_lines"], r["outs"].get(t) or "") is None for t in STYLES if r["outs"].get(t) is not None)
        ok = ok and not any(l.strip() in v for _, _, v in r["fields"] for l in g["header_lines"] + g["footer_lines"] if l.strip())
    print("replay:", "property holds" if ok else "fails", json.dumps(r, default=repr)[:600])
    return 0 if ok else 1
