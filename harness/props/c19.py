"""C19 — gen writes a valid module that exports exactly what it generated (DESIGN.md §4 C19).

Two layers of evidence:

* component ops (in-process): `str.format` templates, ensure_valid_identifier, get_emit_kwarg + the emitters' signatures,
  get_parser / infer, file_to_input_mapping, the `__all__` rendering, infer_imports / optimise_imports, gen_module's assembly;
* the real CLI (`/venv/bin/python -m cdd gen …` in temp dirs): the output file (AST), `__all__`, imports, exit status,
  exception class and the destructive-operation guard are compared with `GenModule.gen` / `GenModule.mainGen`, and the
  property's own oracle is evaluated on the real output.
"""
from __future__ import annotations

import ast
import concurrent.futures as cf
import contextlib
import copy
import inspect
import json
import keyword
import os
import re
import shutil
import subprocess
import tempfile
from itertools import chain
from pathlib import Path

from harness import core
from harness.gen import ir as irgen
from harness.impl import pyast

MODULE = "CddVerif.Properties.C19"
THEOREMS = [
    "C19.all_eq_names",
    "C19.all_rendered",
    "C19.all_nodup",
    "C19.defined_eq_all",
    "C19.defined_once",
    "C19.module_shape",
    "C19.guard",
    "C19.never_overwrites",
    "C19.guard_tests_what_is_written",
    "C19.imports_cover",
    "C19.imports_cover_module",
    "C19.get_types_first_level",
    "C19.get_types_misses_nested",
    "C19.nested_found_by_walk",
    "C19.emit_function_always_fails",
    "C19.emit_pydantic_always_fails",
    "C19.parse_argparse_always_fails",
    "C19.infer_argparse_fails",
    "C19.infer_json_fails",
    "C19.infer_class_any_base",
    "C19.infer_imports_none_crashes",
    "C19.two_import_statements_crash",
    "C19.sqlalchemy_name_ne_all",
    "C19.invalid_identifier_all_ne_defined",
    "C19.ensure_valid_not_always_valid",
    "C19.ensure_valid_id",
    "C19.optimise_two_statements_one_module",
    "C19.C19_full_false",
]
EMITS = ["argparse", "class", "function", "json_schema", "pydantic", "sqlalchemy", "sqlalchemy_hybrid", "sqlalchemy_table"]
PARSES = EMITS + ["infer"]
SQL = ("sqlalchemy", "sqlalchemy_hybrid", "sqlalchemy_table")
NAME_KEYS = ("function_name", "class_name", "identifier", "table_name")


def _cdd():
    import cdd.class_.parse  # noqa: F401  import-order workaround
    import cdd.sqlalchemy.emit  # noqa: F401


def _quiet():
    devnull = os.open(os.devnull, os.O_WRONLY)
    os.dup2(devnull, 2)


def exc(e: BaseException) -> str:
    return type(e).__name__


# ------------------------------------------------------------------------------------------------------------------
# component adapters (real code)
# ------------------------------------------------------------------------------------------------------------------
def impl_fmt(case):
    tpl, name = case
    try:
        return {"ok": tpl.format(name=name)}
    except Exception as e:  # noqa
        return {"error": exc(e)}


def impl_valid(s):
    _cdd()
    from cdd.shared.pure_utils import ensure_valid_identifier

    return {"r": ensure_valid_identifier(s), "is_name": s.isidentifier() and not keyword.iskeyword(s)}


def impl_kwargs(case):
    _cdd()
    from cdd.compound.gen_utils import get_emit_kwarg
    from cdd.shared.emit.utils.emitter_utils import get_emitter
    from cdd.shared.pure_utils import sanitise_emit_name

    emit, tpl, name = case
    try:
        kw = get_emit_kwarg(None, False, sanitise_emit_name(emit), tpl, name)
    except Exception as e:  # noqa
        return {"error": exc(e)}
    nm = next((kw[k] for k in NAME_KEYS if k in kw), None)
    try:
        inspect.signature(get_emitter(sanitise_emit_name(emit))).bind({}, emit_default_doc=True, word_wrap=True, **kw)
        call = "ok"
    except TypeError:
        call = "TypeError"
    return {"ok": {"keys": sorted(kw), "name": nm, "call": call}}


def node_desc(n):
    """What `infer` / `file_to_input_mapping` can see of a top-level statement, read with stdlib ast only (the model's NodeKind)."""
    if isinstance(n, ast.ClassDef):
        return {"k": "cls", "base_ids": [b.id for b in n.bases if isinstance(b, ast.Name)]}
    if isinstance(n, (ast.FunctionDef, ast.AsyncFunctionDef)):
        return {"k": "fn", "async": isinstance(n, ast.AsyncFunctionDef), "args": [a.arg for a in n.args.args]}
    if isinstance(n, (ast.Assign, ast.AnnAssign)):
        return {"k": "assign"}
    return {"k": "other"}


PARSER_BASES = ["Base", "TimestampMixin", "mixins.Timestamped", "Generic[T]", "object", "models.Base"]
PARSER_FNS = ["def f():\n    pass", "def f(a, b=2):\n    return a", "def f(argument_parser):\n    return argument_parser", "def f(a, argument_parser):\n    pass",
              "def f(argument_parser, b):\n    pass", "def f(self, argument_parser):\n    pass", "def f(*, argument_parser):\n    pass",
              "def f(a, /, argument_parser):\n    pass", "def f(argument_parser, /):\n    pass", "def f(*argument_parser):\n    pass",
              "@cache\ndef f(a, argument_parser=None):\n    pass"]


def parser_sources():
    import itertools

    out = []
    for k in range(4):
        for bs in itertools.permutations(PARSER_BASES, k):
            out.append("class A%s:\n    pass" % ("(%s)" % ", ".join(bs) if bs else ""))
    out += ["class A(TimestampMixin, Base, metaclass=ABCMeta):\n    pass", "class A(metaclass=Base):\n    pass", "@dataclass\nclass A(Mixin, Base):\n    pass",
            "class A(Base()):\n    pass", "class A(*bases, Base):\n    pass"]
    out += PARSER_FNS + ["async " + f if f.startswith("def") else f.replace("def ", "async def ") for f in PARSER_FNS]
    return out


def impl_parser(case):
    _cdd()
    from cdd.shared.parse.utils.parser_utils import get_parser

    parse, src = case
    node = {"$id": "x", "type": "object", "properties": {}} if src is None else ast.parse(src).body[0]
    try:
        fn = get_parser(node, parse)
        name = getattr(fn, "__name__", None)
        if name is None and hasattr(fn, "func"):
            # cdd.pydantic.parse.pydantic is a functools.partial of the class parser
            name = {"class_": "pydantic"}.get(fn.func.__name__, fn.func.__name__)
        return {"ok": name}
    except Exception as e:  # noqa
        return {"error": exc(e)}


STMT_SRC = {"cls": "class %s(object):\n    pass\n", "clsb": "class %s(Base):\n    pass\n", "fn": "def %s(a):\n    return a\n",
            "fnap": "def %s(argument_parser):\n    return argument_parser\n", "afn": "async def %s(a):\n    return a\n",
            "assign": "%s = 1\n", "import": "import %s\n", "expr": "print(%s)\n"}
STMT_NODE = {"cls": {"k": "cls", "base": False}, "clsb": {"k": "cls", "base": True}, "fn": {"k": "fn", "async": False, "ap": False},
             "fnap": {"k": "fn", "async": False, "ap": True}, "afn": {"k": "fn", "async": True, "ap": False},
             "assign": {"k": "assign"}, "import": {"k": "other"}, "expr": {"k": "other"}}


def impl_mapping(case):
    _cdd()
    from cdd.compound.gen_utils import file_to_input_mapping

    parse, body, json_base = case
    d = tempfile.mkdtemp(prefix="c19m_")
    try:
        if json_base is not None:
            p = os.path.join(d, json_base)
            Path(p).write_text(json.dumps({"$id": "x", "type": "object", "properties": {}}))
        else:
            p = os.path.join(d, "inp.py")
            Path(p).write_text("".join(STMT_SRC[k] % n for k, n in body))
        try:
            return {"ok": list(file_to_input_mapping(p, parse))}
        except Exception as e:  # noqa
            return {"error": exc(e)}
    finally:
        shutil.rmtree(d, ignore_errors=True)


def impl_allentry(s):
    _cdd()
    from cdd.shared.ast_utils import set_value
    from cdd.shared.source_transformer import to_code

    e = to_code(set_value(s)).rstrip("\n").strip("'").strip('"')
    final = ast.parse(str([e])).body[0].value.elts[0].value
    return {"entry": e, "repr": repr(s), "roundtrip": final == e}


def impl_doc(s):
    return {"truthy": bool(inspect.cleandoc(s))}


def tables_for(texts):
    """DEFAULT_MODULES_TO_ALL restricted to the identifiers that occur in `texts` (a lookup of any other name is never made)."""
    _cdd()
    from cdd.shared.ast_utils import DEFAULT_MODULES_TO_ALL

    words = set()
    for t in texts:
        words.update(re.findall(r"\w+", t))
    return [{"module": m, "names": sorted(words & set(a))} for m, a in DEFAULT_MODULES_TO_ALL]


def impl_infer(srcs):
    _cdd()
    from cdd.shared.ast_utils import infer_imports, optimise_imports

    nodes = [ast.parse(s).body[0] for s in srcs]
    try:
        return {"ok": [ast.unparse(i) for i in optimise_imports(chain(*map(infer_imports, nodes)))]}
    except Exception as e:  # noqa
        return {"error": exc(e)}


def impl_gettypes(ann):
    _cdd()
    from cdd.shared.ast_utils import get_types

    node = ast.parse(ann, mode="eval").body
    try:
        r = get_types(node)
        if r is None:
            return {"ok": None}
        return {"ok": [x if isinstance(x, str) else None for x in r]}
    except AssertionError:
        return {"error": "AssertionError"}


def file_imports_text(src):
    """What `gen` computes from --imports-from-file (replicated for the in-process assembly op; the CLI runs use the real line)."""
    return "".join(ast.unparse(n) for n in ast.parse(src).body if isinstance(n, (ast.Import, ast.ImportFrom)))


def impl_assemble(case):
    _cdd()
    from cdd.compound.gen_utils import gen_module

    nodes = tuple(ast.parse(s).body[0] for s in case["syms"])
    try:
        m = gen_module(None, case["infer"], False, True, "class_", nodes, file_imports_text(case["file_src"]) if case["file_src"] is not None else "",
                       None, None, None, None, case["prepend"], list(case["all"]))
        return {"module": pyast.module_to_json(ast.parse(ast.unparse(m)))}
    except Exception as e:  # noqa
        return {"error": exc(e)}


# ------------------------------------------------------------------------------------------------------------------
# generators
# ------------------------------------------------------------------------------------------------------------------
TPL_PIECES = ["{name}", "{name}", "{name}", "Config", "Cfg", "_", "-", " ", "1", ".", "{{", "}}", "{", "}", "{}", "{0}", "{nam}", "{name!r}",
              "{name:>9}", "é", "'", '"', "\\", "class", "v2", "{ name}", "{name.x}"]
ENTRY_NAMES = ["Alpha", "Beta", "gamma_fn", "Delta2", "epsilon", "Zeta_Model", "set_cli_args", "Config", "eta", "Theta"]
ID_ALPHABET = ["a", "B", "_", "1", "9", "-", " ", ".", "é", "名", "class", "def", "None", "x", "Z0", "'", "\\", "$"]
STR_ALPHABET = ["a", "B", "_", "1", "-", " ", ".", "é", "名", "'", '"', "\\", "\n", "\t", "\r", "\x00", "\x1f", "\x7f", "\x85", "\xa0", "\xad", "''", '""', "x"]
CLI_TEMPLATES = ["{name}Config", "{name}", "{name}_cfg", "Cfg{name}", "{name}Config", "{name}-cfg", "{name} Config", "{name}.v2", "1{name}", "é{name}",
                 "{name}Config", "{name}'s", "-1{name}", "{{{name}}}"]
PREPENDS = [None, None, None, "PREPENDED = 1\n", '"""Module doc"""\n', "from __future__ import annotations\nimport os\n",
            '"""Doc"""\nimport sys\nfrom __future__ import annotations\nX = 1\n', "import os", "# just a comment\n", "X = 1\nimport sys\n", ""]
IMPORT_FILES = [None, None, None, "import os\n", "from typing import Optional\n", "import os\nimport sys\n", "X = 1\n",
                '"""doc"""\nfrom collections import OrderedDict\n\n\ndef f():\n    import json\n']
ANNOTATIONS = ["int", "Optional[int]", "Optional[List[str]]", "Dict[str, Union[int, float]]", "Literal['a', 'b']", "List[Optional[str]]", "np.ndarray",
               "typing.Optional[int]", "Tuple[int, ...]", "Union[int, None]", "Union['Foo', int]", "Callable[[int], str]", "Annotated[int, 5]",
               "Dict[str, np.ndarray]", "int | None", "Optional[Union[int, Sequence[str]]]", "Tuple[()]", "Mapping[str, Any]", "Column", "Text",
               "Optional[Column]", "List[List[List[Set[int]]]]", "str", "Buffer", "Tuple[int,]", "Dict[str, a.b.c]", "Dict[str, x.y[int]]"]


def gen_tpl(r):
    return "".join(r.choice(TPL_PIECES) for _ in range(r.randint(0, 4)))


def gen_sym_src(r, kind=None):
    """Source of one generated-looking symbol for the import-inference ops."""
    kind = kind or r.choice(["class", "class", "func", "sqla", "table", "argparse"])
    nm = r.choice(ENTRY_NAMES)
    if kind == "class":
        body = ["    %s: %s%s" % (irgen.NAMES[i], r.choice(ANNOTATIONS), r.choice(["", " = None", " = 5"])) for i in range(r.randint(1, 3))]
        return "class %s(%s):\n    '''doc'''\n%s\n" % (nm, r.choice(["object", "Base", "Generic[T]"]), "\n".join(body))
    if kind == "func":
        args = ", ".join("%s: %s" % (irgen.NAMES[i], r.choice(ANNOTATIONS)) for i in range(r.randint(0, 3)))
        ret = r.choice(["", " -> Optional[int]", " -> Any"])
        return "def %s(%s)%s:\n    '''doc'''\n    return %s\n" % (nm, args, ret, r.choice(["None", "Optional", "x.Any", "f(Any=1)", "'List'"]))
    if kind == "sqla":
        cols = ["    %s = Column(%s, comment='the %s', default=%s, nullable=%s)" % (irgen.NAMES[i], r.choice(["Integer", "String", "ARRAY(String)", "Text", "Enum('a', 'b', name='x')", "JSON"]),
                                                                                  irgen.NAMES[i], r.choice(["5", "None", "'x'"]), r.choice(["True", "False"])) for i in range(r.randint(1, 3))]
        return "class %s(Base):\n    __tablename__ = '%s'\n%s\n" % (nm, nm, "\n".join(cols))
    if kind == "table":
        return "%s = Table('%s', metadata, Column('a', Integer, primary_key=True, server_default=Identity()), keep_existing=True)\n" % (nm, nm)
    return ("def %s(argument_parser):\n    '''doc'''\n    argument_parser.description = 'd'\n"
            "    argument_parser.add_argument('--a', type=%s, help='h', required=True)\n    return argument_parser\n" % (nm, r.choice(["int", "str", "Optional", "loads"])))


# ------------------------------------------------------------------------------------------------------------------
# component correspondence
# ------------------------------------------------------------------------------------------------------------------
def component_ops(chk: core.Check):
    r = chk.rng
    q = chk.quick
    reqs, impls, labels = [], [], []

    def add(label, req, impl):
        labels.append(label)
        reqs.append(req)
        impls.append(impl)

    # fmt
    cases = [(gen_tpl(r), r.choice(ENTRY_NAMES + ["infer", "", "a'b"])) for _ in range(1500 if q else 12000)]
    cases += [(t, "Alpha") for t in CLI_TEMPLATES]
    for c, i in zip(cases, map(impl_fmt, cases)):
        add("fmt", {"op": "c19.fmt", "tpl": c[0], "name": c[1]}, i)
    # ensure_valid_identifier / is-a-name
    ss = ["".join(r.choice(ID_ALPHABET) for _ in range(r.randint(0, 4))) for _ in range(1500 if q else 12000)] + keyword.kwlist + ["cl-ass", "-1a", "1a", ""]
    for s, i in zip(ss, map(impl_valid, ss)):
        if any(ord(c) > 127 and not c.isalpha() for c in s):
            continue
        add("valid", {"op": "c19.valid", "s": s}, i)
    # get_emit_kwarg + signature binding
    cases = [(e, t, n) for e in EMITS for t in ["{name}Config", "{name}-x", "{}", "{nam}", "}", "", "cl-ass", "1{name}"] for n in ["Alpha", "infer", "b_2"]]
    cases += [(r.choice(EMITS), gen_tpl(r), r.choice(ENTRY_NAMES + ["infer"])) for _ in range(300 if q else 3000)]
    for c, i in zip(cases, map(impl_kwargs, cases)):
        add("kwargs", {"op": "c19.kwargs", "emit": c[0], "tpl": c[1], "name": c[2]}, i)
    # get_parser / infer: classes with 0-3 bases in every order (Base first / middle / last, dotted, subscripted), functions whose
    # `argument_parser` parameter stands anywhere (or is keyword-only / positional-only / *args), async variants, a JSON dict
    cases = [(p, src) for p in PARSES for src in parser_sources() + [None]]
    for c, i in zip(cases, core.pmap(impl_parser, cases, chunksize=128)):
        add("parser", {"op": "c19.parser", "parse": c[0], "node": {"k": "json"} if c[1] is None else node_desc(ast.parse(c[1]).body[0])}, i)
    # file_to_input_mapping
    cases = []
    for _ in range(120 if q else 1200):
        parse = r.choice(PARSES)
        if r.random() < 0.15:
            cases.append((r.choice(["json_schema", "infer", "infer"]), None, r.choice(["a.json", "my_schema.json", "x.y.json"])))
            continue
        if parse == "json_schema":
            continue
        kinds = list(STMT_SRC)
        if r.random() < 0.7:
            kinds = [k for k in kinds if k != "assign"]
        body = [(r.choice(kinds), r.choice(["A", "b", "c_d", "A", "E"])) for _ in range(r.randint(0, 6))]
        cases.append((parse, body, None))
    for c, i in zip(cases, core.pmap(impl_mapping, cases, chunksize=16)):
        if c[2] is not None:
            add("mapping", {"op": "c19.mapping", "parse": c[0], "json_basename": c[2]}, i)
        else:
            add("mapping", {"op": "c19.mapping", "parse": c[0], "body": [{"name": n, "node": STMT_NODE[k]} for k, n in c[1]]}, i)
    # __all__ rendering
    ss = ["".join(r.choice(STR_ALPHABET) for _ in range(r.randint(0, 5))) for _ in range(1500 if q else 12000)] + ["Alpha-cfg", "'a'", '"a"', "''", "a\\b"]
    for s, i in zip(ss, map(impl_allentry, ss)):
        add("allentry", {"op": "c19.allentry", "s": s}, i)
    # docstring truthiness
    ss = ["".join(r.choice(["a", " ", "\n", "\t", "  ", "x\n", "\r"]) for _ in range(r.randint(0, 5))) for _ in range(400 if q else 3000)]
    for s, i in zip(ss, map(impl_doc, ss)):
        add("doc", {"op": "c19.doc", "s": s}, i)
    # get_types
    for a, i in zip(ANNOTATIONS, map(impl_gettypes, ANNOTATIONS)):
        add("gettypes", {"op": "c19.gettypes", "ann": a}, i)
    # infer_imports / optimise_imports
    cases = [[gen_sym_src(r) for _ in range(r.randint(1, 3))] for _ in range(500 if q else 5000)]
    cases += [["class A(object):\n    a: %s = None\n" % a] for a in ANNOTATIONS]
    cases += [["class A(object):\n    a: Optional[int] = None\n", "class B(object):\n    b: %s = None\n" % a] for a in ANNOTATIONS]
    for c, i in zip(cases, core.pmap(impl_infer, cases, chunksize=64)):
        add("infer", {"op": "c19.infer", "tables": tables_for(c), "stmts": [pyast.module_to_json(s)[0] for s in c]}, i)
    # gen_module assembly
    cases = []
    for _ in range(400 if q else 4000):
        syms = [gen_sym_src(r, r.choice(["class", "sqla", "argparse", "table"])) for _ in range(r.randint(0, 3))]
        cases.append({"syms": syms, "all": [r.choice(ENTRY_NAMES + ["A-b", "x y", "a'b"]) for _ in syms], "infer": r.random() < 0.4,
                      "prepend": r.choice(PREPENDS), "file_src": r.choice(IMPORT_FILES)})
    for c, i in zip(cases, core.pmap(impl_assemble, cases, chunksize=32)):
        add("assemble", assemble_req(c), i)
    model = core.model_batch(reqs)
    stats = {}
    for lab, rq, im, mo in zip(labels, reqs, impls, model):
        st = stats.setdefault(lab, {"n": 0, "outside": 0, "bad": 0})
        st["n"] += 1
        chk.count((lab, json.dumps(rq, sort_keys=True)), True)
        ok, outside = compare_component(lab, im, mo)
        if outside:
            st["outside"] += 1
        elif not ok:
            st["bad"] += 1
            chk.disagreement("C19 correspondence: %s" % lab, rq, im, mo)
    for lab, st in stats.items():
        chk.oblige("correspondence %s: model = real code on %d cases (%d outside the model)" % (lab, st["n"], st["outside"]), "correspondence",
                   st["bad"] == 0, "%d disagreements" % st["bad"])
    chk.coverage["component_cases"] = stats


def prepend_json(p):
    if p is None:
        return None
    return {"stmts": pyast.module_to_json(p), "complete": p == "" or p.endswith("\n")}


def file_imports_json(src):
    if src is None:
        return None
    return [pyast.stmt_to_json(n) for n in ast.parse(src).body if isinstance(n, (ast.Import, ast.ImportFrom))]


def assemble_req(c):
    texts = list(c["syms"])
    return {"op": "c19.assemble", "syms": [pyast.module_to_json(s)[0] for s in c["syms"]], "all": c["all"], "infer_imports": c["infer"],
            "prepend": prepend_json(c["prepend"]), "file_imports": file_imports_json(c["file_src"]), "tables": tables_for(texts),
            "tpl": "", "parse": "class", "emit": "class"}


def compare_component(lab, im, mo):
    """(agree, model-abstains)"""
    if "error" in mo and isinstance(mo["error"], str) and mo["error"].startswith("outside:"):
        return True, True
    if lab in ("fmt", "parser", "mapping", "infer", "gettypes"):
        return im == mo, False
    if lab == "valid":
        return im == mo, False
    if lab == "kwargs":
        if "error" in im or "error" in mo:
            return im == mo, False
        m = dict(mo["ok"])
        m["keys"] = sorted(m["keys"])
        return im["ok"] == m, False
    if lab == "allentry":
        return im["roundtrip"] and im["entry"] == mo["entry"] and im["repr"] == mo["repr"], False
    if lab == "doc":
        return im == mo, False
    if lab == "assemble":
        return im == mo, False
    return False, False


# ------------------------------------------------------------------------------------------------------------------
# the real CLI
# ------------------------------------------------------------------------------------------------------------------
# output arguments that reach an EXISTING file (models.py, pre-created with the sentinel) only through some normalisation:
# literal `~` (HOME is the case's temp dir), `./` `../` segments, duplicate / trailing slashes, a symlink, absolute variants.
# `{abs}` = the case's temp dir.  (spelling, class)
OUT_SPELLINGS = [("~/models.py", "tilde"), ("~//models.py", "tilde"), ("~/sub/../models.py", "tilde"), ("./models.py", "relative"), ("sub/../models.py", "relative"),
                 (".//models.py", "dup-slash"), ("sub//..//models.py", "dup-slash"), ("models.py/", "trailing-slash"), ("./models.py//", "trailing-slash"),
                 ("link.py", "symlink"), ("./sub/../link.py", "symlink"), ("{abs}//models.py", "dup-slash"), ("{abs}/sub/../models.py", "relative"),
                 ("{abs}/link.py", "symlink"), ("{abs}/models.py/", "trailing-slash")]
SPELL_CLASS = dict(OUT_SPELLINGS)


def make_layout(d):
    """models.py (sentinel), sub/, link.py -> models.py"""
    Path(os.path.join(d, "models.py")).write_text(SENTINEL)
    os.mkdir(os.path.join(d, "sub"))
    os.symlink("models.py", os.path.join(d, "link.py"))


def snapshot(d):
    """regular files below d (symlinks not followed): relative path -> bytes"""
    snap = {}
    for root, dirs, files in os.walk(d):
        for f in files:
            p = os.path.join(root, f)
            rel = os.path.relpath(p, d)
            snap[rel] = ("link:" + os.readlink(p)).encode() if os.path.islink(p) else Path(p).read_bytes()
    return snap


ASCII_ID = re.compile(r"^[A-Za-z_][A-Za-z0-9_]*$")
SENTINEL = "# SENTINEL: this file existed before gen ran\nKEEP = 'untouched'\n"
JSON_NAMES = ["alpha", "my_schema", "Foo", "x.y"]


def _ir(r, name):
    ir = irgen.gen_ir(r, nparams=r.randint(1, 4), name=name, kinds=("scalar", "scalar", "optional", "literal", "list", "union", "nested"))
    return ir


def _gen_typ(r, kinds):
    k = r.choice(kinds)
    if k == "nested":
        return r.choice(["Optional[List[str]]", "Dict[str, Union[int, float]]", "List[Optional[int]]", "Optional[Dict[str, int]]"])
    if k == "fwdref":
        # subscripts that mix names with string constants (forward references, Annotated metadata): not a Literal, so no `choices`
        return r.choice(['Union[int, "Node"]', 'Tuple[int, "Node"]', 'Dict[str, "Node"]', 'Annotated[int, "meters"]', 'Optional["Node"]', 'List["Node"]'])
    return irgen.gen_typ(r, kinds=(k,))


KINDS_PLAIN = ("scalar", "scalar", "optional", "literal", "list", "union", "nested")
KINDS_FWD = KINDS_PLAIN + ("scalar", "fwdref")  # only where the emit kind can express an arbitrary annotation (not the SQLAlchemy / JSON-schema type tables)


def make_ir(r, name, kinds=KINDS_PLAIN):
    n = r.randint(1, 4)
    params = {}
    for nm in r.sample(irgen.NAMES, n):
        typ = _gen_typ(r, kinds)
        p = {"typ": typ, "doc": r.choice(irgen.DOCS)}
        if r.random() < 0.5:
            d = irgen.gen_default(r, typ)
            if d is not None:
                p["default"] = d
        params[nm] = p
    ret = None
    if r.random() < 0.3:
        ret = {"return_type": {"typ": _gen_typ(r, ("scalar", "optional", "list")), "doc": r.choice(irgen.DOCS)}}
    return {"name": name, "doc": r.choice(["Summary line.", "Summary line.\n\nLonger description here."]), "params": params, "returns": ret, "type": "static"}


PLAIN_BASES = ["object", "BaseModel", "Generic[T]", "mixins.Timestamped", "TimestampMixin", "abc.ABC", "Serializable"]
SQLA_MIXINS = ["TimestampMixin", "mixins.Timestamped", "Serializable", "Generic[T]", "AuditMixin"]
CLASS_DECOS = ["dataclass", "dataclass(frozen=True)", "total_ordering"]
FN_DECOS = ["cache", "lru_cache(maxsize=None)", "deprecated"]
SQLA_TYPES = ("scalar", "scalar", "optional", "literal")


def _expr(src):
    return ast.parse(src, mode="eval").body


def entry_source(ekind, ir, r=None):
    """A *generated* class / function / argparse function / SQLAlchemy class / hybrid class / Table: the real emitters' output for a random
    interface, with the header a user would give it (bases and mixins in any order, keywords, decorators, `async`)."""
    _cdd()
    import cdd.argparse_function.emit
    import cdd.class_.emit
    import cdd.function.emit
    import cdd.sqlalchemy.emit
    from collections import OrderedDict

    ir = copy.deepcopy(ir)
    ir["params"] = OrderedDict(ir["params"])
    if ir["returns"]:
        ir["returns"] = OrderedDict(ir["returns"])
    nm = ir["name"]
    if ekind == "class":
        node = cdd.class_.emit.class_(ir, class_name=nm, emit_default_doc=False)
        if r is not None and r.random() < 0.7:
            node.bases = [_expr(b) for b in r.sample(PLAIN_BASES, r.randint(0, 3))]
            if r.random() < 0.15:
                node.keywords = [ast.keyword(arg="metaclass", value=_expr("ABCMeta"))]
    elif ekind in ("sqlalchemy", "hybrid"):
        ir["returns"] = None
        emitter = cdd.sqlalchemy.emit.sqlalchemy if ekind == "sqlalchemy" else cdd.sqlalchemy.emit.sqlalchemy_hybrid
        node = emitter(ir, class_name=nm, table_name=nm.lower() + "_tbl", emit_default_doc=False)
        bases = r.sample(SQLA_MIXINS, r.randint(0, 2)) if r is not None and r.random() < 0.75 else []
        bases.insert(r.randint(0, len(bases)) if r is not None else 0, "Base")  # Base first / middle / last
        node.bases = [_expr(b) for b in bases]
    elif ekind == "table":
        ir["returns"] = None
        node = cdd.sqlalchemy.emit.sqlalchemy_table(ir, name=nm, table_name=nm, emit_default_doc=False)
    elif ekind in ("function", "async_function"):
        node = cdd.function.emit.function(ir, function_name=nm, function_type="static", emit_default_doc=False)
        if ekind == "async_function":
            node = ast.AsyncFunctionDef(**{f: getattr(node, f) for f in ("name", "args", "body", "decorator_list", "returns")}, type_comment=None, type_params=[])
    else:
        node = cdd.argparse_function.emit.argparse_function(ir, function_name=nm, emit_default_doc=False)
    if r is not None and r.random() < 0.2 and isinstance(node, (ast.ClassDef, ast.FunctionDef, ast.AsyncFunctionDef)):
        node.decorator_list = [_expr(r.choice(CLASS_DECOS if isinstance(node, ast.ClassDef) else FN_DECOS))]
    src = ast.unparse(ast.fix_missing_locations(node))
    ast.parse(src)
    return src


def true_kind(n):
    """The kind of a source entry by an independent reading (stdlib ast): a class is SQLAlchemy when ANY plain-name base is `Base`
    (hybrid when it assigns `__table__`), a function is an argparse function when a positional parameter is `argument_parser`."""
    if isinstance(n, ast.ClassDef):
        if any(isinstance(b, ast.Name) and b.id == "Base" for b in n.bases):
            hyb = any(isinstance(x, ast.Assign) and any(isinstance(t, ast.Name) and t.id == "__table__" for t in x.targets) for x in n.body)
            return "hybrid" if hyb else "sqlalchemy"
        return "class"
    if isinstance(n, (ast.FunctionDef, ast.AsyncFunctionDef)):
        return "argparse" if any(a.arg == "argument_parser" for a in n.args.args) else "function"
    if isinstance(n, (ast.Assign, ast.AnnAssign)) and isinstance(n.value, ast.Call) and isinstance(n.value.func, ast.Name) and n.value.func.id == "Table":
        return "table"
    return None


# node classes `file_to_input_mapping` selects per --parse (kind2instance_type), and the source kinds each parser is meant for
SELECTS = {"class": (ast.ClassDef,), "pydantic": (ast.ClassDef,), "sqlalchemy": (ast.ClassDef,), "sqlalchemy_hybrid": (ast.ClassDef,),
           "function": (ast.FunctionDef, ast.AsyncFunctionDef), "argparse": (ast.FunctionDef,), "sqlalchemy_table": (ast.Assign, ast.AnnAssign),
           "infer": (ast.ClassDef, ast.FunctionDef, ast.AsyncFunctionDef, ast.Assign, ast.AnnAssign)}
MEANT_FOR = {"class": {"class"}, "pydantic": {"class"}, "sqlalchemy": {"sqlalchemy"}, "sqlalchemy_hybrid": {"hybrid"}, "function": {"function"},
             "argparse": {"argparse"}, "sqlalchemy_table": {"table"}, "infer": {"class", "sqlalchemy", "hybrid", "function", "argparse", "table"}}


def selected_entries(src, parse):
    """[(key, true kind, node)] of the statements --parse selects, or None when the parser is not meant for one of them (e.g. `--parse class`
    on a module that holds a SQLAlchemy class): such a configuration reads an entry as something it is not and is outside the quantifier."""
    out = []
    for n in ast.parse(src).body:
        if isinstance(n, SELECTS[parse]):
            tk = true_kind(n)
            if tk is None or tk not in MEANT_FOR[parse]:
                return None
            out.append((getattr(n, "name", None) or (sym_name(n) or ""), tk, n))
    return out


def gen_cli_case(r, k):
    kind = r.choice(["class", "class", "class", "function", "function", "argparse", "json", "mixed", "sqlalchemy", "sqlalchemy", "hybrid", "table", "zoo", "zoo"])
    n = 1 if r.random() < 0.35 else r.randint(2, 5)
    case = {"id": k, "kind": kind, "emit": r.choice(EMITS), "tpl": r.choice(CLI_TEMPLATES), "infer": r.random() < 0.4,
            "prepend": r.choice(PREPENDS), "imports_file": r.choice(IMPORT_FILES), "exists": r.random() < 0.2, "phase": 0, "json_basename": None}
    case["out_spelling"] = None
    if r.random() < 0.15:
        # an output argument that names the pre-created models.py through `~`, `./`, `../`, `//`, a trailing slash or a symlink
        case["out_spelling"] = r.choice(OUT_SPELLINGS)[0]
        case["exists"] = True
    if r.random() < 0.12 and not case["out_spelling"]:
        # the region where import inference can succeed at all: one symbol, one module table, no second import statement
        kind, n = r.choice(["class", "function"]), 1
        case.update(kind=kind, emit=r.choice(["class", "class", "sqlalchemy", "sqlalchemy_table"]), infer=True, imports_file=r.choice([None, None, "X = 1\n"]),
                    prepend=r.choice([None, "PREPENDED = 1\n", '"""Module doc"""\n', "from __future__ import annotations\nimport os\n"]), exists=False)
    if kind == "json":
        import cdd.json_schema.emit
        from collections import OrderedDict

        nm = r.choice(JSON_NAMES)
        # a JSON-schema *file*: only interfaces whose types JSON schema can express (scalars, enumerations)
        ir = make_ir(r, nm, kinds=("scalar", "scalar", "literal", "optional"))
        ir["params"] = OrderedDict(ir["params"])
        ir["returns"] = None
        case["json_basename"] = nm + ".json"
        sch = cdd.json_schema.emit.json_schema(ir, "https://example.com/%s.schema.json" % nm)
        # the smallest legal schemas: an object without properties and / or without description
        shape = r.random()
        if shape < 0.12:
            sch = {k: v for k, v in sch.items() if k in ("$id", "$schema", "type")}
        elif shape < 0.2:
            sch.pop("description", None)
        elif shape < 0.28:
            sch = {k: v for k, v in sch.items() if k in ("$id", "$schema", "type", "description")}
        case["input_text"] = json.dumps(sch)
        case["parse"] = r.choice(["json_schema", "json_schema", "infer"])
        return case
    names = r.sample(ENTRY_NAMES, n)
    mixed_parse = r.choice(["infer", "class", "function"])
    # an argparse function read with `--parse function` is a different interface (one parameter `argument_parser`): keep it out of that mix
    mixed_kinds = ["class", "function"] if mixed_parse == "function" else ["class", "function", "argparse"]
    if kind == "zoo":
        # entries whose (inferred) kind differs within one module: class + function + SQLAlchemy class + hybrid + Table + async
        ekinds = [r.choice(["class", "class", "function", "function", "sqlalchemy", "sqlalchemy", "hybrid", "table", "async_function", "argparse"]) for _ in names]
    elif kind == "function":
        ekinds = ["async_function" if r.random() < 0.12 else "function" for _ in names]
    else:
        ekinds = [kind if kind != "mixed" else r.choice(mixed_kinds) for _ in names]
    srcs = []
    for nm, ek in zip(names, ekinds):
        for _ in range(20):
            try:
                srcs.append(entry_source(ek, make_ir(r, nm, kinds=SQLA_TYPES) if ek in ("sqlalchemy", "hybrid", "table") else make_ir(r, nm, kinds=KINDS_FWD if case["emit"] in ("argparse", "class") else KINDS_PLAIN), r))
                break
            except Exception:  # noqa  (an interface the emitter of the *input* format cannot write: draw another)
                continue
        else:
            raise core.HarnessError("could not generate an input entry of kind %s" % ek)
    head = r.choice(["", "from typing import Dict, List, Literal, Optional, Union\n\n\n", '"""Input module"""\n\nimport os\n\n\n'])
    case["input_text"] = head + "\n\n\n".join(srcs) + "\n"
    explicit = {"class": ["class", "class", "pydantic"], "function": ["function"], "argparse": ["argparse"], "sqlalchemy": ["sqlalchemy"], "hybrid": ["sqlalchemy_hybrid"],
                "table": ["sqlalchemy_table"], "mixed": [mixed_parse], "zoo": [p for p in PARSES if p not in ("json_schema", "infer")]}[kind]
    case["parse"] = r.choice(explicit) if r.random() < (0.4 if kind == "zoo" else 0.6) else "infer"
    if not oracle_entries(case):
        case["parse"] = "infer"  # the quantifier starts at one entry, read by the parser meant for it
    return case


def twin_of(case):
    """The same configuration with the explicit --parse kind that `infer` should arrive at (None when there is no single such kind)."""
    if case["parse"] != "infer" or case["exists"] or case.get("out_spelling") or case.get("json_basename"):
        return None
    ents = oracle_entries(case)
    kinds = {tk for _, tk, _ in ents}
    if len(kinds) != 1:
        return None
    p = {"class": "class", "sqlalchemy": "sqlalchemy", "hybrid": "sqlalchemy_hybrid", "function": "function"}.get(next(iter(kinds)))
    if p is None:
        return None
    t = dict(case, parse=p)
    if [e[0] for e in (oracle_entries(t) or [])] != [e[0] for e in ents]:
        return None
    return t


def body_desc(src):
    return [{"name": getattr(n, "name", ""), "node": node_desc(n)} for n in ast.parse(src).body]


def compute_world(case, inp_path):
    """Per-entry results of the real per-format parser and emitter (the model's parameters)."""
    from cdd.compound.gen_utils import file_to_input_mapping, get_emit_kwarg
    from cdd.shared.emit.utils.emitter_utils import get_emitter
    from cdd.shared.parse.utils.parser_utils import get_parser
    from cdd.shared.pure_utils import sanitise_emit_name

    try:
        mapping = file_to_input_mapping(inp_path, case["parse"])
    except Exception:  # noqa
        return []
    emit = sanitise_emit_name(case["emit"])
    world = []
    for name, node in mapping.items():
        w = {"name": name}
        world.append(w)
        try:
            parser = get_parser(node, case["parse"])
        except Exception:  # noqa
            w["parse_error"] = "unavailable"
            continue
        try:
            ir = parser(copy.deepcopy(node))
        except Exception as e:  # noqa
            w["parse_error"] = exc(e)
            continue
        w["ir_name"] = ir.get("name") or ""
        w["ir_params"] = list(ir.get("params") or {})
        w["ir_returns"] = bool(ir.get("returns"))
        try:
            kw = get_emit_kwarg(None, False, emit, case["tpl"], name)
        except Exception:  # noqa
            w["emit_error"] = "unavailable"
            continue
        try:
            out = get_emitter(emit)(copy.deepcopy(ir), emit_default_doc=True, word_wrap=False, **kw)
        except Exception as e:  # noqa
            w["emit_error"] = exc(e)
            continue
        if isinstance(out, ast.AST):
            w["stmt"] = pyast.stmt_to_json(out)
            w["stmt_src"] = ast.unparse(ast.fix_missing_locations(out))
            # an emitter may put a whole expression into one `Name.id`; the unparsed text then has other Name nodes than the tree
            try:
                ids = lambda t: sorted(x.id for x in ast.walk(t) if isinstance(x, ast.Name))  # noqa: E731
                w["improper"] = ids(out) != ids(ast.parse(w["stmt_src"]))
            except SyntaxError:
                w["improper"] = False
        else:
            w["json_id"] = out.get("$id")
            try:
                from cdd.shared.pure_utils import SetEncoder

                json.dumps(out, cls=SetEncoder)
            except TypeError:
                w["json_not_serialisable"] = True  # the IR carries an AST node (e.g. server_default=Identity()): json.dump fails after the file is open
    return world


def cli_args(case, inp, out, impf):
    a = ["--name-tpl=" + case["tpl"], "--input-mapping", inp, "--parse", case["parse"], "--emit", case["emit"], "-o", out]
    if case["infer"]:
        a.append("--emit-and-infer-imports")
    if case["prepend"] is not None:
        a.append("--prepend=" + case["prepend"].encode("unicode_escape").decode("ascii"))
    if impf is not None:
        a += ["--imports-from-file", impf]
    if case.get("phase"):
        a += ["--phase", str(case["phase"])]
    return a


def run_cli_case(case):
    """Run the real CLI in a fresh temp dir; also compute the per-entry parameters in-process."""
    _cdd()
    d = tempfile.mkdtemp(prefix="c19_", dir=case["tmp"])
    try:
        inp = os.path.join(d, case.get("json_basename") or "inp.py")
        Path(inp).write_text(case["input_text"])
        out = os.path.join(d, "out.json" if case["emit"] == "json_schema" else "out.py")
        impf = None
        if case["imports_file"] is not None:
            impf = os.path.join(d, "imps.py")
            Path(impf).write_text(case["imports_file"])
        if case["exists"] and not case.get("out_spelling"):
            Path(out).write_text(SENTINEL)
        out_arg = out
        fs = {"isfile": bool(case["exists"]), "open_error": None}
        if case.get("out_spelling"):
            # the argument reaches the pre-created models.py only through a normalisation; file-system facts about the RAW string are
            # measured with os.path / open (the OS's resolution, no `~`), the open probe on a replica of the layout
            make_layout(d)
            out_arg = case["out_spelling"].replace("{abs}", d)
            out = os.path.join(d, "models.py")
            fs["isfile"] = os.path.isfile(os.path.join(d, out_arg))
            d2 = tempfile.mkdtemp(prefix="c19r_", dir=case["tmp"])
            try:
                make_layout(d2)
                try:
                    open(os.path.join(d2, case["out_spelling"].replace("{abs}", d2)), "a").close()
                except OSError as e:
                    fs["open_error"] = type(e).__name__
            finally:
                shutil.rmtree(d2, ignore_errors=True)
        resolved = os.path.relpath(os.path.realpath(os.path.join(d, out_arg)), os.path.realpath(d))
        before = snapshot(d)
        # HOME and cwd are the case's temp dir: the real home is never touched
        env = dict(os.environ, PYTHONPATH=str(core.REPO), PYTHONHASHSEED="0", HOME=d)
        try:
            p = subprocess.run([core.PY, "-m", "cdd", "gen"] + cli_args(case, inp, out_arg, impf), stdout=subprocess.PIPE, stderr=subprocess.PIPE,
                               text=True, env=env, cwd=d, timeout=120)
        except subprocess.TimeoutExpired:
            return {"timeout": True}
        after = snapshot(d)
        err_lines = [l for l in p.stderr.split("\n") if l.strip()]
        last = err_lines[-1] if err_lines else ""
        m = re.match(r"^([A-Za-z_][\w.]*)(?::\s*(.*))?$", last)
        if p.returncode < 0 or (p.returncode != 0 and not m) or (m and p.returncode and m.group(1).split(".")[-1] in ("MemoryError", "KeyboardInterrupt")):
            # killed by a signal / out of memory / no Python exception on stderr: the machine, not `gen` (exit 2, never a verdict)
            return {"timeout": True, "why": "rc=%s, stderr ends with %r" % (p.returncode, last[:200])}
        res = {"rc": p.returncode, "exc": (m.group(1).split(".")[-1] if m and p.returncode else None), "msg": (m.group(2) or "" if m else last)[:160],
               "stderr_tail": "\n".join(err_lines[-6:])[-800:], "out": Path(out).read_text() if os.path.isfile(out) else None,
               "other_files": sorted(f for f in os.listdir(d) if f not in (os.path.basename(inp), os.path.basename(out), "imps.py")),
               "fs": fs, "resolved_out": resolved,
               "modified": sorted(set(k for k in after if before.get(k) != after[k]) | set(k for k in before if k not in after))}
        try:
            devnull = open(os.devnull, "w")
            import contextlib
            with contextlib.redirect_stdout(devnull), contextlib.redirect_stderr(devnull):
                res["world"] = compute_world(case, inp)
        except Exception as e:  # noqa
            res["world_error"] = repr(e)[:300]
            res["world"] = []
        return res
    finally:
        shutil.rmtree(d, ignore_errors=True)


def gen_request(case, res):
    body = None if case.get("json_basename") else body_desc(case["input_text"])
    texts = [w.get("stmt_src", "") for w in res["world"]]
    rq = {"op": "c19.gen", "tpl": case["tpl"], "parse": case["parse"], "emit": case["emit"], "infer_imports": case["infer"],
          "prepend": prepend_json(case["prepend"]), "file_imports": file_imports_json(case["imports_file"]), "tables": tables_for(texts),
          "world": [{k: v for k, v in w.items() if k in ("name", "ir_name", "parse_error", "emit_error", "stmt", "json_not_serialisable")} for w in res["world"]],
          "exists": res["fs"]["isfile"], "phase": case.get("phase", 0), "output": case.get("out_spelling") or "out"}
    if res["fs"]["open_error"]:
        rq["open_error"] = res["fs"]["open_error"]
    if body is None:
        rq["json_basename"] = case["json_basename"]
    else:
        rq["body"] = body
    return rq


def real_view(case, res):
    """The same view of the real run as the model's reply: effect kinds, the files created / changed, the written content."""
    v = {"trace": ["isfile", "raise:%s" % res["exc"]] if res["rc"] else ["isfile", "append"], "modified": res["modified"]}
    if res["rc"] or case["exists"] or case.get("out_spelling"):
        return v
    if case["emit"] == "json_schema":
        try:
            d = json.loads(res["out"])
            sch = d["schemas"] if isinstance(d, dict) and "schemas" in d else [d]
            v["run"] = {"ids": [s.get("$id") for s in sch], "wrapped": isinstance(d, dict) and "schemas" in d}
        except Exception as e:  # noqa
            v["run"] = {"unreadable": repr(e)[:200]}
    else:
        try:
            v["run"] = {"module": pyast.module_to_json(res["out"])}
        except (SyntaxError, TypeError) as e:
            v["run"] = {"unreadable": repr(e)[:200]}
    return v


def model_view(case, res, mo):
    if "error" in mo:
        return {"model_error": mo["error"]}
    want_path = case.get("out_spelling") or "out"
    kinds, wrote, bad_path = [], False, []
    for ev in mo["trace"]:
        if len(ev) > 1 and ev[1] != want_path:
            bad_path.append(ev)  # every path of the trace is the raw argument (theorem guard_tests_what_is_written)
        if ev[0] == "open-append":
            # open(p, "a") creates the file when it is new; on an existing one it changes nothing by itself
            continue
        if ev[0] == "write":
            wrote = True
            kinds.append("append")
        else:
            kinds.append(ev[0])
    raises = [k for k in kinds if k.startswith("raise:")]
    if wrote and raises:
        kinds = ["isfile", raises[-1]]  # json.dump failed half-way: the process ends with the exception, the file is already changed
    v = {"trace": kinds, "modified": [res["resolved_out"]] if wrote else []}
    if bad_path:
        v["path_not_the_argument"] = bad_path
    if wrote and not raises and not (case["exists"] or case.get("out_spelling")) and "error" not in mo["run"]:
        v["run"] = {k: x for k, x in mo["run"].items() if k != "dump_fails"}
    return v


def sym_name(n):
    if isinstance(n, (ast.ClassDef, ast.FunctionDef, ast.AsyncFunctionDef)):
        return n.name
    if isinstance(n, ast.Assign) and len(n.targets) == 1 and isinstance(n.targets[0], ast.Name):
        return n.targets[0].id
    if isinstance(n, ast.AnnAssign) and isinstance(n.target, ast.Name):
        return n.target.id
    return None


def oracle_entries(case):
    """The entries of the input mapping, by the documented meaning of --parse (computed without cdd): [(key, true kind, node)];
    empty when nothing is selected or when the chosen parser is not meant for a selected entry."""
    if case.get("json_basename"):
        return [(case["json_basename"], "json", None)]
    return selected_entries(case["input_text"], case["parse"]) or []


SQL2CAT = {"Integer": "int", "BigInteger": "int", "SmallInteger": "int", "String": "str", "Text": "str", "Unicode": "str", "Float": "float", "Numeric": "float",
           "Boolean": "bool", "Enum": "literal"}
JSON2CAT = {"integer": "int", "number": "float", "string": "str", "boolean": "bool"}


def pycat(t):
    """scalar category of a Python type string: int | float | str | bool | literal | other (Optional[...] is looked through)"""
    if not isinstance(t, str):
        return "other"
    t = t.strip()
    while t.startswith("Optional[") and t.endswith("]"):
        t = t[9:-1].strip()
    if t in ("int", "float", "str", "bool"):
        return t
    return "literal" if t.startswith("Literal[") else "other"


def _column(call, named):
    args = list(call.args)
    name = None
    if named and args and isinstance(args[0], ast.Constant) and isinstance(args[0].value, str):
        name = args.pop(0).value
    t = args[0] if args else None
    tn = t.id if isinstance(t, ast.Name) else (t.func.id if isinstance(t, ast.Call) and isinstance(t.func, ast.Name) else None)
    return name, SQL2CAT.get(tn, "other")


def _is_call(x, fname):
    return isinstance(x, ast.Call) and isinstance(x.func, ast.Name) and x.func.id == fname


def read_source(tk, node, case):
    """Independent reading of a source entry with stdlib `ast` / `json` only: parameter names in order (a return entry is `return_type`, last)
    and the scalar category of each type.  SQLAlchemy classes: the `Column(...)` assignments, their first type argument."""
    names, cats = [], {}
    if tk == "json":
        d = json.loads(case["input_text"])
        for k, v in d.get("properties", {}).items():
            names.append(k)
            cats[k] = "literal" if ("enum" in v or "pattern" in v) else JSON2CAT.get(v.get("type"), "other")
        return names, cats
    if tk == "class":
        ret = False
        for x in node.body:
            if isinstance(x, ast.AnnAssign) and isinstance(x.target, ast.Name):
                if x.target.id == "return_type":
                    ret = True
                    continue
                names.append(x.target.id)
                cats[x.target.id] = pycat(ast.unparse(x.annotation))
        return names + (["return_type"] if ret else []), cats
    if tk == "sqlalchemy":
        for x in node.body:
            if isinstance(x, ast.Assign) and len(x.targets) == 1 and isinstance(x.targets[0], ast.Name) and _is_call(x.value, "Column"):
                names.append(x.targets[0].id)
                cats[x.targets[0].id] = _column(x.value, False)[1]
        return names, cats
    if tk in ("hybrid", "table"):
        call = node.value if tk == "table" else next(x.value for x in node.body if isinstance(x, ast.Assign) and any(isinstance(t, ast.Name) and t.id == "__table__" for t in x.targets))
        for a in call.args[2:]:
            if _is_call(a, "Column"):
                nm, cat = _column(a, True)
                names.append(nm)
                cats[nm] = cat
        return names, cats
    if tk == "function":
        a = node.args
        for x in a.posonlyargs + a.args + a.kwonlyargs:
            names.append(x.arg)
            cats[x.arg] = pycat(ast.unparse(x.annotation)) if x.annotation is not None else "other"
        return names + (["return_type"] if node.returns is not None else []), cats
    # argparse functions: no CLI path reads them (--parse argparse and infer both fail): cdd's own reading
    return interface_of("argparse", node)


def interface_of(kind, node):
    """Parameter names (in order) and type categories of a symbol, read by cdd's own parser for that format."""
    import cdd.argparse_function.parse
    import cdd.class_.parse
    import cdd.function.parse
    import cdd.json_schema.parse
    import cdd.sqlalchemy.parse

    fn = {"class": cdd.class_.parse.class_, "function": cdd.function.parse.function, "argparse": cdd.argparse_function.parse.argparse_ast,
          "json": cdd.json_schema.parse.json_schema, "json_schema": cdd.json_schema.parse.json_schema, "sqlalchemy": cdd.sqlalchemy.parse.sqlalchemy,
          "sqlalchemy_hybrid": cdd.sqlalchemy.parse.sqlalchemy_hybrid, "sqlalchemy_table": cdd.sqlalchemy.parse.sqlalchemy_table}[kind]
    ir = fn(copy.deepcopy(node))
    names = list(ir.get("params") or {})
    cats = {k: pycat(v.get("typ")) for k, v in (ir.get("params") or {}).items()}
    if ir.get("returns"):
        names.append("return_type")
    return names, cats


def compare_interface(fail, what, via, emit, src, out):
    """names in order (modulo the primary key `id` the SQLAlchemy emitters add), then the scalar category of every shared parameter"""
    (src_if, src_cat), (out_if, out_cat) = src, out
    if emit in SQL and "id" in out_if and "id" not in src_if:
        out_if = [x for x in out_if if x != "id"]  # ensure_has_primary_key: the stated normalisation of C05
    if src_if != out_if:
        fail("interface", "%s has parameters %s, source entry has %s" % (what, out_if, src_if), via=via,
             lost=",".join(x for x in src_if if x not in out_if), gained=",".join(x for x in out_if if x not in src_if))
        return
    for k in src_if:
        a, b = src_cat.get(k, "other"), out_cat.get(k, "other")
        if (a != "other" and b != a) or (b == "literal" and a != "literal"):  # an enumeration (choices / Literal / Enum) may only come from an enumeration
            fail("interface-type", "%s: parameter %r is %s in the source entry and %s in the generated symbol" % (what, k, a, b), via=via, src_type=a, out_type=b)
            return


def syntax_cause(case, res):
    tail = res.get("stderr_tail", "")
    lines = tail.split("\n")
    src_line = ""
    for i, l in enumerate(lines):
        if l.lstrip().startswith("File ") and i + 1 < len(lines):
            src_line = lines[i + 1].strip()
    pre = case["prepend"]
    if pre and not pre.endswith("\n") and src_line.startswith(pre.split("\n")[-1]) and len(src_line) > len(pre.split("\n")[-1]):
        return "prepend-glued-to-imports"
    if len(re.findall(r"import\b", src_line)) >= 2:
        nfile = len(file_imports_json(case["imports_file"]) or [])
        return "imports-glued:" + ("file+file" if nfile >= 2 else "file+inferred" if nfile == 1 else "inferred+inferred")
    m = re.match(r"^(class|def)\s+([^(:]*)", src_line)
    if m and not (m.group(2).strip().isidentifier() and not keyword.iskeyword(m.group(2).strip())):
        return "symbol-name-not-identifier"
    return "other"


def oracle(case, res):
    """The property itself on the real run: list of (signature, description)."""
    base = {"emit": case["emit"], "family": "sqlalchemy" if case["emit"] in SQL else case["emit"], "parse": case["parse"], "input": case["kind"], "infer": case["infer"]}
    fails = []

    def fail(kind, what, **kw):
        sig = dict(base, kind=kind)
        sig.update(kw)
        fails.append((sig, what))

    if res.get("timeout"):
        fail("timeout", "gen did not finish in 120 s")
        return fails
    if case["exists"] or case.get("out_spelling"):
        sp = SPELL_CLASS.get(case.get("out_spelling"), "plain")
        if res["rc"] == 0:
            fail("guard", "gen completed although --output-filename=%s reaches an existing file" % (case.get("out_spelling") or "<existing path>"), spelling=sp)
        if res["out"] != SENTINEL or res.get("modified"):
            fail("guard", "existing output file was modified (files changed: %s)" % res.get("modified"), spelling=sp)
        return fails
    if not oracle_entries(case):
        return fails  # an empty input mapping is outside the quantifier (1..5 entries)
    if res["rc"] != 0:
        cause = syntax_cause(case, res) if res["exc"] == "SyntaxError" else ""
        stage = "gen"
        for w in res.get("world", []):
            if w.get("parse_error") == res["exc"]:
                stage = "entry-parser"
            elif w.get("emit_error") == res["exc"]:
                stage = "entry-emitter"
        msg = "" if res["exc"] == "NotImplementedError" or (stage != "gen" and res["exc"] == "KeyError") else res["msg"]
        if res["exc"] == "NotImplementedError":  # infer(node) on something it does not know: root-cause marker = what it was handed
            cause = "AsyncFunctionDef" if "AsyncFunctionDef" in res["msg"] else ("dict" if res["msg"].lstrip().startswith("{") else "other")
        fail("crash", "gen exited %s: %s: %s" % (res["rc"], res["exc"], res["msg"]), exc=res["exc"], msg=msg, cause=cause, stage=stage)
        if res["out"] is not None:
            fail("partial-write", "gen failed but left an output file")
        return fails
    entries = oracle_entries(case)
    try:
        want = [case["tpl"].format(name=n) for n, _, _ in entries]
    except Exception:  # noqa
        fail("template", "template cannot be applied but gen succeeded")
        return fails
    if case["emit"] == "json_schema":
        try:
            d = json.loads(res["out"])
        except Exception:  # noqa
            fail("invalid-json", "output is not JSON")
            return fails
        sch = d["schemas"] if isinstance(d, dict) and "schemas" in d else [d]
        if len(sch) != len(entries):
            fail("symbol-count", "%d schemas for %d entries" % (len(sch), len(entries)))
            return fails
        for s, w, (n, k, node) in zip(sch, want, entries):
            if w.isidentifier() and not keyword.iskeyword(w) and s.get("$id") != w:
                fail("symbol-not-named-by-template", "$id %r, template gives %r" % (s.get("$id"), w), cause="non-ascii-identifier" if not ASCII_ID.match(w) else "other")
            try:
                src = read_source(k, node, case)
            except Exception as e:  # noqa
                fail("source-unreadable", "source entry %r cannot be read: %s" % (n, exc(e)), exc=exc(e))
                continue
            try:
                out = interface_of("json_schema", s)
            except Exception as e:  # noqa
                fail("parse-back", "schema %r cannot be read back: %s" % (s.get("$id"), exc(e)), exc=exc(e))
                continue
            compare_interface(fail, "schema %r" % s.get("$id"), "%s->json_schema" % k, "json_schema", src, out)
        return fails
    try:
        compile(res["out"], "out.py", "exec")
        tree = ast.parse(res["out"])
    except SyntaxError as e:
        fail("does-not-compile", "written module does not compile: %s" % e)
        return fails
    body = list(tree.body)
    if not (body and isinstance(body[-1], ast.Assign) and sym_name(body[-1]) == "__all__"):
        fail("no-all", "module does not end with __all__")
        return fails
    try:
        all_names = ast.literal_eval(body[-1].value)
    except Exception:  # noqa
        fail("no-all", "__all__ is not a literal list")
        return fails
    rest = [n for n in body[:-1] if not isinstance(n, (ast.Import, ast.ImportFrom))]
    if rest and isinstance(rest[0], ast.Expr) and isinstance(rest[0].value, ast.Constant) and isinstance(rest[0].value.value, str) and body[0] is rest[0]:
        rest = rest[1:]
    pre_stmts = [n for n in (ast.parse(case["prepend"]).body if case["prepend"] else []) if not isinstance(n, (ast.Import, ast.ImportFrom))]
    if pre_stmts and isinstance(pre_stmts[0], ast.Expr) and isinstance(pre_stmts[0].value, ast.Constant) and isinstance(pre_stmts[0].value.value, str) \
            and tree.body and ast.dump(tree.body[0]) == ast.dump(pre_stmts[0]):
        pre_stmts = pre_stmts[1:]
    gen_syms = rest[len(pre_stmts):]
    defined = [sym_name(n) for n in gen_syms]
    if all_names != want:
        fail("all-ne-template", "__all__ = %s, the template gives %s" % (all_names, want))
    if len(defined) != len(entries):
        fail("symbol-count", "%d generated symbols for %d entries" % (len(defined), len(entries)))
        return fails
    if len(set(defined)) != len(defined):
        fail("duplicate-symbol", "generated symbols %s" % defined)
    if defined != all_names:
        cause = "sqlalchemy-name-from-ir" if case["emit"] in SQL else ("template-not-ascii-identifier" if any(not ASCII_ID.match(w) for w in want) else "other")
        fail("all-ne-defined", "__all__ = %s but the module defines %s" % (all_names, defined), cause=cause)
    for d_, w in zip(defined, want):
        if w.isidentifier() and not keyword.iskeyword(w) and d_ != w and case["emit"] not in SQL:
            fail("symbol-not-named-by-template", "symbol %r, template gives %r" % (d_, w), cause="non-ascii-identifier" if not ASCII_ID.match(w) else "other")
    # each symbol, parsed back, has the interface of its source entry
    for node, (n, k, src_node) in zip(gen_syms, entries):
        try:
            src = read_source(k, src_node, case)
        except Exception as e:  # noqa
            fail("source-unreadable", "source entry %r cannot be read: %s" % (n, exc(e)), exc=exc(e))
            continue
        try:
            out = interface_of(case["emit"], node)
        except Exception as e:  # noqa
            fail("parse-back", "generated symbol %r cannot be read back: %s" % (sym_name(node), exc(e)), exc=exc(e))
            continue
        compare_interface(fail, "symbol %r (from %r)" % (sym_name(node), n), "%s->%s" % (k, case["emit"]), case["emit"], src, out)
    # every typing / SQLAlchemy name used is imported when inference is on
    if case["infer"]:
        from cdd.shared.ast_utils import DEFAULT_MODULES_TO_ALL

        imported = set()
        for n in tree.body:
            if isinstance(n, (ast.Import, ast.ImportFrom)):
                imported.update((a.asname or a.name).split(".")[0] for a in n.names)
        tabs = [a for m, a in DEFAULT_MODULES_TO_ALL if m in ("typing", "typing_extensions", "sqlalchemy")]
        used = set()
        for g in gen_syms:
            used.update(x.id for x in ast.walk(g) if isinstance(x, ast.Name))
        missing = sorted(u for u in used if any(u in a for a in tabs) and u not in imported)
        if missing:
            fail("import-missing", "names %s are used but not imported" % missing,
                 cause="expression-text-in-Name-node" if any(w.get("improper") for w in res.get("world", [])) else "other")
    return fails


CASE_FIELDS = ("kind", "emit", "tpl", "infer", "prepend", "imports_file", "exists", "parse", "input_text", "json_basename", "phase", "out_spelling")


def case_key(c):
    return {k: c.get(k) for k in CASE_FIELDS}


W_CLASS = "class Alpha(object):\n    \"\"\"\n    Alpha doc\n\n    :cvar a: the a\n    \"\"\"\n\n    a: Optional[int] = 5\n"
W_CLASS2 = W_CLASS + "\n\nclass Beta(object):\n    \"\"\"\n    Beta doc\n\n    :cvar b: the b\n    \"\"\"\n\n    b: List[int] = None\n"
W_ARGPARSE = ("def set_cli_args(argument_parser):\n    \"\"\"\n    Set CLI arguments\n\n    :param argument_parser: argument parser\n    :type argument_parser: ```ArgumentParser```\n\n"
              "    :return: argument_parser\n    :rtype: ```ArgumentParser```\n    \"\"\"\n    argument_parser.description = 'Alpha doc'\n"
              "    argument_parser.add_argument('--a', type=int, help='the a', required=True, default=5)\n    return argument_parser\n")
W_JSON = json.dumps({"$id": "https://example.com/alpha.schema.json", "$schema": "https://json-schema.org/draft/2020-12/schema", "description": "Alpha doc",
                     "type": "object", "properties": {"a": {"default": 5, "description": "the a", "type": "integer"}}, "required": ["a"]})


W_TABLE = 'users = Table("users", metadata, Column("id", Integer, primary_key=True), Column("name", String, comment="the name"), keep_existing=True)\n'
W_ASYNC = 'async def fetch(a: int = 5) -> int:\n    """\n    Fetch doc\n\n    :param a: the a\n\n    :return: the result\n    """\n    return a\n'
W_SQLA_ID = ('class Alpha(Base):\n    """\n    Alpha doc\n    """\n\n    __tablename__ = "alpha"\n\n'
             '    a = Column(Integer, comment="the a", default=5, nullable=False)\n    id = Column(Integer, primary_key=True, server_default=Identity())\n')


def _group(bases):
    return ("class Group(%s):\n    \"\"\"\n    A group of users\n    \"\"\"\n\n    __tablename__ = \"group\"\n\n"
            "    name = Column(String, comment=\"name of the group\", nullable=False, primary_key=True)\n"
            "    size = Column(Integer, comment=\"number of members\", default=5, nullable=False)\n" % bases)


def _w(text, **kw):
    c = {"kind": "class", "emit": "class", "tpl": "{name}Config", "infer": False, "prepend": None, "imports_file": None, "exists": False, "parse": "class",
         "input_text": text, "json_basename": None, "phase": 0, "out_spelling": None}
    c.update(kw)
    return c


def _cls(attrs):
    doc = "".join("    :cvar %s: the %s\n" % (a.split(":")[0], a.split(":")[0]) for a in attrs)
    return "class Alpha(object):\n    \"\"\"\n    Alpha doc\n\n%s    \"\"\"\n\n%s" % (doc, "".join("    %s\n" % a for a in attrs))


def witness_cases():
    """One minimal input per known finding (re-verified on the real CLI in every run) and positive controls."""
    return [
        _w(W_CLASS),                                                              # control: plain success
        _w(W_CLASS, infer=True),                                                  # control: inference succeeds (one symbol, one module)
        _w(W_CLASS2, prepend='"""Doc"""\nimport sys\nfrom __future__ import annotations\nX = 1\n'),  # control: ordering
        _w(W_CLASS, exists=True),                                                 # control: the guard
        _w(W_CLASS, exists=True, emit="json_schema"),
    ] + [_w(W_CLASS, exists=True, out_spelling=sp, emit=e) for sp, _ in OUT_SPELLINGS for e in ("class", "json_schema")] + [
    ] + [
        # the fixed corner: a declarative class whose mixin is written before `Base` (and the other orders), read by `infer` and by --parse sqlalchemy
        _w(_group(b), kind="sqlalchemy", parse="infer", emit=e, tpl="{name}", _twin=True)
        for b in ("TimestampMixin, Base", "Base", "Base, TimestampMixin", "mixins.Timestamped, Base", "AuditMixin, Base, Generic[T]") for e in ("class", "json_schema")
    ] + [
        _w(W_TABLE, kind="table", parse="infer"), _w(W_TABLE, kind="table", parse="sqlalchemy_table"),
        _w(W_ASYNC, kind="function", parse="infer"), _w(W_ASYNC, kind="function", parse="function"),
        _w(W_SQLA_ID, kind="sqlalchemy", parse="sqlalchemy", emit="json_schema", tpl="{name}"),
        _w(W_CLASS, emit="function"),
        _w(W_CLASS, emit="pydantic"),
        _w(W_CLASS, emit="argparse", infer=True),
        _w(W_ARGPARSE, kind="argparse", parse="argparse"),
        _w(W_ARGPARSE, kind="argparse", parse="infer"),
        _w(W_JSON, kind="json", parse="infer", json_basename="alpha.json"),
        _w(W_JSON, kind="json", parse="json_schema", json_basename="alpha.json"),
        _w(W_JSON, kind="json", parse="json_schema", json_basename="alpha.json", emit="sqlalchemy"),
        _w(W_CLASS, emit="sqlalchemy"), _w(W_CLASS, emit="sqlalchemy_hybrid"), _w(W_CLASS, emit="sqlalchemy_table"),
        _w(W_CLASS, emit="sqlalchemy_table", tpl="{name}"),
        _w(_cls(["a: Dict[str, int] = None"]), emit="sqlalchemy", tpl="{name}"),
        _w(W_CLASS, tpl="{name}-cfg"),
        _w(W_CLASS, tpl="é{name}"),
        _w(W_CLASS, tpl="-1{name}"),
        _w(W_CLASS, imports_file="import os\nimport sys\n"),
        _w(W_CLASS, imports_file="import os\n", infer=True),
        _w(W_CLASS2, infer=True),
        _w(W_CLASS, prepend="import os", imports_file="import sys\n"),
        _w(W_CLASS, prepend="import sys\nfrom __future__ import annotations\n", imports_file="import os\n"),
        _w(_cls(["a: Union[int, float] = None"]), emit="json_schema"),
        _w(_cls(["a: int = 5", "return_type: bool"]), emit="argparse"),
        _w(_cls(["x1: Optional[float] = None", "epochs: Dict[str, Union[int, float]]"]), emit="sqlalchemy_hybrid", infer=True, tpl="{name}"),
    ] + [
        # fixed corners (every seed): the smallest legal JSON-schema files (no properties and / or no description) through every working emit kind
        _w(json.dumps(sch), kind="json", parse="json_schema", json_basename="marker.json", emit=e)
        for sch in ({"$id": "https://example.com/marker.schema.json", "$schema": "https://json-schema.org/draft/2020-12/schema", "type": "object"},
                    {"$id": "https://example.com/marker.schema.json", "$schema": "https://json-schema.org/draft/2020-12/schema", "type": "object", "description": "Marker doc"},
                    {"$id": "https://example.com/marker.schema.json", "$schema": "https://json-schema.org/draft/2020-12/schema", "type": "object",
                     "properties": {"a": {"description": "the a", "type": "integer"}}, "required": ["a"]})
        for e in ("class", "argparse", "json_schema")
    ] + [
        # fixed corners: annotations whose subscript mixes names with string constants (forward references, Annotated metadata) are not Literals
        _w(_cls(attrs), emit=e)
        for attrs in (['a: Union[int, "Node"] = None'], ['a: int = 5', 'b: Annotated[int, "meters"] = 3'], ['a: Dict[str, "Node"] = None', 'b: Tuple[int, "Node"] = None'])
        for e in ("argparse", "class")
    ] + [
        # fixed corners: entries whose templated name is also the name of a builtin (a legal identifier: the template names the symbol, __all__ lists it)
        _w(_cls(["a: int = 5"]).replace("class Alpha(", "class %s(" % nm), emit=e, tpl=tpl)
        for nm, tpl in (("input", "{name}"), ("filter", "{name}"), ("filt", "{name}er"), ("type", "{name}")) for e in ("class", "argparse")
    ]


MODFORM_SRC = ('class Alpha(object):\n    """\n    Alpha doc\n\n    :cvar a: the a\n    """\n\n    a: int = 5\n\n\n'
               'class Beta(object):\n    """\n    Beta doc\n\n    :cvar b: the b\n    """\n\n    b: str = "x"\n\n\n'
               'class Gamma(object):\n    """\n    Gamma doc\n\n    :cvar c: the c\n    """\n\n    c: float = 0.5\n\n\n')
MODFORMS = {"dict": "{c.__name__: c for c in (%s)}", "list-of-pairs": "[(c.__name__, c) for c in (%s)]", "tuple-of-pairs": "tuple((c.__name__, c) for c in (%s))",
            "generator": "((c.__name__, c) for c in (%s))", "zip": "zip([c.__name__ for c in (%s)], (%s))", "items-iterator": "iter({c.__name__: c for c in (%s)}.items())"}


def run_modform(case):
    """`--input-mapping <module>.<attribute>`: the mapping is an object of the named module (a dict, a list of pairs, or any iterable of pairs)"""
    form, emit, names = case
    d = tempfile.mkdtemp(prefix="c19mod_", dir="/tmp")
    try:
        expr = MODFORMS[form].replace("%s", ", ".join(names) + ("," if len(names) == 1 else ""))
        with open(os.path.join(d, "inp_mod_c19.py"), "wt") as f:
            f.write(MODFORM_SRC + "input_map = " + expr + "\n")
        out = os.path.join(d, "out.py")
        env = dict(os.environ, PYTHONPATH=os.pathsep.join([str(core.REPO), d]))
        try:
            p = subprocess.run([core.PY, "-m", "cdd", "gen", "--name-tpl", "{name}Config", "--input-mapping", "inp_mod_c19.input_map", "--emit", emit, "-o", out],
                               stdout=subprocess.PIPE, stderr=subprocess.PIPE, text=True, env=env, cwd=d, timeout=120)
        except subprocess.TimeoutExpired:
            return {"timeout": True}
        text = open(out).read() if os.path.exists(out) else None
        return {"rc": p.returncode, "out": text, "err": p.stderr[-300:]}
    finally:
        shutil.rmtree(d, ignore_errors=True)


def modform_stream(chk: core.Check):
    """fixed corner (every seed): the module-attribute form of --input-mapping with every kind of iterable the documentation allows; one symbol per entry"""
    cases = [(form, emit, names) for form in MODFORMS for emit in ("class", "argparse") for names in (["Alpha", "Beta", "Gamma"], ["Beta", "Alpha"], ["Gamma"])]
    for c, r in zip(cases, core.pmap(run_modform, cases, chunksize=2)):
        form, emit, names = c
        chk.count(("modform", form, emit, tuple(names)), True)
        want = [n + "Config" for n in names]
        rp = {"fn": "modform", "form": form, "emit": emit, "names": names}
        if r.get("timeout"):
            chk.failure({"kind": "timeout", "input": "module-attribute", "form": form}, "gen did not finish", rp)
            continue
        if r["rc"] != 0 or r["out"] is None:
            chk.failure({"kind": "crash", "input": "module-attribute", "form": form, "emit": emit}, "gen --input-mapping module.attr (%s) exited %s: %s" % (form, r["rc"], r["err"][-160:]), rp)
            continue
        try:
            mod = ast.parse(r["out"])
        except SyntaxError as e:
            chk.failure({"kind": "invalid-python", "input": "module-attribute", "form": form, "emit": emit}, "output does not compile: %s" % e, rp)
            continue
        defined = [n.name for n in mod.body if isinstance(n, (ast.ClassDef, ast.FunctionDef))]
        all_ = next((ast.literal_eval(n.value) for n in mod.body if isinstance(n, ast.Assign) and any(isinstance(t, ast.Name) and t.id == "__all__" for t in n.targets)), None)
        if defined != want or all_ != want:
            chk.failure({"kind": "symbol-count", "input": "module-attribute", "form": form, "emit": emit},
                        "input mapping (%s) has entries %s; the module defines %s and __all__ = %s" % (form, names, defined, all_), rp)
    chk.coverage["module_attribute_input_mappings"] = len(cases)


def cli_matrix(chk: core.Check):
    r = chk.rng
    n = 320 if chk.quick else 4000
    tmp = tempfile.mkdtemp(prefix="c19run_", dir="/tmp")
    try:
        cases, pairs = [], []

        def add_case(c, want_twin):
            cases.append(c)
            t = twin_of(c) if want_twin else None
            if t is not None:
                pairs.append((len(cases) - 1, len(cases)))
                cases.append(t)

        for c in witness_cases():
            add_case(c, c.pop("_twin", False))
        cdir = core.VERIF / "corpus" / "C19"
        if cdir.is_dir():
            for f in sorted(cdir.glob("*.json")):
                cases.append(json.loads(f.read_text())["case"])
        for k in range(n):
            c = gen_cli_case(r, k)
            add_case(c, r.random() < 0.35)
        for c in cases:
            c["tmp"] = tmp
        results = core.pmap(run_cli_case, cases, chunksize=4)
    finally:
        shutil.rmtree(tmp, ignore_errors=True)
    reqs = [gen_request(c, x) for c, x in zip(cases, results) if not x.get("timeout")]
    model = iter(core.model_batch(reqs))
    n_dis = n_out = n_contract = n_improper = 0
    dist = {"emit": {}, "parse": {}, "input": {}, "outcome": {}, "entries": {}, "flags": {}, "oracle": {}, "output_argument": {}, "source_entries_read_back": {}}

    def bump(k, v):
        dist[k][str(v)] = dist[k].get(str(v), 0) + 1

    for c, x in zip(cases, results):
        key = case_key(c)
        if x.get("timeout"):
            # termination is C11's property; a CLI run that does not finish in 120 s under load is a harness problem (exit 2), not a violation of C19
            raise core.HarnessError("`python -m cdd gen` did not finish within 120 s or was killed (%s) on %s" % (x.get("why", "timeout"), json.dumps(key)[:600]))
        mo = next(model)
        guarded = bool(c["exists"] or c.get("out_spelling"))
        chk.count(("cli", json.dumps(key, sort_keys=True)), x["rc"] == 0 or guarded)
        bump("emit", c["emit"])
        bump("parse", c["parse"])
        bump("input", c["kind"])
        bump("entries", len(x["world"]))
        bump("outcome", ("existing-file:%s" % ("refused" if x["exc"] == "OSError" else "raises:%s" % x["exc"])) if guarded and x["rc"] else ("ok" if x["rc"] == 0 else "raises:%s" % x["exc"]))
        bump("flags", "infer=%s prepend=%s imports_file=%s exists=%s" % (c["infer"], c["prepend"] is not None, c["imports_file"] is not None, guarded))
        bump("output_argument", SPELL_CLASS.get(c.get("out_spelling"), "absolute, existing" if c["exists"] else "absolute, new"))
        rv, mv = real_view(c, x), model_view(c, x, mo)
        outside = "error" in mo.get("run", {}) and str(mo["run"]["error"]).startswith("outside:") and any(ev[0].startswith("raise:outside:") for ev in mo.get("trace", []))
        improper = c["infer"] and any(w.get("improper") for w in x["world"])
        if improper:
            n_improper += 1
        if outside or improper:
            n_out += 1
        elif rv != mv:
            n_dis += 1
            chk.disagreement("C19 correspondence: python -m cdd gen vs GenModule.gen/mainGen", {"case": key}, rv, mv)
        # the emitters' naming contract (GenModule.symbolName) on the per-entry results
        if "expected_symbols" in mo:
            for w, e in zip(x["world"], mo["expected_symbols"]):
                got = None
                if "stmt" in w:
                    got = sym_name(ast.parse(w["stmt_src"]).body[0]) if _parses(w["stmt_src"]) else _raw_name(w["stmt"])
                elif "json_id" in w:
                    got = w["json_id"]
                else:
                    continue
                if got != e:
                    n_contract += 1
                    chk.disagreement("C19 correspondence: emitters' naming contract (GenModule.symbolName)", {"case": key, "entry": w["name"]}, got, e)
        with open(os.devnull, "w") as dn, contextlib.redirect_stdout(dn), contextlib.redirect_stderr(dn):  # cdd's parsers print failed type probes
            found = oracle(c, x)
        for sig, what in found:
            chk.failure(sig, what, {"case": key})
        if x["rc"] == 0 and not guarded:
            bump("oracle", "written output examined")
            for _, tk, _n in oracle_entries(c):
                bump("source_entries_read_back", "%s (--parse %s)" % (tk, "infer" if c["parse"] == "infer" else "explicit"))
            if c["infer"] and c["emit"] != "json_schema":
                bump("oracle", "imports-cover clause evaluated (inference succeeded)")
        elif guarded:
            bump("oracle", "guard clause evaluated")
        if x["rc"] == 0 and not guarded and c["emit"] != "json_schema":
            chk.sample({"args": cli_args(c, "inp.py", "out.py", "imps.py" if c["imports_file"] else None), "output_head": x["out"][:300]}, limit=3)
    # `--parse infer` and the explicit kind it should arrive at write the same file
    n_pairs = 0
    for i, j in pairs:
        xi, xj = results[i], results[j]
        if xi.get("rc") == 0 and xj.get("rc") == 0:
            n_pairs += 1
            if xi["out"] != xj["out"]:
                c = cases[i]
                chk.failure({"kind": "infer-vs-explicit", "emit": c["emit"], "family": "sqlalchemy" if c["emit"] in SQL else c["emit"], "input": c["kind"], "explicit": cases[j]["parse"]},
                            "--parse infer and --parse %s write different modules for the same input" % cases[j]["parse"], {"case": case_key(c), "twin_parse": cases[j]["parse"]})
    bump("oracle", "infer-vs-explicit pairs compared (both succeeded)")
    dist["oracle"]["infer-vs-explicit pairs compared (both succeeded)"] = n_pairs
    chk.oblige("correspondence: real CLI `python -m cdd gen` = GenModule.gen + mainGen on %d runs (%d outside the model)" % (len(cases), n_out),
               "correspondence", n_dis == 0, "%d disagreements" % n_dis)
    chk.oblige("correspondence: emitted symbol names = GenModule.symbolName", "correspondence", n_contract == 0, "%d disagreements" % n_contract)
    chk.coverage["cli_distribution"] = dist
    chk.coverage["cli_runs_with_expression_text_in_a_Name_node_under_inference"] = n_improper


def _parses(src):
    try:
        ast.parse(src)
        return True
    except SyntaxError:
        return False


def _raw_name(stmt):
    return stmt.get("name") or (stmt.get("targets") or [None])[0] or stmt.get("target")


def run(chk: core.Check) -> int:
    _cdd()
    chk.lean(MODULE, THEOREMS)
    chk.trusted_base += [
        "hand-written model lean/CddVerif/Model/GenModule.lean + GenImports.lean of main's gen guard, gen, file_to_input_mapping, get_parser/infer, get_emit_kwarg, "
        "the emitters' signatures and naming rules, get_functions_and_classes, gen_module (text gluing, __all__ rendering, re-ordering), infer_imports/get_types/"
        "symbol_to_import/optimise_imports, ensure_valid_identifier, str.format on the template; tied to the code by the component ops and by whole CLI runs",
        "the per-format parsers and emitters are parameters of the model (their per-entry results are computed by the real code in-process and handed to the model); "
        "only their naming rule (GenModule.symbolName) is modelled, and compared with the emitted symbol on every run",
        "expressions are ast.unparse text in PyAst: the `Name` ids of an expression are recovered by a lexer (GenImports.exprNames); it is exact on the expression "
        "fragment the class / argparse / SQLAlchemy emitters produce; emitted trees whose Name nodes hold a whole expression are detected by the harness and set aside",
        "ast.parse(ast.unparse(x)) = x on emitted statements, json, the file system and argparse are CPython's; type_comment is None on every emitted node",
        "optimise_imports' seen-key is the string concatenation module+name+asname; the model uses the triple (no collision is possible on the four module tables)",
        "str.isdigit / str.isidentifier / repr are modelled on ASCII plus printable non-ASCII letters (the generators stay inside)",
        "infer() is modelled (GenModule.inferNode): SQLAlchemy iff ANY plain-name base is `Base`, argparse iff ANY positional parameter is `argument_parser`; the harness "
        "hands the model the base ids / parameter names read with stdlib ast; tied by the `parser` op on classes with 0-3 bases in every order and by the CLI runs",
    ]
    component_ops(chk)
    cli_matrix(chk)
    modform_stream(chk)
    for it in chk.kf.items:
        if it["seen"] == 0:
            chk.notes.append("finding %s not observed in this run (its witness no longer fails: stale?)" % it["id"])
    return chk.finish(
        "component ops: random templates / identifiers / strings / node kinds / statement lists against the real functions; CLI: one witness per known finding and "
        "positive controls (incl. `class Group(TimestampMixin, Base)` in five base orders, read by infer and by --parse sqlalchemy), then random (input kind: classes with "
        "0-3 bases / keywords / decorators, pydantic-shaped, SQLAlchemy classes with mixins around `Base`, hybrid classes, Tables, (async) functions, argparse "
        "functions, JSON files, mixed-kind modules x 1..5 generated entries x parse explicit (every kind whose parser is meant for the selected entries) / infer, "
        "with an explicit-kind twin for a third of the infer runs x 8 emit kinds x 14 templates x infer-imports x prepend x "
        "imports-from-file x output exists) runs of the real `python -m cdd gen`; compared: exit status, exception class, file bytes untouched under the guard, "
        "the written module as an AST (imports, symbols, __all__), JSON $ids; oracle on every real output: compiles, one symbol per entry named by the template, "
        "__all__ exact and equal to the defined names, each symbol read back by cdd's own parser has the parameter names (in order) and scalar type categories that "
        "an independent stdlib-ast reading of the source entry gives (SQLAlchemy: the Column(...) assignments and their type argument), infer and the explicit kind "
        "write the same file, every typing/SQLAlchemy Name "
        "imported under inference, existing file refused and untouched; non-trivial = the run succeeded or the guard was exercised; distinct by full configuration")


def replay(path: str) -> int:
    _cdd()
    d = json.loads(Path(path).read_text())
    rp = d.get("replay") or {}
    if rp.get("fn") == "modform":
        r = run_modform((rp["form"], rp["emit"], rp["names"]))
        print("replay: gen --input-mapping inp_mod_c19.input_map (%s of %s) --emit %s -> rc=%s\n%s" % (rp["form"], rp["names"], rp["emit"], r.get("rc"), r.get("out")))
        try:
            mod = ast.parse(r.get("out") or "(")
            ok = [n.name for n in mod.body if isinstance(n, (ast.ClassDef, ast.FunctionDef))] == [n + "Config" for n in rp["names"]]
        except SyntaxError:
            ok = False
        return 0 if ok and r.get("rc") == 0 else 1
    if "case" not in rp:
        print("replay: no CLI case in %s (a broken proof obligation / component op: see `no_longer_checks`)" % path)
        return 1
    c = dict(rp["case"])
    tmp = tempfile.mkdtemp(prefix="c19replay_", dir="/tmp")
    try:
        c["tmp"] = tmp
        x = run_cli_case(c)
    finally:
        shutil.rmtree(tmp, ignore_errors=True)
    if c.get("out_spelling"):
        print("replay: HOME = cwd = a temp dir holding models.py (sentinel), sub/, link.py -> models.py%s" % ("; {abs} = that dir" if "{abs}" in c["out_spelling"] else ""))
    print("replay: python -m cdd gen %s -> rc=%s %s" % (" ".join(cli_args(c, c.get("json_basename") or "inp.py", c.get("out_spelling") or "out.py", "imps.py" if c.get("imports_file") else None)),
                                                       x.get("rc"), x.get("exc") or ""))
    with open(os.devnull, "w") as dn, contextlib.redirect_stdout(dn), contextlib.redirect_stderr(dn):
        fails = oracle(c, x)
    if rp.get("twin_parse"):
        tmp = tempfile.mkdtemp(prefix="c19replay_", dir="/tmp")
        try:
            y = run_cli_case(dict(c, parse=rp["twin_parse"], tmp=tmp))
        finally:
            shutil.rmtree(tmp, ignore_errors=True)
        print("replay: the same with --parse %s -> rc=%s %s" % (rp["twin_parse"], y.get("rc"), y.get("exc") or ""))
        if x.get("rc") == 0 and y.get("rc") == 0 and x["out"] != y["out"]:
            fails.append(({"kind": "infer-vs-explicit", "explicit": rp["twin_parse"]}, "--parse %s and --parse %s write different modules:\n--- %s\n%s\n--- %s\n%s"
                          % (c["parse"], rp["twin_parse"], c["parse"], x["out"][:600], rp["twin_parse"], y["out"][:600])))
    for sig, what in fails:
        print("  property fails: %s   %s" % (what, json.dumps(sig, sort_keys=True)))
    if not fails:
        print("  property holds on this input")
    return 1 if fails else 0
