"""C06 — emitted JSON-schema is valid, self-consistent and round-trips (DESIGN.md §4 C06)."""
from __future__ import annotations

import ast
import concurrent.futures as cf
import copy
import json
import os
import re
import subprocess
import sys
import tempfile
import warnings
from pathlib import Path

from harness import core
from harness.gen import c06gen as g
from harness.translators.jsonschema_tables import scan, to_lean

MODULE = "CddVerif.Properties.C06"
THEOREMS = [
    "C06.required_iff_not_optional",
    "C06.emitted_valid",
    "C06.emitted_invalid_for_metacharacter_member",
    "C06.default_validates",
    "C06.literal_becomes_pattern",
    "C06.pattern_accepts_iff_contains_member",
    "C06.pattern_accepts_members",
    "C06.pattern_not_exact",
    "C06.roundtrip",
    "C06.roundtrip_drops_none_default",
    "C06.roundtrip_splits_bar_member",
    "C06.emit_ok_iff",
    "C06.emits",
    "C06.tables_cover_domain",
]
VT = os.environ.get("CDD_VT_PYTHON", "python3-vt")
VT_SCRIPT = str(core.VERIF / "harness" / "impl" / "c06_vt.py")
ANCHORED = ["cdd/json_schema/emit.py", "cdd/json_schema/parse.py", "cdd/json_schema/utils/emit_utils.py",
            "cdd/json_schema/utils/parse_utils.py", "cdd/json_schema/utils/shared_utils.py"]
SIMPLE_TYPES = ["array", "boolean", "integer", "null", "number", "object", "string"]


# ----------------------------------------------------------------------------------------------------------------
# the real code
# ----------------------------------------------------------------------------------------------------------------
def canon_parsed(ir) -> dict:
    """View of a parsed IR compared between code and model (and read by the oracle)."""
    def opt(d, k):
        return [g.to_wire(d[k])] if k in d else []

    params = []
    for nm, p in ir["params"].items():
        extra = sorted([[k, g.to_wire(v)] for k, v in p.items() if k not in ("typ", "doc", "default")], key=lambda kv: kv[0])
        params.append([nm, {"typ": p.get("typ"), "doc": opt(p, "doc"), "default": opt(p, "default"), "extra": extra}])
    ret = None
    if ir.get("returns"):
        rt = ir["returns"].get("return_type", {})
        ret = {"typ": rt.get("typ"), "doc": rt.get("doc"), "default": opt(rt, "default"), "extra": sorted(k for k in rt if k not in ("typ", "doc", "default"))}
    return {"name": [] if ir.get("name") is None else [g.to_wire(ir["name"])], "doc": ir.get("doc"), "params": params, "returns": ret}


def canon_model_parsed(o) -> dict:
    if "raises" in o or "error" in o:
        return {"raises": True}
    p = o["ok"]
    params = [[nm, {"typ": v["typ"], "doc": v["doc"], "default": v["default"], "extra": sorted(v["extra"][1], key=lambda kv: kv[0])}]
              for nm, v in p["params"]]
    ret = None if p["returns"] is None else {"typ": p["returns"]["typ"], "doc": p["returns"]["doc"], "default": [], "extra": []}
    return {"name": [] if p["name"] == [None] else p["name"], "doc": p["doc"], "params": params, "returns": ret}  # name None = JSON null


def real_parse(schema_py):
    from cdd.json_schema.parse import json_schema as parse

    try:
        return canon_parsed(parse(copy.deepcopy(schema_py)))
    except Exception as e:  # noqa
        return {"raises": True, "exc": core.exc_name(e)}


def impl_emit_parse(S):
    """Real emit on a fresh IR dict, serialisability of the result, real parse of the emitted dict."""
    import cdd.class_.parse  # noqa: F401  (import order, see BUILDER_GUIDE)
    from cdd.json_schema.emit import json_schema as emit

    try:
        schema = emit(g.to_py_ir(S))
    except Exception as e:  # noqa
        return {"emit_raises": core.exc_name(e)}
    out = {"schema": g.to_wire(schema)}
    try:
        txt = json.dumps(schema, allow_nan=False)
        out["json"] = txt
        out["serialisable"] = True if json.loads(txt) == schema else "json.loads(json.dumps(schema)) != schema"
    except Exception as e:  # noqa
        out["serialisable"] = "json.dumps: %s" % core.exc_name(e)
    out["parsed"] = real_parse(schema)
    return out


def impl_emit_file(S):
    """`json_schema_file` (the file-writing wrapper): what it writes, read back with `json.load`."""
    import cdd.class_.parse  # noqa: F401
    from cdd.json_schema.emit import json_schema_file

    with tempfile.TemporaryDirectory() as td:
        fn = os.path.join(td, "out.schema.json")
        try:
            json_schema_file({"F": g.to_py_ir(S)}, fn)
            with open(fn) as f:
                return {"loaded": g.to_wire(json.load(f))}
        except Exception as e:  # noqa
            return {"raises": core.exc_name(e)}


def robust_map(fn, items, timeout=30.0):
    """`core.guarded_map`, but a stall is only believed when it reproduces: items that timed out (or were skipped after
    several timeouts) are run again, alone, with a generous limit.  A loaded machine must not look like a hanging emitter:
    confirmed → {"timeout": True} (a property failure: no schema is returned); if stalls do not reproduce the results of
    the second run are used; what could not be re-run → HarnessError (exit 2), never a verdict."""
    res = core.guarded_map(fn, items, per_item_timeout=timeout)
    bad = [i for i, r in enumerate(res) if isinstance(r, dict) and (r.get("timeout") or r.get("skipped"))]
    if not bad:
        return res
    confirmed = 0
    for i in bad[:6]:
        rr = core.guarded_map(fn, [items[i]], per_item_timeout=240.0, nproc=1)[0]
        res[i] = rr
        confirmed += bool(isinstance(rr, dict) and rr.get("timeout"))
    rest = bad[6:]
    if rest and not confirmed:
        again = core.guarded_map(fn, [items[i] for i in rest], per_item_timeout=240.0)
        for i, rr in zip(rest, again):
            res[i] = rr
        if any(isinstance(r, dict) and r.get("skipped") for r in again):
            raise core.HarnessError("real-code calls keep stalling without reproducing (machine overloaded?)")
    elif rest:
        for i in rest:
            res[i] = {"skipped": True}  # a confirmed hang is already reported; the others are left out of the oracle
    return res


def impl_parse_wire(w):
    import cdd.class_.parse  # noqa: F401

    return real_parse(g.from_wire(w))


def run_vt(schemas: list, validate: list, nproc: int = core.NCPU) -> tuple[list, list, str]:
    """check_schema on `schemas`, is_valid on `validate` pairs — in python3-vt subprocesses."""
    def one(job):
        ss, vs = job
        with tempfile.TemporaryDirectory() as td:
            fin, fout = os.path.join(td, "in.json"), os.path.join(td, "out.json")
            with open(fin, "w") as f:
                json.dump({"schemas": ss, "validate": vs}, f)
            try:
                p = subprocess.run([VT, VT_SCRIPT, fin, fout], stdout=subprocess.PIPE, stderr=subprocess.PIPE, text=True, timeout=3000)
            except subprocess.TimeoutExpired:
                raise core.HarnessError("python3-vt jsonschema runner did not finish within 3000 s (%d schemas, %d pairs)" % (len(ss), len(vs)))
            if p.returncode != 0:
                raise core.HarnessError("python3-vt jsonschema runner failed: %s" % p.stderr[-800:])
            return json.load(open(fout))

    n = max(1, min(nproc, (len(schemas) + len(validate) + 999) // 1000))
    jobs = [(schemas[i::n], validate[i::n]) for i in range(n)]
    with cf.ThreadPoolExecutor(n) as ex:
        outs = list(ex.map(one, jobs))
    rs, rv = [None] * len(schemas), [None] * len(validate)
    for i, o in enumerate(outs):
        rs[i::n] = o["schemas"]
        rv[i::n] = o["validate"]
    return rs, rv, outs[0]["version"]


# ----------------------------------------------------------------------------------------------------------------
# the property's own oracle, on the real outputs
# ----------------------------------------------------------------------------------------------------------------
warnings.filterwarnings("ignore", category=SyntaxWarning)  # literal_eval of type strings the parser rebuilt without escaping


def typ_view(s):
    """Type string → (optional, core) with Literal members as a frozenset; whitespace runs collapsed."""
    if not isinstance(s, str):
        return ("raw", repr(s))
    s = " ".join(s.split())
    opt = s.startswith("Optional[") and s.endswith("]")
    inner = s[len("Optional["):-1] if opt else s
    if inner.startswith("Literal[") and inner.endswith("]"):
        try:
            ms = ast.literal_eval("[" + inner[len("Literal["):-1] + "]")
            if all(isinstance(m, str) for m in ms):
                return (opt, ("lit", frozenset(ms)))
        except Exception:  # noqa  (ValueError / SyntaxError / TypeError / MemoryError … of a type string that is not Python)
            pass
    return (opt, ("name", inner))


def norm_ws(s):
    return " ".join(s.split()) if isinstance(s, str) else s


def norm_doc(s):
    """DESIGN §3 normDoc: collapse whitespace, drop one terminal '.'"""
    if not isinstance(s, str):
        return s
    s = " ".join(s.split())
    return s[:-1] if s.endswith(".") else s


def ret_default_region(sr) -> str:
    """Where a return entry *with a default* lies (the default travels through the description text
    ":return: <doc>. Defaults to <default>" and is read back by extract_default)."""
    d = sr["default"]
    if not sr["doc"]:
        return "no-doc"            # no ":return:" line is written at all, so nothing announces the default
    if d[0] == "n":
        return "none-default"
    if d[0] == "s" and d[1] == "":
        return "empty-str-default"
    if d[0] == "s" and "." in d[1]:
        return "str-default-with-dot"
    return "plain"


def typed(v):
    return "%s:%r" % (type(v).__name__, v)


def pattern_probes(members: list) -> list:
    """Members and non-members of a Literal used to observe the emitted pattern."""
    ms = set(members)
    probes = []
    for m in members[:3]:
        probes += [("super", "x" + m + "x"), ("super", m + "_"), ("super", "q " + m), ("prefix", m[:-1]), ("double", m + m)]
        if "." in m:
            probes.append(("meta", m.replace(".", "x")))
    probes += [("other", ""), ("other", "zzz_not_a_member"), ("other", "|")]
    out, seen = [], set()
    for kind, s in probes:
        if s not in ms and s not in seen:
            seen.add(s)
            out.append((kind, s))
    return out


def oracle_static(S, r):
    """Everything of the property that needs no validator: emits, serialisable, required ⇔ not Optional, round trip.
    Returns [(signature, text)]."""
    fails = []
    if r.get("skipped"):
        return fails  # not evaluated (see robust_map)
    if r.get("timeout") or "error" in r:
        fails.append(({"kind": "emit-no-result", "how": "timeout" if r.get("timeout") else str(r.get("error"))}, "emit/parse did not return (reproduced alone with a 240 s limit)" if r.get("timeout") else "emit/parse crashed the worker"))
        return fails
    if "emit_raises" in r:
        single = any("lit" in p["typ"] and len(p["typ"]["lit"]) == 1 for _, p in S["params"])
        fails.append(({"kind": "emit-raises", "exc": r["emit_raises"], "region": "single-member-literal" if single else "other"},
                      "json_schema emit %s" % r["emit_raises"]))
        return fails
    schema = g.from_wire(r["schema"]) if not _has_bang(r["schema"]) else None
    if r["serialisable"] is not True or schema is None:
        fails.append(({"kind": "not-serialisable"}, "emitted dict is not JSON: %s" % (r["serialisable"],)))
        if schema is None:
            return fails
    # required ⇔ not Optional
    req = schema.get("required")
    expected = [n for n, p in S["params"] if not p["typ"]["opt"]]
    if not isinstance(req, list) or len(set(map(repr, req))) != len(req):
        fails.append(({"kind": "required", "how": "not-a-duplicate-free-list"}, "required = %r" % (req,)))
    else:
        missing = [n for n in expected if n not in req]
        extra = [n for n in req if n not in expected]
        if missing:
            fails.append(({"kind": "required", "how": "non-optional-not-required"}, "not Optional but not required: %s" % missing))
        if extra:
            fails.append(({"kind": "required", "how": "optional-or-unknown-required"}, "required but Optional/unknown: %s" % extra))
    props = schema.get("properties")
    if not isinstance(props, dict) or list(props) != [n for n, _ in S["params"]]:
        fails.append(({"kind": "properties", "how": "names-or-order"}, "properties keys %r" % (list(props) if isinstance(props, dict) else props,)))
    # round trip
    p = r["parsed"]
    if p.get("raises"):
        fails.append(({"kind": "roundtrip", "field": "parse-raises", "exc": p.get("exc")}, "parse of the emitted schema %s" % p.get("exc")))
        return fails
    if [n for n, _ in p["params"]] != [n for n, _ in S["params"]]:
        fails.append(({"kind": "roundtrip", "field": "names"}, "parameter names %s → %s" % ([n for n, _ in S["params"]], [n for n, _ in p["params"]])))
        return fails
    for (nm, sp), (_, pp) in zip(S["params"], p["params"]):
        if typ_view(g.render_typ(sp["typ"])) != typ_view(pp["typ"]):
            fails.append(({"kind": "roundtrip", "field": "typ", "from": _tk(sp["typ"]), "to": "other",
                           "region": g.lit_region(sp["typ"]) if "lit" in sp["typ"] else "domain"},
                          "%s: typ %r → %r" % (nm, g.render_typ(sp["typ"]), pp["typ"])))
        want_doc = [] if sp["doc"] is None else [sp["doc"]]
        if pp["doc"] != want_doc:
            fails.append(({"kind": "roundtrip", "field": "param-doc"}, "%s: doc %r → %r" % (nm, sp["doc"], pp["doc"])))
        d = sp["default"]
        got = [g.from_wire(x) for x in pp["default"]]
        if d is None:
            if got:
                fails.append(({"kind": "roundtrip", "field": "default", "from": "absent", "to": "present"}, "%s: no default → %r" % (nm, got[0])))
        elif d[0] == "n":
            if not got:
                fails.append(({"kind": "roundtrip", "field": "default", "from": "None", "to": "absent"},
                              "%s: %s default None (%s) is dropped by emit, absent after the round trip" % (nm, g.render_typ(sp["typ"]), sp.get("none_as"))))
            elif got[0] != g.NONE_STR:
                fails.append(({"kind": "roundtrip", "field": "default", "from": "None", "to": "other"}, "%s: default None → %r" % (nm, got[0])))
        else:
            want = g.default_to_py(d)
            if d[0] == "s" and want in ("None", g.NONE_STR) and not got:
                # at the level of the Python IR the string "None" / NoneStr *is* a spelling of None (none_types): same defect
                fails.append(({"kind": "roundtrip", "field": "default", "from": "None", "to": "absent"},
                              "%s: %s default %r (a str that is a none_types member, i.e. a spelling of None) is dropped by emit" % (nm, g.render_typ(sp["typ"]), want)))
            elif not got or typed(got[0]) != typed(want):
                fails.append(({"kind": "roundtrip", "field": "default", "from": d[0], "to": "absent" if not got else "other"},
                              "%s: default %s → %s" % (nm, typed(want), typed(got[0]) if got else "absent")))
        if pp["extra"]:
            fails.append(({"kind": "roundtrip", "field": "extra-keys", "region": g.lit_region(sp["typ"]) if "lit" in sp["typ"] else "domain"},
                          "%s: extra keys after the round trip: %r" % (nm, pp["extra"])))
    if norm_ws(p["doc"]) != norm_ws(S["doc"]):
        fails.append(({"kind": "roundtrip", "field": "doc"}, "doc %r → %r" % (S["doc"], p["doc"])))
    sr, pr = S["returns"], p["returns"]
    if (sr is None) != (pr is None):
        fails.append(({"kind": "roundtrip", "field": "returns-presence"}, "returns %r → %r" % (sr, pr)))
    elif sr is not None:
        if typ_view(g.render_typ(sr["typ"])) != typ_view(pr["typ"]):
            fails.append(({"kind": "roundtrip", "field": "returns-typ"}, "return typ %r → %r" % (g.render_typ(sr["typ"]), pr["typ"])))
        rd = sr.get("default")
        got = [g.from_wire(x) for x in pr.get("default", [])]
        # DESIGN §3 normDoc: whitespace collapsed, one terminal '.' dropped — when a default is announced the emitter ends the
        # doc with a '.' before " Defaults to …", so "the outcome" comes back as "the outcome."
        nd = (lambda x: norm_doc(x)) if rd is not None else norm_ws
        if nd(sr["doc"] or None) != nd(pr["doc"] or None):  # an empty return doc and no return doc are the same entry
            # word-wrap at 100 columns may break inside a word (after a hyphen, or a word longer than the line)
            how = "wrap-inserted-whitespace" if isinstance(sr["doc"], str) and isinstance(pr["doc"], str) and "".join(sr["doc"].split()) == "".join(pr["doc"].split()) else "other"
            sig = {"kind": "roundtrip", "field": "returns-doc", "how": how}
            if rd is not None:
                sig["region"] = ret_default_region(sr)
            fails.append((sig, "return doc %r → %r" % (sr["doc"], pr["doc"])))
        if rd is None:
            if got:
                fails.append(({"kind": "roundtrip", "field": "returns-default", "from": "absent", "to": "present"}, "return entry without default → default %r" % (got[0],)))
        else:
            want = g.default_to_py(rd, sr.get("none_as", "NoneStr"))
            if rd[0] == "n":
                want = g.NONE_STR
            if not got or typed(got[0]) != typed(want):
                fails.append(({"kind": "roundtrip", "field": "returns-default", "from": rd[0], "to": "absent" if not got else "other", "region": ret_default_region(sr)},
                              "return entry (%s, doc %r): default %s → %s (description %r)" % (
                                  g.render_typ(sr["typ"]), sr["doc"], typed(want), typed(got[0]) if got else "absent", schema.get("description") if schema else None)))
        if pr["extra"]:
            fails.append(({"kind": "roundtrip", "field": "returns-extra-keys"}, "return entry acquired keys %r" % (pr["extra"],)))
    return fails


def oracle_validation(S, kind, nm, prop_schema, inst, res):
    """One observation of the validator (jsonschema in python3-vt) → None or (signature, text).
    region = "regex-metacharacter-member" when a member of this Literal has a character with a special meaning in a
    regular expression (the emitter does not escape), else "plain"."""
    t = dict(S["params"])[nm]["typ"]
    region = "regex-metacharacter-member" if "lit" in t and g.has_meta(t["lit"]) else "plain"
    if kind == "default" and res is not True:
        return ({"kind": "default-does-not-validate", "typ": _tk(t), "region": region},
                "%s: default %r does not validate against %r (%s)" % (nm, inst, prop_schema, res))
    if kind == "member" and res is not True:
        return ({"kind": "pattern-rejects-member", "region": region}, "%s: member %r rejected by %r (%s)" % (nm, inst, prop_schema.get("pattern"), res))
    if kind.startswith("probe") and res is True:
        ms = t["lit"]
        how = "contains-member" if any(m in inst for m in ms) else "regex-metacharacter" if region != "plain" else "other"
        return ({"kind": "pattern-accepts-nonmember", "how": how},
                "%s: %r is not one of %s but validates against pattern %r" % (nm, inst, ms, prop_schema.get("pattern")))
    return None


def validation_pairs(S, schema):
    """(property schema, instance) pairs the oracle observes for one emitted schema → (pairs, sources)."""
    pairs, src = [], []
    props = schema.get("properties", {}) if isinstance(schema.get("properties"), dict) else {}
    for nm, p in S["params"]:
        ps = props.get(nm)
        if not isinstance(ps, dict):
            continue
        if "default" in ps:
            pairs.append([ps, ps["default"]])
            src.append(("default", nm, None))
        if "lit" in p["typ"]:
            for m in p["typ"]["lit"]:
                pairs.append([ps, m])
                src.append(("member", nm, m))
            for how, x in pattern_probes(p["typ"]["lit"]):
                pairs.append([ps, x])
                src.append(("probe:" + how, nm, x))
    return pairs, src


def plain_pat(p) -> bool:
    """Is `p` a pattern whose meaning the model vouches for (alternation of literal, metacharacter-free strings)?"""
    return isinstance(p, str) and all(0x20 <= ord(c) < 0x7F and (c == "|" or c not in g.META) for c in p)


def plain_schema(schema) -> bool:
    props = schema.get("properties") if isinstance(schema, dict) else None
    if not isinstance(props, dict):
        return True
    return all(not isinstance(ps, dict) or "pattern" not in ps or plain_pat(ps["pattern"]) for ps in props.values())


def gen_plain_member(r):
    while True:
        m = g.gen_member(r)
        if m and plain_pat(m) and "|" not in m:
            return m


def _tk(t):
    return ("Optional[%s]" if t["opt"] else "%s") % ("Literal" if "lit" in t else t["base"])


def _has_bang(w) -> bool:
    if isinstance(w, list):
        if w and w[0] == "!":
            return True
        if w and w[0] == "a":
            return any(_has_bang(x) for x in w[1])
        if w and w[0] == "o":
            return any(_has_bang(v) for _, v in w[1])
    return False


# ----------------------------------------------------------------------------------------------------------------
# mutants
# ----------------------------------------------------------------------------------------------------------------
def mutate_schema(r, schema: dict):
    """A mutant of an emitted schema inside the fragment `validSchema` vouches for (both directions). → (mutant, ops)"""
    s = copy.deepcopy(schema)
    ops = []
    props = s.get("properties") if isinstance(s.get("properties"), dict) else {}
    for _ in range(r.choice([1, 1, 1, 2, 3])):
        k = r.choice(["description", "type", "required", "properties", "$id", "$schema", "prop", "prop", "prop", "prop", "unknown", "whole"])
        if k == "description":
            v = r.choice([None, 5, [], "", "text", "DEL", True])
            _setdel(s, "description", v)
        elif k == "type":
            v = r.choice(["int", "str", ["object"], ["object", "object"], [], 5, None, "Object", ["object", "null"], "object", ["object", 5], "DEL"])
            _setdel(s, "type", v)
        elif k == "required":
            req = list(s.get("required", [])) if isinstance(s.get("required"), list) else []
            v = r.choice([req + req[:1] if req else ["a", "a"], req + [5], req + [None], "abc", {"a": 1}, "DEL", [[]], req[::-1], req + ["zz_unknown"], None, 7])
            _setdel(s, "required", v)
        elif k == "properties":
            v = r.choice([[], None, "x", "DEL", {}, {"p": True}, {"p": False}, {"p": None}, {"p": "x"}, {"p": 5}, {"p": []}, {"p": {"type": "str"}}])
            _setdel(s, "properties", v)
        elif k == "$id":
            v = r.choice(["http://x/y#frag", "http://x/y#", "a\n", "a#\n", "a#b#", "##", "#", 5, None, "", "DEL", "https://offscale.io/#/F.schema.json"])
            _setdel(s, "$id", v)
        elif k == "$schema":
            _setdel(s, "$schema", r.choice([None, 5, "foo", "DEL", []]))
        elif k == "unknown":
            s[r.choice(["x_typ", "doc", "title2", "nullable_"])] = r.choice([None, 5, [1, {"a": None}], {"b": 2.5}, "s"])
            k = "unknown-keyword"
        elif k == "whole":
            s = r.choice([True, False, None, "x", 5, [], 1.5])
            ops.append("whole")
            break
        elif props:
            nm = r.choice(list(props))
            p = props[nm]
            sub = r.choice(["description", "type", "pattern", "default", "format", "doc", "replace"])
            if not isinstance(p, dict):
                sub = "replace"
            if sub == "description":
                _setdel(p, "description", r.choice([None, 5, ["x"], "", "DEL", False]))
            elif sub == "type":
                _setdel(p, "type", r.choice(["int", "float", "str", "bool", "dict", "list", "NoneType", "any", None, ["string", "null"], ["string", "string"],
                                            "DEL", 0, "String", [], ["number"], "null", "integer"]))
            elif sub == "pattern":
                _setdel(p, "pattern", r.choice([5, None, "a|b c", [], "", "DEL", "a||b", "x_1|b2", True, {"a": "b"}]))
            elif sub == "default":
                _setdel(p, "default", r.choice([None, {}, [1], "s", 5, 1.5, "DEL", True]))
            elif sub == "format":
                _setdel(p, "format", r.choice(["date-time", 5, None, "", ["x"], "nonsense"]))
            elif sub == "doc":
                _setdel(p, "doc", r.choice([None, "", 5]))
            else:
                props[nm] = r.choice([True, False, None, "x", 5, [], {}])
            k = "prop." + sub
        ops.append(k)
    return s, ops


def _setdel(d, k, v):
    if isinstance(v, str) and v == "DEL":
        d.pop(k, None)
    else:
        d[k] = v


def mutate_for_parse(r, schema: dict):
    """A mutant inside the fragment the *parser* model covers (property objects without anyOf/$ref/nullable/typ; the
    top-level description untouched: the description model is only a reference on its own domain)."""
    s = copy.deepcopy(schema)
    ops = []
    props = s.get("properties", {})
    if not isinstance(props, dict):
        props = {}
    for _ in range(r.choice([1, 1, 2, 3])):
        k = r.choice(["required", "required", "prop", "prop", "prop", "prop", "name", "properties", "description"])
        if k == "required":
            req = list(s.get("required")) if isinstance(s.get("required"), list) else []
            v = r.choice([[], "DEL", None, req[1:], req + ["zz"], req + req, [n for n in props], "abc", {"a": 1}, req + [5, None, True], [[]], 7, True, 0, "", {},
                          [n for n in props if r.random() < 0.5]])
            _setdel(s, "required", v)
        elif k == "name":
            s[r.choice(["name", "id", "title"])] = r.choice(["N", None, 5, ""])
        elif k == "properties":
            v = r.choice(["DEL", {}, [], None, "x"])
            _setdel(s, "properties", v)
            props = {}
        elif k == "description":
            _setdel(s, "description", r.choice(["DEL", None, 5, ["x"], ""]))
        elif props:
            nm = r.choice(list(props))
            p = props[nm]
            sub = r.choice(["description", "type", "type", "pattern", "pattern", "default", "default", "format", "doc", "replace", "x"])
            if not isinstance(p, dict):
                sub = "replace"
            if sub == "description":
                _setdel(p, "description", r.choice([None, 5, ["x"], "", "DEL", "other text"]))
            elif sub == "type":
                _setdel(p, "type", r.choice(SIMPLE_TYPES + ["int", "float", "str", "any", None, ["string", "null"], "DEL", 0, "", [], {}, False, 5, 1.5]))
            elif sub == "pattern":
                _setdel(p, "pattern", r.choice([5, None, "a|b c", [], "", "DEL", "a||b", "x_1|b2", "abc", "|", "a|", "^[a-z]+$", True, {"a": "b"}, "Optional[x|y"]))
            elif sub == "default":
                _setdel(p, "default", r.choice([None, "None", g.NONE_STR, "```None```", {}, [1], "s", 5, 1.5, 0, False, "", "DEL"]))
            elif sub == "format":
                _setdel(p, "format", r.choice(["date-time", 5]))
            elif sub == "doc":
                _setdel(p, "doc", r.choice([None, "", "kept doc"]))
            elif sub == "x":
                p["x_typ"] = r.choice([5, None, {"a": [1]}])
            else:
                props[nm] = r.choice([True, None, "x", 5, [], {}, {"type": "string"}, {"description": "d"}])
            k = "prop." + sub
        ops.append(k)
    return s, ops


# ----------------------------------------------------------------------------------------------------------------
# cases
# ----------------------------------------------------------------------------------------------------------------
def lit(ms, opt=False):
    return {"opt": opt, "lit": ms}


def base(b, opt=False):
    return {"opt": opt, "base": b}


def P(t, doc=None, default=None, none_as="NoneStr"):
    return {"typ": t, "doc": doc, "default": default, "none_as": none_as}


WITNESSES = [
    ("C06-pattern-unanchored", {"name": "F", "doc": "", "params": [["a", P(lit(["alpha", "beta"]))]], "returns": None}),
    ("C06-none-default-dropped", {"name": "F", "doc": "", "params": [["a", P(base("int", True), None, ["n"])]], "returns": None}),
    ("C06-return-doc-wrapped-inside-word", {"name": "F", "doc": "", "params": [], "returns": {"typ": base("int"), "doc": "a" * 80 + " bbbbbbbb-cccccccc"}}),
    # the emitter writes the members into the pattern unescaped, the parser splits on "|" and re-quotes with '{}'
    ("C06-pattern-unescaped-invalid-regex", {"name": "F", "doc": "", "params": [["a", P(lit(["a(b", "c"]))]], "returns": None}),
    ("C06-pattern-unescaped-rejects-member", {"name": "F", "doc": "", "params": [["a", P(lit(["a.b", "c+d"]))]], "returns": None}),
    ("C06-pattern-unescaped-default", {"name": "F", "doc": "", "params": [["a", P(lit(["a.b", "c+d"]), None, ["s", "c+d"])]], "returns": None}),
    ("C06-pattern-unescaped-accepts-nonmember", {"name": "F", "doc": "", "params": [["a", P(lit(["a.b", "c"]))]], "returns": None}),
    ("C06-member-with-bar", {"name": "F", "doc": "", "params": [["a", P(lit(["a|b", "c"]))]], "returns": None}),
    ("C06-member-with-quote-or-backslash", {"name": "F", "doc": "", "params": [["a", P(lit(["it's", "x"]))]], "returns": None}),
    ("C06-only-empty-member", {"name": "F", "doc": "", "params": [["a", P(lit([""]))]], "returns": None}),
    ("C06-member-containing-Optional-text", {"name": "F", "doc": "", "params": [["a", P(lit(["Optional[x]", "y"], True))]], "returns": None}),
]
WRAP_WITNESS = "C06-return-doc-wrapped-inside-word"
FIXED = [
    {"name": "F", "doc": "", "params": [], "returns": None},
    # one-member Literals: the emitter raised AttributeError on these before the fix: commit (C06-single-member-literal)
    {"name": "F", "doc": "", "params": [["a", P(lit(["alpha"]))]], "returns": None},
    {"name": "F", "doc": "One.", "params": [["a", P(lit(["alpha"], True), "d", ["s", "alpha"])], ["b", P(lit(["x_1"]), None, ["s", "x_1"])]],
     "returns": {"typ": lit(["only"]), "doc": None}},
    # Literal members outside [A-Za-z0-9_]: hyphen, blank, dot, plus, parentheses, the empty string next to others
    {"name": "F", "doc": "", "params": [["a", P(lit(["pre-release", "stable", "long term"]), None, ["s", "long term"])]], "returns": None},
    {"name": "F", "doc": "", "params": [["a", P(lit(["a.b", "c+d"], True), "dots and plus")], ["b", P(lit(["x (beta)", "C++", ""]))]], "returns": None},
    {"name": "F", "doc": "Release channel.", "params": [["channel", P(lit(["pre-release", "e-mail", "50%", "key=value", "#1"], True), "which", ["s", "e-mail"])]],
     "returns": {"typ": base("str"), "doc": "the channel"}},
    {"name": None, "doc": "Summary line.", "params": [["a", P(base("int"), "the a", ["i", 5])], ["b", P(base("str", True), "bb")],
                                                      ["c", P(lit(["x_1", "alpha", "b2"]), None, ["s", "alpha"])], ["d", P(lit(["beta", "alpha"], True))]],
     "returns": {"typ": base("int"), "doc": "the result"}},
    {"name": "F", "doc": "Summary line.\n\nLonger description here.", "params": [["h", P(base("bool"), "", ["b", True])], ["g", P(base("float"), None, ["f", "0.5"])],
                                                                                   ["tf_kwargs", P(base("dict"))], ["e", P(base("list", True))]],
     "returns": {"typ": lit(["a", "b_1"], True), "doc": None}},
]


def gen_wrap_S(r):
    """Outside the description model's domain, inside the property's: entries long enough to be word-wrapped."""
    S = g.gen_S(r, with_return=True)
    k = r.random()
    if k < 0.5:
        S["returns"]["doc"] = " ".join(g.gen_line(r, 40, ret=True) for _ in range(r.randint(3, 6)))
    elif k < 0.8:
        S["returns"]["typ"] = {"opt": r.random() < 0.5, "lit": ["member_%d" % i for i in range(r.randint(9, 14))]}
    else:
        S["doc"] = "Summary.\n    indented %s\nlast line" % g.gen_line(r, 30)
    return S


def gen_edge_S(r):
    """Correspondence only: corners the typed-default domain excludes (str defaults that *are* none_types members, int
    default on a bool, …)."""
    S = g.gen_S(r, nparams=r.randint(1, 3))
    nm, p = S["params"][0]
    k = r.randint(0, 4)
    if k == 0:
        p["typ"], p["default"] = base("str", r.random() < 0.5), ["s", r.choice(["None", g.NONE_STR])]
    elif k == 1:
        p["typ"], p["default"] = base("bool"), ["i", r.choice([0, 1])]
    elif k == 2:
        p["typ"], p["default"] = base("int"), ["s", "not an int"]
    elif k == 3:
        p["typ"], p["default"] = lit(["a", "b"]), ["s", "not_a_member"]
    else:
        p["typ"], p["default"] = base("dict"), ["n"]
    return S


# ----------------------------------------------------------------------------------------------------------------
def line_coverage(Ss, mutants):
    """Executed lines of the anchored files over a sample of cases (in-process, sys.settrace)."""
    import cdd.class_.parse  # noqa: F401
    from cdd.json_schema.emit import json_schema as emit

    files = {str(core.REPO / f): f for f in ANCHORED}
    hit = {f: set() for f in ANCHORED}

    def local(frame, event, arg):
        if event == "line":
            hit[files[frame.f_code.co_filename]].add(frame.f_lineno)
        return local

    def tracer(frame, event, arg):
        return local if frame.f_code.co_filename in files else None

    sys.settrace(tracer)
    try:
        for S in Ss:
            try:
                real_parse(emit(g.to_py_ir(S)))
            except Exception:  # noqa
                pass
        for m in mutants:
            real_parse(m)
    finally:
        sys.settrace(None)
    out = {}
    for path, f in files.items():
        code = compile(Path(path).read_text(), path, "exec")
        lines = set()

        def walk(c, top):
            if not top:
                for _, _, ln in c.co_lines():
                    if ln is not None and ln != c.co_firstlineno:
                        lines.add(ln)
            for k in c.co_consts:
                if hasattr(k, "co_lines"):
                    walk(k, False)

        walk(code, True)
        missed = sorted(lines - hit[f])
        out[f] = {"function_body_lines": len(lines), "executed": len(lines & hit[f]), "not_executed": missed[:60]}
    return out


def run(chk: core.Check) -> int:
    import cdd.class_.parse  # noqa: F401

    # ---- (0) tables → Lean, build, audit ------------------------------------------------------------------------
    tables = scan(core.REPO)
    core.write_if_changed(core.LEAN / "CddVerif" / "Gen" / "JsonSchemaTables.lean", to_lean(tables))
    chk.lean(MODULE, THEOREMS)
    chk.coverage["tables"] = {"how": tables["how"], "json_type2typ": len(tables["json_type2typ"]), "typ2json_type": len(tables["typ2json_type"]),
                              "none_types_str": tables["none_strs"]}
    chk.trusted_base += [
        "translator harness/translators/jsonschema_tables.py: json_type2typ read off the source (dict literal), typ2json_type as its inverse when the source defines it by the inverting comprehension (else the imported value), none_types from the imported module; compared with the imported tables on every run",
        "model lean/CddVerif/Model/JsonSchema.lean: types are a structural grammar (six names, Literal[str..], Optional[..]) — the code's string predicates on the type string are structural tests; Typ.render is compared with the string handed to the real code on every case",
        "the top-level `description` (docstring emit/parse, textwrap) is a *reference* model on the trigger-free prose domain (printable ASCII, none of the 12 docstring tokens, no edge blanks, return entry ≤ 100 columns); outside it only the oracle on the real code speaks",
        "validSchema is a fragment of the 2020-12 meta-schema ($id $schema description type properties required default pattern format + unknown keywords); tied to jsonschema.Draft202012Validator.check_schema (python3-vt) on emitted schemas and mutants; regular expressions only of word characters, '|' and blank; `format` assertions of the meta-schema other than `regex` are not modelled",
        "regex semantics: re.search for alternations of literal strings without regular-expression metacharacters (patAccepts; printable ASCII minus . ^ $ * + ? { } [ ] \\ | ( )), tied to Python's re and to jsonschema's `pattern` on generated pairs; patterns with metacharacters (emitted unescaped) are observed on the real code only",
        "Literal members: Typ.render quotes them as '…' (what the parser rebuilds); the harness hands Python's repr to the real code — equal on the domain (no ' and no backslash); return-type Literals keep word-character members (they travel through the docstring)",
        "float defaults: finite decimals without exponent whose repr round-trips; NaN/Infinity are outside the domain",
        "a default on the *return entry* travels through the description text (\":return: <doc>. Defaults to <default>\", set_default_doc / extract_default in cdd/shared/defaults_utils.py): not modelled in Lean; observed on the real code by the round-trip oracle (doc compared with DESIGN §3 normDoc: one terminal '.' dropped)",
        "the interface view excludes the function name (DESIGN §3): parse returns name None for every emitted schema ($id is not read back)",
    ]
    have_driver = core.DRIVER.exists()
    rng = chk.rng
    # tables op vs the imported tables
    if have_driver:
        import cdd.json_schema.utils.emit_utils as eu
        import cdd.json_schema.utils.parse_utils as pu
        import cdd.shared.pure_utils as pure

        mt = core.model_batch([{"op": "c06.tables"}])[0]
        same = (mt.get("json_type2typ") == [list(kv) for kv in pu.json_type2typ.items()] and mt.get("typ2json_type") == [list(kv) for kv in eu.typ2json_type.items()]
                and mt.get("none_strs") == [x for x in pure.none_types if isinstance(x, str)] and mt.get("none_in_none_types") == any(x is None for x in pure.none_types))
        chk.oblige("correspondence: Gen.JsonSchemaTables = imported json_type2typ / typ2json_type / none_types", "correspondence", same, json.dumps(mt)[:600])

    # ---- (1) cases ----------------------------------------------------------------------------------------------
    n_dom, n_wrap, n_edge = (1500, 150, 120) if chk.quick else (20000, 1500, 1000)
    cases = [("witness-wrap" if fid == WRAP_WITNESS else "witness", S) for fid, S in WITNESSES] + [("domain", S) for S in FIXED]
    for n in range(0, 9):  # every parameter count of the quantifier at least a few times
        for _ in range(3):
            cases.append(("domain", g.gen_S(rng, nparams=n)))
    cases += [("domain", g.gen_S(rng)) for _ in range(n_dom)]
    cases += [("domain", g.gen_S(rng, max_params=14)) for _ in range(n_dom // 30)]
    cases += [("wrap", gen_wrap_S(rng)) for _ in range(n_wrap)]
    cases += [("edge", gen_edge_S(rng)) for _ in range(n_edge)]
    # return entries that carry a default (it travels through the description text): deterministic corners first —
    # every scalar kind, falsy and truthy, with a doc that does / does not end in '.' — then generated ones (oracle only)
    for b, ds in (("int", [0, 3, -3]), ("float", ["0.0", "1.5"]), ("bool", [False, True]), ("str", ["abc", "a b"])):
        for d in ds:
            for doc in ("the outcome.", "the outcome"):
                for o in (False, True):
                    cases.append(("retdefault", {"name": "F", "doc": "Count the widgets.", "params": [["start", P(base("int"), "where to start", ["i", 0])]],
                                                 "returns": {"typ": base(b, o), "doc": doc, "default": [{"int": "i", "float": "f", "bool": "b", "str": "s"}[b], d], "none_as": "NoneStr"}}))
    cases += [("retdefault", g.gen_retdefault_S(rng)) for _ in range(250 if chk.quick else 3000)]
    Ss = [S for _, S in cases]
    impl = robust_map(impl_emit_parse, Ss)
    model = core.model_batch([{"op": "c06.emit", "ir": g.S_for_model(S)} for S in Ss]) if have_driver else None

    # ---- (2) emit correspondence --------------------------------------------------------------------------------
    n_dis = n_cmp = n_in_domain = 0
    dist = {"nparams": {}, "typ": {}, "default": {}, "param_doc": {}, "doc": {}, "returns": {}, "stream": {}}

    def bump(d, k):
        dist[d][str(k)] = dist[d].get(str(k), 0) + 1

    for k, ((stream, S), r) in enumerate(zip(cases, impl)):
        bump("stream", stream)
        bump("nparams", len(S["params"]))
        bump("doc", "empty" if not S["doc"] else ("multi-line" if "\n" in S["doc"] else "one-line"))
        bump("returns", "none" if S["returns"] is None else ("typ+doc" if S["returns"]["doc"] else "typ") + ("+default" if S["returns"].get("default") else ""))
        for _, p in S["params"]:
            bump("typ", _tk(p["typ"]))
            bump("default", "absent" if p["default"] is None else p["default"][0])
            bump("param_doc", "absent" if p["doc"] is None else ("empty" if p["doc"] == "" else "text"))
        m = model[k] if model is not None else None
        in_dom = bool(m and m.get("in_domain"))
        n_in_domain += in_dom
        nontrivial = in_dom and len(S["params"]) >= 2 and any("lit" in p["typ"] for _, p in S["params"]) and any(p["default"] for _, p in S["params"])
        chk.count(("emit", json.dumps(S, sort_keys=True)), nontrivial)
        if k in (1, 2, len(WITNESSES) + 1, len(WITNESSES) + 2, len(WITNESSES) + 40, len(WITNESSES) + 41):
            chk.sample({"stream": stream, "ir": g.to_py_ir(S) and json.loads(json.dumps(g.to_py_ir(S), default=repr)),
                        "emitted": None if "schema" not in r else g.from_wire(r["schema"]) if not _has_bang(r["schema"]) else "non-JSON"})
        if m is None or stream in ("wrap", "witness-wrap", "retdefault") or r.get("skipped"):
            continue
        if "error" in m:
            raise core.HarnessError("c06.emit: %s" % m["error"])
        n_cmp += 1
        if stream == "domain" and in_dom != g.S_in_domain(S):
            raise core.HarnessError("generator and model disagree about the domain (model %s): %s" % (in_dom, json.dumps(S)))
        rtyps = [g.render_typ(p["typ"]) for _, p in S["params"]]
        a = {"raises": True} if "emit_raises" in r else g.canon_schema(r.get("schema")) if "schema" in r else {"no-result": True}
        b = {"raises": True} if "raises" in m else g.canon_schema(m["schema"])
        # Typ.render quotes members as '…' (what the parser rebuilds); Python's repr agrees on the domain (no ' and no \)
        if a != b or (in_dom and m["typs"] != rtyps) or (S["returns"] is not None and m["ret_typ"] != g.render_typ(S["returns"]["typ"])):
            n_dis += 1
            chk.disagreement("C06 correspondence: json_schema emit", {"S": S}, a, b)
    chk.oblige("correspondence: cdd.json_schema.emit.json_schema = JsonSchema.emit (dict equal; Typ.render = type string) on %d interfaces" % n_cmp,
               "correspondence", model is not None and n_dis == 0, "%d disagreements" % n_dis)
    chk.coverage["input_distribution"] = dist
    chk.coverage["in_model_domain"] = n_in_domain

    # ---- (3) parse correspondence: real emitted schemas + parse mutants -----------------------------------------
    emitted = [(k, g.from_wire(r["schema"])) for k, r in enumerate(impl) if isinstance(r, dict) and "schema" in r and not _has_bang(r["schema"])]
    parse_inputs = []  # (kind, wire, real canon)
    for k, schema in emitted:
        if cases[k][0] in ("domain", "edge", "witness"):  # the description model speaks on its domain only (not: word-wrapped entries)
            parse_inputs.append(("emitted", impl[k]["schema"], impl[k]["parsed"]))
    n_pm = 700 if chk.quick else 12000
    dom_emitted = [(k, s) for k, s in emitted if cases[k][0] == "domain" and plain_schema(s)]  # mutants start from vouched-for patterns
    pm = []
    for _ in range(n_pm):
        k, schema = rng.choice(dom_emitted)
        mut, ops = mutate_for_parse(rng, schema)
        pm.append((g.to_wire(mut), ops))
    pm_real = robust_map(impl_parse_wire, [w for w, _ in pm])
    for (w, ops), rr in zip(pm, pm_real):
        if not rr.get("skipped"):
            parse_inputs.append(("mutant:" + "+".join(ops), w, rr))
    if have_driver:
        mouts = core.model_batch([{"op": "c06.parse", "schema": w} for _, w, _ in parse_inputs])
        n_dis = 0
        kinds = {}
        for (kind, w, rr), mo in zip(parse_inputs, mouts):
            if mo.get("raises") == "out-of-fragment" or "error" in mo:
                raise core.HarnessError("c06.parse: input outside the parser model's fragment: %s %s" % (kind, json.dumps(mo)[:200]))
            a = {"raises": True} if rr.get("raises") else rr if "params" in rr else {"no-result": rr}
            b = canon_model_parsed(mo)
            kk = ("emitted" if kind == "emitted" else "mutant") + ("/raises" if a.get("raises") else "/ok")
            kinds[kk] = kinds.get(kk, 0) + 1
            chk.count(("parse", json.dumps(w, sort_keys=True)), kind != "emitted" or len(w[1]) > 0)
            if a != b:
                n_dis += 1
                if os.environ.get("C06_DEBUG"):
                    print("PARSE-DIS", kind, json.dumps(w)[:1200], "\n   impl", json.dumps(a)[:1200], "\n   model", json.dumps(b)[:1200])
                chk.disagreement("C06 correspondence: json_schema parse", {"kind": kind, "schema": w}, a, b)
        chk.oblige("correspondence: cdd.json_schema.parse.json_schema = JsonSchema.parse on %d schemas (%s)" % (len(parse_inputs), kinds),
                   "correspondence", n_dis == 0, "%d disagreements" % n_dis)
        chk.coverage["parse_inputs"] = kinds

    # ---- (4) validators (python3-vt): meta-schema, defaults, patterns — oracle and ValidSchema/validates tie -------
    schemas_json, sch_src = [], []  # emitted schemas and mutants as JSON values
    for k, schema in emitted:
        schemas_json.append(schema)
        sch_src.append(("emitted", k, None))
    n_mut = len(dom_emitted) if chk.quick else 2 * len(dom_emitted)
    for i in range(n_mut):
        k, schema = dom_emitted[i % len(dom_emitted)]
        mut, ops = mutate_schema(rng, schema)
        schemas_json.append(mut)
        sch_src.append(("mutant", k, ops))
    pairs, pair_src = [], []  # (property schema, instance)
    for k, schema in emitted:
        if cases[k][0] == "edge":
            # correspondence only: defaults outside the typed-default domain
            props = schema.get("properties", {})
            for nm, ps in props.items():
                if isinstance(ps, dict) and "default" in ps:
                    pairs.append([ps, ps["default"]])
                    pair_src.append(("edge-default", None, nm, None))
            continue
        pp, ss = validation_pairs(cases[k][1], schema)
        pairs += pp
        pair_src += [(kind, k, nm, x) for kind, nm, x in ss]
    # validates-mutants: property schemas with shuffled type / pattern / instance
    inst_pool = [0, 1, -5, 2 ** 70, 1.0, 0.5, -0.0, 100.0, True, False, None, "", "alpha", "xalphax", "b2", "a b", {}, [], [1], {"a": 1}, "0"]
    for _ in range(1500 if chk.quick else 20000):
        ps = {}
        if rng.random() < 0.9:
            ps["type"] = rng.choice(SIMPLE_TYPES)
        if rng.random() < 0.4:
            ps["pattern"] = "|".join(gen_plain_member(rng) for _ in range(rng.randint(1, 3))) if rng.random() < 0.8 else rng.choice(["a||b", "", "|", "a|"])
        if rng.random() < 0.3:
            ps["description"] = "d"
        inst = rng.choice(inst_pool) if rng.random() < 0.7 else g.gen_member(rng)  # any string is an instance
        if rng.random() < 0.3:
            ps["default"] = inst
        pairs.append([ps, inst])
        pair_src.append(("synthetic", None, None, None))
    vs, vv, version = run_vt(schemas_json, pairs)
    chk.coverage["jsonschema_version"] = version
    chk.trusted_base.append("jsonschema %s (Draft202012Validator) in python3-vt is the reference for the meta-schema and for instance validation" % version)
    meta_ok = {}  # case index → bool
    for (kind, k, ops), res in zip(sch_src, vs):
        if kind == "emitted":
            meta_ok[k] = res
    if have_driver:
        mv = core.model_batch([{"op": "c06.valid", "schema": g.to_wire(s)} for s in schemas_json])
        n_dis = 0
        tally = {"emitted/valid": 0, "emitted/invalid": 0, "mutant/valid": 0, "mutant/invalid": 0}
        for (kind, k, ops), s, res, m in zip(sch_src, schemas_json, vs, mv):
            if not plain_schema(s):
                tally["emitted/metacharacter-pattern (oracle only)"] = tally.get("emitted/metacharacter-pattern (oracle only)", 0) + 1
                continue
            ok = res is True
            tally["%s/%s" % (kind, "valid" if ok else "invalid")] += 1
            chk.count(("valid", json.dumps(s, sort_keys=True, default=repr)), kind == "mutant")
            if "error" in m:
                raise core.HarnessError("c06.valid: %s" % m["error"])
            if m["valid"] != ok:
                n_dis += 1
                chk.disagreement("C06 correspondence: validSchema vs check_schema", {"kind": kind, "ops": ops, "schema": g.to_wire(s)}, res, m["valid"])
        chk.oblige("correspondence: JsonSchema.validSchema = jsonschema.Draft202012Validator.check_schema on %d schemas (%s)" % (len(schemas_json), tally),
                   "correspondence", n_dis == 0, "%d disagreements" % n_dis)
        chk.coverage["meta_schema_cases"] = tally
        mvv = core.model_batch([{"op": "c06.validates", "schema": g.to_wire(a), "inst": g.to_wire(b)} for a, b in pairs])
        n_dis = 0
        tally = {}
        for src, (a, b), res, m in zip(pair_src, pairs, vv, mvv):
            if "error" in m:
                raise core.HarnessError("c06.validates: %s" % m["error"])
            if "pattern" in a and not plain_pat(a["pattern"]):
                tally["metacharacter-pattern (oracle only)"] = tally.get("metacharacter-pattern (oracle only)", 0) + 1
                continue
            key = "%s/%s" % (src[0].split(":")[0], "valid" if res is True else "invalid")
            tally[key] = tally.get(key, 0) + 1
            chk.count(("validates", json.dumps([a, b], sort_keys=True)), True)
            if m["valid"] != res:
                n_dis += 1
                chk.disagreement("C06 correspondence: validates vs jsonschema is_valid", {"schema": a, "instance": b}, res, m["valid"])
        chk.oblige("correspondence: JsonSchema.validates = Draft202012Validator(property).is_valid(instance) on %d pairs (%s)" % (len(pairs), tally),
                   "correspondence", n_dis == 0, "%d disagreements" % n_dis)
        chk.coverage["instance_validation_cases"] = tally
        # regex op against Python's re
        pats = []
        for _ in range(2000 if chk.quick else 30000):
            ms = [gen_plain_member(rng) if rng.random() < 0.9 else "" for _ in range(rng.randint(1, 4))]
            s = rng.choice(ms) if rng.random() < 0.3 else rng.choice(["", "x", "zzz"]) + (rng.choice(ms) if rng.random() < 0.5 else g.gen_member(rng)) + rng.choice(["", "_", "x y"])
            if rng.random() < 0.3:
                s = s[: max(0, len(s) - 1)]
            pats.append(("|".join(ms), s))
        mo = core.model_batch([{"op": "c06.pat", "pat": p, "s": s} for p, s in pats])
        n_dis = 0
        for (p, s), m in zip(pats, mo):
            chk.count(("pat", p, s), True)
            if m.get("accepts") != (re.search(p, s) is not None):
                n_dis += 1
                chk.disagreement("C06 correspondence: patAccepts vs re.search", {"pattern": p, "s": s}, re.search(p, s) is not None, m)
        chk.oblige("correspondence: JsonSchema.patAccepts = (re.search(pattern, s) is not None) on %d (pattern, string) pairs" % len(pats),
                   "correspondence", n_dis == 0, "%d disagreements" % n_dis)

    # ---- (5) the property's oracle on the real outputs -----------------------------------------------------------
    fails_by_case = {}
    for k, ((stream, S), r) in enumerate(zip(cases, impl)):
        if stream == "edge":
            continue
        fails_by_case[k] = oracle_static(S, r)
        if "schema" in r and k in meta_ok and meta_ok[k] is not True:
            fails_by_case[k].append(({"kind": "invalid-schema", "why": _why(meta_ok[k]), "region": _schema_region(S)}, "check_schema: %s" % meta_ok[k]))
    for (kind, k, nm, x), (a, b), res in zip(pair_src, pairs, vv):
        if k is None:
            continue
        f = oracle_validation(cases[k][1], kind, nm, a, b, res)
        if f is not None:
            fails_by_case[k].append(f)
    # json_schema_file: the written file is JSON and holds the same schema
    file_cases = [k for k, (stream, _) in enumerate(cases) if stream == "domain" and "schema" in impl[k]][: (60 if chk.quick else 600)]
    for k, fr in zip(file_cases, robust_map(impl_emit_file, [cases[k][1] for k in file_cases])):
        chk.count(("file", k), True)
        if fr.get("skipped"):
            continue
        if fr.get("loaded") != impl[k]["schema"]:
            fails_by_case[k].append(({"kind": "file-output", "how": "raises" if "raises" in fr else "differs"},
                                     "json_schema_file wrote %s, json_schema returned %s" % (json.dumps(fr)[:300], json.dumps(impl[k]["schema"])[:300])))
    chk.coverage["json_schema_file_cases"] = len(file_cases)
    for k, fl in fails_by_case.items():
        for sig, what in fl:
            chk.failure(sig, what, {"kind": "ir", "S": cases[k][1]})
    for (fid, S), k in zip(WITNESSES, range(len(WITNESSES))):
        if not any(_matches(chk, fid, sig) for sig, _ in fails_by_case.get(k, [])):
            chk.notes.append("known finding %s: its witness no longer fails (stale?)" % fid)
    chk.coverage["oracle_cases"] = len(fails_by_case)
    chk.coverage["oracle_failures_by_kind"] = _tally([sig for fl in fails_by_case.values() for sig, _ in fl])
    # ---- line coverage of the anchored files over a sample --------------------------------------------------------
    try:
        chk.coverage["anchored_line_coverage"] = line_coverage(Ss[:300], [g.from_wire(w) for w, _ in pm[:300]])
    except Exception as e:  # noqa
        chk.notes.append("line coverage not measured: %r" % e)
    return chk.finish("interfaces from the JSON-representable domain (0..8 parameters, a few up to 14; int/float/str/bool/dict/list, Optional[..], "
                      "Literal[str..] with arbitrary short printable-ASCII members (blank, hyphen, dot, +, brackets, …; a few with | ' \\ or only '' — outside the round-trip domain, oracle + emit/parse ties only), typed defaults incl. None, with/without docs and return entry) + word-wrapped return entries + return entries carrying a typed default (deterministic falsy/truthy corners, then generated) "
                      "(oracle only) + typed-default corner cases (correspondence only); non-trivial = in the model's domain with >=2 parameters, a Literal and a default; "
                      "mutants of emitted schemas for the meta-schema / instance-validation / parser ties")


def _schema_region(S):
    return "regex-metacharacter-member" if any("lit" in p["typ"] and g.has_meta(p["typ"]["lit"]) for _, p in S["params"]) else "plain"


def _why(msg):
    if "is not a 'regex'" in str(msg):
        return "not-a-regex"
    m = re.search(r"is not of type '(\w+)'|does not match|non-unique|not valid under any", str(msg))
    return m.group(0) if m else "other"


def _tally(sigs):
    out = {}
    for s in sigs:
        k = json.dumps(s, sort_keys=True)
        out[k] = out.get(k, 0) + 1
    return out


def _matches(chk, fid, sig):
    for it in chk.kf.items:
        if it["id"] == fid and all(sig.get(k) == v for k, v in it["match"].items()):
            return True
    return False


def replay(path: str) -> int:
    import cdd.class_.parse  # noqa: F401

    d = json.loads(Path(path).read_text())
    rp = d.get("replay") or {}
    if rp.get("kind") != "ir":
        print("replay: nothing to replay on the real code (broken obligation without a failing input): %s" % json.dumps(d.get("no_longer_checks", d))[:600])
        return 1
    S = rp["S"]
    r = impl_emit_parse(S)
    fails = oracle_static(S, r)
    if "schema" in r and not _has_bang(r["schema"]):
        schema = g.from_wire(r["schema"])
        pairs, src = validation_pairs(S, schema)
        vs, vv, _ = run_vt([schema], pairs, nproc=1)
        if vs[0] is not True:
            fails.append(({"kind": "invalid-schema", "why": _why(vs[0]), "region": _schema_region(S)}, "check_schema: %s" % vs[0]))
        for (kind, nm, x), (a, b), res in zip(src, pairs, vv):
            f = oracle_validation(S, kind, nm, a, b, res)
            if f is not None:
                fails.append(f)
    kf = core.KnownFindings("C06")
    print("replay C06 on %s" % json.dumps(g.to_py_ir(S), default=repr)[:600])
    rc = 0
    for sig, what in fails:
        it = kf.match(sig)
        print("  %s %s :: %s" % ("known-finding(%s)" % it["id"] if it else "FAIL", json.dumps(sig), what[:300]))
        rc = rc or (0 if it else 1)
    if not fails:
        print("  property holds on this input")
    return rc
