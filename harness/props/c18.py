"""C18 — every public module imports cleanly on its own, in any order (DESIGN.md §4 C18)."""
from __future__ import annotations

import concurrent.futures as cf
import json
import tempfile
from pathlib import Path

from harness import core
from harness.translators.imports import ImportTable, pair_files

CODE = r'''
import sys, json, importlib
seq = %r
r = "ok"
try:
    for m in seq: importlib.import_module(m)
except BaseException as e:
    r = type(e).__name__ + ": " + str(e)[:300]
names = {k: sorted(n for n in vars(v) if not (n.startswith('__') and n.endswith('__')))
         for k, v in sys.modules.items() if (k == %r or k.startswith(%r)) and v is not None}
print(json.dumps({"r": r, "names": names}))
'''


def real_import(seq, cwd):
    st, out = core.run_watchdog(CODE % (list(seq), "cdd", "cdd."), 120, cwd=cwd)
    if st == "timeout":
        return {"r": "timeout", "names": {}}
    try:
        return json.loads(out.strip().split("\n")[-1])
    except Exception:  # noqa
        return {"r": "crash: " + out[-300:], "names": {}}


def verdict(r):
    return "ok" if r["r"] == "ok" else r["r"].split(":")[0]


def run(chk: core.Check) -> int:
    t = ImportTable(core.REPO)
    core.write_if_changed(core.LEAN / "CddVerif" / "Gen" / "Imports.lean", t.to_lean())
    # C18Hist (imports C18): the lift from single imports to EVERY import history of any length (monotone simulation, Proofs/ImportsMono.lean) under a
    # decidable static condition on the regenerated table (static_ok, kernel evaluation)
    theorems = ["C18.single_ok", "C18.single_ok_each", "C18.table_nonempty", "C18.static_ok", "C18.histories_ok_generic", "C18.all_histories_ok", "C18.all_histories_done",
                "C18.load_mono_table", "C18.allSingles_not_enough"]
    module = "CddVerif.Properties.C18Hist"
    chk.lean(module, theorems, checker=False)
    if not chk.quick:
        # all pairs: generated chunked theorems (kernel evaluation), a separate lake library built by this tier only
        pdir = core.LEAN / "CddVerifPairs"
        files = pair_files(t)
        for k, v in files.items():
            core.write_if_changed(pdir / k, v)
        for old in pdir.glob("*.lean"):
            if old.name not in files:
                old.unlink()
        chk.lean("CddVerifPairs.All", ["C18.Pairs.pair_ok_all"], checker=False)
    chk.trusted_base += [
        "translator harness/translators/imports.py (Python ast walk → event table; version-flag conditions folded for the running interpreter); table regenerated on every run: %d modules (%d public), %d names, %d events"
        % (len(t.mods), len(t.public), len(t.names), sum(len(v) for v in t.events.values())),
        "abstract import machine lean/CddVerif/Model/Imports.lean (sys.modules entry before body, parent attribute after child finishes, from-import = attribute or submodule), tied to CPython by fresh-interpreter imports",
    ]
    chk.coverage["public_modules"] = len(t.public)
    j = t.to_json()
    inv = {v: k for k, v in t.names.items()}
    rng = chk.rng
    n = len(t.public)
    all_pairs = [(a, b) for a in range(n) for b in range(a + 1, n)]
    pairs = all_pairs if not chk.quick else rng.sample(all_pairs, 40)
    seqs = [[m] for m in t.public] + [[t.public[a], t.public[b]] for a, b in pairs] + [[t.public[b], t.public[a]] for a, b in pairs]
    # longer histories (3..8 modules, repetitions allowed): what C18.all_histories_ok claims for every length
    n_hist = 24 if chk.quick else 400
    seqs += [[rng.choice(t.public) for _ in range(rng.randint(3, 8))] for _ in range(n_hist)]
    # real runs in fresh interpreters
    with tempfile.TemporaryDirectory(prefix="c18_") as cwd, cf.ThreadPoolExecutor(core.NCPU) as ex:
        real = list(ex.map(lambda s: real_import(s, cwd), seqs))
    # model runs on the same regenerated table
    model = None
    if core.DRIVER.exists():
        base = {k: j[k] for k in ("tbl", "short", "stride", "fuel")}
        ch = {m: c for m, c in zip(t.public, j["chains"])}
        r1 = core.model_batch([{"op": "c18.run", "names": True, "seqs": [[ch[m]] for m in t.public], **base}])[0]
        nreq = 16
        rest = seqs[n:]
        reqs = [{"op": "c18.run", "names": False, "seqs": [[ch[m] for m in s] for s in rest[k::nreq]], **base} for k in range(nreq)]
        outs = core.model_batch(reqs, nproc=nreq) if rest else []
        r2 = [None] * len(rest)
        for k, o in enumerate(outs):
            if "error" in o:
                raise core.HarnessError("driver: %s" % o["error"])
            r2[k::nreq] = o["results"]
        if "error" in r1:
            raise core.HarnessError("driver: %s" % r1["error"])
        model = r1["results"] + r2
    n_dis = 0
    for i, (seq, r) in enumerate(zip(seqs, real)):
        chk.count(tuple(seq), True)
        v = verdict(r)
        if i < 3 or (i >= n and i < n + 2):
            chk.sample({"import_sequence": seq, "real": v, "model": model[i]["r"] if model else None})
        if v != "ok":
            chk.failure({"kind": "import-fails", "seq": seq}, "fresh interpreter: import %s fails: %s" % (" then ".join(seq), r["r"]),
                        {"seq": seq, "real": r["r"]})
        if model is not None:
            m = model[i]
            if m["r"] != v:
                n_dis += 1
                chk.disagreement("C18 correspondence: import verdict (machine vs CPython)", {"seq": seq}, r["r"], m["r"])
            elif v == "ok" and "names" in m:
                for k, nm in enumerate(m["names"]):
                    mod = t.mods[k]
                    if nm is None:
                        if mod in r["names"]:
                            n_dis += 1
                            chk.disagreement("C18 correspondence: set of loaded modules", {"seq": seq, "module": mod}, "loaded", "not loaded")
                        continue
                    if mod not in r["names"]:
                        n_dis += 1
                        chk.disagreement("C18 correspondence: set of loaded modules", {"seq": seq, "module": mod}, "not loaded", "loaded")
                        continue
                    mn = {x for x in (inv[y] for y in nm) if not (x.startswith("__") and x.endswith("__"))}
                    rn = set(r["names"][mod])
                    extra_model, extra_real = mn - rn, rn - mn
                    if extra_model or (extra_real and mod not in t.star_external):
                        n_dis += 1
                        chk.disagreement("C18 correspondence: names bound per module", {"seq": seq, "module": mod},
                                         sorted(extra_real)[:20], sorted(extra_model)[:20])
    # property oracle on the real pairs: both orders leave the same public names bound
    k = len(pairs)
    for idx, (a, b) in enumerate(pairs):
        ra, rb = real[n + idx], real[n + k + idx]
        if verdict(ra) == "ok" and verdict(rb) == "ok" and ra["names"] != rb["names"]:
            diff = sorted(m for m in set(ra["names"]) | set(rb["names"]) if ra["names"].get(m) != rb["names"].get(m))
            chk.failure({"kind": "names-differ", "pair": [t.public[a], t.public[b]]},
                        "import order changes the names bound in %s" % diff[:5], {"pair": [t.public[a], t.public[b]], "modules": diff})
    chk.oblige("correspondence: import machine = CPython on %d fresh-interpreter import sequences (verdict, loaded modules, bound names)" % len(seqs),
               "correspondence", n_dis == 0 and model is not None, "%d disagreements" % n_dis)
    chk.coverage["single_imports"] = n
    chk.coverage["ordered_pairs_run"] = 2 * len(pairs)
    chk.coverage["longer_histories_run"] = n_hist
    chk.coverage["exhaustive"] = not chk.quick
    return chk.finish("fresh-interpreter imports: every public module first (exhaustive), ordered pairs both ways (%s), random histories of 3-8 modules; every case is distinct and non-trivial (a real interpreter start)"
                      % ("all" if not chk.quick else "40 sampled unordered pairs"))


def replay(path: str) -> int:
    d = json.loads(Path(path).read_text())
    rp = d["replay"]
    seqs = [rp["seq"]] if "seq" in rp else [rp["pair"], rp["pair"][::-1]]
    with tempfile.TemporaryDirectory() as cwd:
        rs = [real_import(s, cwd) for s in seqs]
    bad = any(verdict(r) != "ok" for r in rs) or (len(rs) == 2 and rs[0]["names"] != rs[1]["names"])
    print("replay:", seqs, [r["r"] for r in rs], "->", "fails" if bad else "property holds")
    return 1 if bad else 0
