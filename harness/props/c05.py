"""C05 — SQLAlchemy class, Table and hybrid forms round-trip and agree (DESIGN.md §4 C05)."""
from __future__ import annotations

import ast
import copy
import json
import re
from collections import OrderedDict
from pathlib import Path

from harness import core
from harness.translators import sqltables

MODULE = "CddVerif.Properties.C05"
THEOREMS = [
    # (i) exactly one primary key per emission
    "C05.one_pk", "C05.at_least_one_pk", "C05.one_pk_table", "C05.one_pk_class", "C05.one_pk_hybrid",
    # the regenerated type tables
    "C05.tables_agree",
    # (ii) round trip, the normalisations, where it fails
    "C05.column_round_trip", "C05.round_trip_view", "C05.normVal_plain", "C05.normDoc_clean", "C05.columns_round_trip", "C05.all_variants_round_trip",
    "C05.ensurePK_keeps_columns", "C05.ensurePK_names",
    "C05.ensurePK_replaces_id", "C05.dict_becomes_optional", "C05.single_literal_lost", "C05.C05_full_false",
    # column names are opaque strings (which steps inspect them)
    "C05.names_untouched",
    # the header description: the text handed to the docstring emitter agrees between the variants; the repaired defect
    "C05.header_text_agrees", "C05.header_text_before_fix",
    # (iii) variant agreement, class <-> Table normalisation
    "C05.variants_agree", "C05.table_to_class_round_trip", "C05.underscore_names_are_columns",
]
NoneStr = "```(None)```"
VARIANTS = ("class", "table", "hybrid")
STYLES = ("rest", "google", "numpydoc")

# ------------------------------------------------------------------------------------------------------------
# structured types  (JSON form understood by the driver:  {"n":..} {"opt":..} {"lit":[..]} {"list":..} {"union":[..,..]})
# ------------------------------------------------------------------------------------------------------------
SCALARS = ["int", "float", "str", "bool", "dict"]
MEMBERS = ["alpha", "beta", "gamma", "delta", "eps", "a", "b", "x y", "A-1", "r2",
           # members whose `repr` is not quote + text + quote: apostrophes, double quotes, both, backslashes; non-ASCII text
           "don't care", "it's", "'n", 'say "hi"', 'both \' and "', "back\\slash", "C:\\dir\\", "naïve", "名前"]
assert all(m.isprintable() and not (len(m) > 2 and m[0] == m[-1] and m[0] in "'\"") for m in MEMBERS)  # printable, not wrapped in quotes (set_value)


def render_typ(t, dq=False) -> str:
    if "n" in t:
        return t["n"]
    if "opt" in t:
        return "Optional[%s]" % render_typ(t["opt"], dq)
    if "lit" in t:
        if dq and not any(ch in m for m in t["lit"] for ch in '"\\'):
            return "Literal[%s]" % ",".join('"%s"' % m for m in t["lit"])
        return "Literal[%s]" % ", ".join(repr(m) for m in t["lit"])  # Python's own repr (= Sql.reprStr of the model)
    if "list" in t:
        return "List[%s]" % render_typ(t["list"], dq)
    return "Union[%s, %s]" % (render_typ(t["union"][0], dq), render_typ(t["union"][1], dq))


def typ_class(t) -> str:
    """coarse class of a structured type, used in failure signatures"""
    if t is None:
        return "<none>"
    if "n" in t:
        return t["n"]
    if "opt" in t:
        return "Optional[%s]" % typ_class(t["opt"])
    if "lit" in t:
        return "Literal[1]" if len(t["lit"]) == 1 else "Literal"
    if "list" in t:
        return "List"
    return "Union"


def typ_str_class(s) -> str:
    """coarse class of a type *string* (what came back)"""
    if s is None:
        return "<missing>"
    m = re.fullmatch(r"Optional\[(.*)\]", s)
    if m:
        return "Optional[%s]" % typ_str_class(m.group(1))
    if s.startswith("Literal["):
        try:
            sl = ast.parse(s).body[0].value.slice
            return "Literal" if isinstance(sl, ast.Tuple) and len(sl.elts) > 1 else "Literal[1]"
        except Exception:  # noqa
            return "Literal?"
    return s if re.fullmatch(r"[A-Za-z_][A-Za-z_0-9.]*", s) else "<other>"


def gen_typ_dom(r):
    """SQL-representable types: int/float/str/bool/dict, Literal[str,..], Optional[..] of those"""
    k = r.random()
    if k < 0.62:
        base = {"n": r.choice(SCALARS)}
    else:
        n = 1 if r.random() < 0.08 else r.randint(2, 4)
        base = {"lit": r.sample(MEMBERS, n)}
    return {"opt": base} if r.random() < 0.35 else base


def gen_default_dom(r, t):
    """a default allowed by the domain: Optional[..] only without a non-None default"""
    if "opt" in t:
        return r.choice([None, None, ("v", NoneStr)])
    if r.random() < 0.5:
        return None
    if "lit" in t:
        return ("v", r.choice(t["lit"]))
    n = t["n"]
    if n == "int":
        return ("v", r.choice([0, 1, 5, -3, 42, 100, 2 ** 70, -1]))
    if n == "float":
        return ("v", r.choice([0.5, 1.0, -2.5, 0.001, 3.14, 1e-07, 1e22, 0.0]))
    if n == "str":
        return ("v", r.choice(["mnist", "foo", "bar baz", "a_b", "~/data", "", "None", "it's", 'say "hi"', "tab\there", "naïve"]))
    if n == "bool":
        return ("v", r.choice([True, False]))
    return None  # dict: no literal default


# ------------------------------------------------------------------------------------------------------------
# interfaces
# ------------------------------------------------------------------------------------------------------------
# Column names: everything that is a legal Python identifier and a plausible column name.
# PK candidates (`"_name" in k or "_id" in k or "id_" in k or k == "id"`): the substring at the start, the end and in the middle
NAMES_CAND = ["dataset_name", "_id", "user_id", "id_", "id", "tbl_name", "valid_from", "row_idx", "grid_x", "my_name_2", "_name",
              "größen_id", "kunden_name", "名前_id", "id_番号", "user__id", "x_id", "__id", "température_id", "ünï_name_x",
              "very_long_column_name_for_the_primary_identifier_of_this_particular_row_id"]
NAMES_PLAIN = ["_rev", "a", "b", "foo", "bar_baz", "x1", "K", "lr", "epochs", "owner", "n_items", "width", "identity", "kwargs", "model_kwargs",
               "params", "name", "ids", "idx", "pid", "id2", "ID", "Id",
               # non-ASCII letters (Latin-1, Latin Extended, Greek, Cyrillic, CJK); pairs that differ only in non-ASCII letters
               "größe", "grüße", "grösse", "température", "temperature", "naïve", "naive", "données", "straße", "ñandú", "Ωmega", "λ", "μ", "имя", "名前", "数量", "GRÖSSE", "Größe",
               # leading / double underscores, digits inside, one letter, long
               "x", "_", "_x", "__x", "x__y", "x_", "a1b2", "r2d2_", "an_extremely_long_but_perfectly_legal_column_label_that_goes_on_and_on_and_on_0123456789",
               # keyword + underscore, soft keywords, names of builtins / SQLAlchemy objects / names the emitted module itself uses
               "class_", "type_", "from_", "type", "match", "case", "metadata", "Column", "Table", "String", "Base", "Enum", "list", "str", "print", "self", "query", "registry",
               "extra_kwargs", "args"]


def legal_name(nm: str) -> bool:
    """a legal Python identifier that the parser reads back unchanged (CPython NFKC-normalises identifiers: `ﬁ` → `fi`, the micro sign
    → Greek mu — such names are not generated, the class variant would differ from the Table variant by CPython alone), no hard
    keyword, inside the Basic Multilingual Plane (JSON \\u escapes without surrogate pairs), and not one of the two names the class
    parser reserves (`__tablename__`, `__table__`: hypothesis `plainNames` of C05.variants_agree)"""
    import keyword
    import unicodedata

    return (nm.isidentifier() and not keyword.iskeyword(nm) and unicodedata.normalize("NFKC", nm) == nm and all(ord(ch) < 0x10000 for ch in nm)
            and nm not in ("__tablename__", "__table__"))


def is_candidate(nm: str) -> bool:
    """the primary-key candidate rule of ensure_has_primary_key (= Sql.isCandidate), for the coverage counters only"""
    return "_name" in nm or "_id" in nm or "id_" in nm or nm == "id"


assert all(legal_name(n) for n in NAMES_CAND + NAMES_PLAIN) and all(is_candidate(n) for n in NAMES_CAND) and not any(is_candidate(n) for n in NAMES_PLAIN)
_STEMS = ["col", "wert", "größe", "été", "ñu", "λx", "имя", "名", "数量", "Ab", "x", "q9"]


def gen_name(r, candidate: bool) -> str:
    """a composed identifier: [_|__] stem [digits] [stem] [suffix]; a candidate gets one of the rule's substrings"""
    while True:
        nm = r.choice(["", "", "", "_", "__"]) + r.choice(_STEMS) + r.choice(["", "", "7", "_2", "__"]) + r.choice(["", "", "_" + r.choice(_STEMS)])
        if candidate:
            nm = r.choice([nm + "_id", nm + "_name", "id_" + nm, nm + "_id_" + r.choice(_STEMS), nm + "_name2"])
        else:
            nm += r.choice(["", "", "", "_", "kwargs", "_kwargs", "Id", "ID"])
        if legal_name(nm) and is_candidate(nm) == candidate:
            return nm


def sample_names(r, k: int, candidate: bool):
    """k distinct names: mostly from the pools, some composed"""
    pool = NAMES_CAND if candidate else NAMES_PLAIN
    out = []
    while len(out) < k:
        nm = gen_name(r, candidate) if r.random() < 0.25 else r.choice(pool)
        if nm not in out:
            out.append(nm)
    return out


TEXTS = ["the alpha thing", "dataset name", "learning rate used", "a thing", "some text here", "flag for verbosity", "Random seed",
         "e.g. 5", "has [brackets] inside", "PK of nothing", "etc. and so on", "x", "naïve café – ünï", "it's 'quoted' inside", "100% of a/b",
         ]
# column descriptions that merely MENTION a default or a key marker (neither announces a default of this column nor makes it a key)
MENTION_TEXTS = ["the size; the loader defaults to 3 workers", "joined with the [PK] column of users", "see the [PK] note"]
FK_TARGETS = ["user.id", "tbl.col", "other_table.dataset_name", "t.c"]
HEADER_DOCS = ["", "Summary line.", "Summary line.\n\nLonger description here.", "A table of things", "  indented start"]
_SECTION_WORDS = re.compile(r"^\s*(:?(param|type|return|returns|rtype|raises|arg|args|arguments|parameters|yields|yield|attributes|example|examples|note|notes|kwargs|keyword)\b)", re.I)


def prose_only(doc: str) -> bool:
    """Domain of the header description and of the `returns` description: plain prose.  Every emission hands the header text to
    the docstring emitter and every parser reads it back with the docstring *parser*, so a text that itself looks like
    docstring syntax — a `:param x:` / `:return:` field, a Google/NumPy section word at a line start (`Returns`, `Args:` …),
    an underline of dashes/equals (`-------`) — is re-interpreted (phantom columns, or the docstring parser raising IndexError on
    the de-indented `Returns\n-------\nfoo`).  That belongs to the docstring properties (C01/C15), not to the columns C05
    quantifies over, so such texts are excluded from this generator rather than listed as C05 findings."""
    for line in doc.split("\n"):
        t = line.strip()
        if t.startswith(":") or _SECTION_WORDS.match(line) or (len(t) >= 3 and set(t) <= set("-=~")):
            return False
    return "```" not in doc and "`" not in doc


assert all(prose_only(d) for d in HEADER_DOCS), "header docs must stay prose (see prose_only)"


def gen_doc_dom(r, allow_pk):
    """(doc or None, marker kind)"""
    k = r.random()
    text = r.choice(TEXTS + MENTION_TEXTS) + ("." if r.random() < 0.25 else "")
    if k < 0.12:
        return None, "absent"
    if k < 0.17:
        return "", "empty"
    if allow_pk and k < 0.30:
        return ("[PK] " + text, "pk") if r.random() < 0.8 else ("[PK]", "pk-bare")
    if k < 0.45:
        fk = r.choice(FK_TARGETS)
        return ("[FK(%s)] %s" % (fk, text), "fk") if r.random() < 0.8 else ("[FK(%s)]" % fk, "fk-bare")
    return text, "plain"


def gen_case_dom(r, returns_p=0.0):
    # zero / one / several PK-candidate names
    ncand = r.choice([0, 0, 1, 1, 1, 2, 3])
    nplain = r.randint(0 if ncand else 0, 4)
    names = sample_names(r, ncand, True) + sample_names(r, nplain, False)
    r.shuffle(names)
    pk_at = r.randrange(len(names)) if names and r.random() < 0.3 else None
    params, markers = [], []
    for i, nm in enumerate(names):
        t = gen_typ_dom(r)
        # a second spelling of Literal (double quotes, no blank) for the real code; a single-member Literal is used verbatim
        # as a column type name by the code, so it keeps the canonical spelling the model renders
        p = {"typ_j": t, "typ": render_typ(t, dq=r.random() < 0.1 and "Literal[1]" not in typ_class(t))}
        if i == pk_at:
            doc, mk = gen_doc_dom(r, True)
            if not mk.startswith("pk"):
                doc, mk = "[PK] " + r.choice(TEXTS), "pk"
        else:
            doc, mk = gen_doc_dom(r, False)
        if doc is not None:
            p["doc"] = doc
        d = gen_default_dom(r, t)
        if d is not None:
            p["default"] = d[1]
        params.append([nm, p])
        markers.append(mk)
    returns = None
    if r.random() < returns_p:
        rt = {"typ": r.choice(["int", "str"]), "doc": r.choice(TEXTS)}
        assert prose_only(rt["doc"])
        if r.random() < 0.4:
            rt["default"] = 5 if rt["typ"] == "int" else "x"
        returns = rt
    return {"name": r.choice(["Foo", "config_tbl", "Dataset", "T1", "snake_case_tbl"]), "doc": r.choice(HEADER_DOCS), "params": params, "returns": returns,
            "style": r.choice(STYLES), "force": r.random() < 0.5, "markers": markers}


# out-of-domain / malformed single parameters: model ↔ code correspondence only (no oracle)
ODD_DOCS = ["[PK]foo", "[PK]   foo..", "[PK] [FK(t.id)] x", "[FK(t.id)] [PK] x", "[FK(t.id)", "[FK] x", "[FK(t.id)]x", "[FK(a]b)] c", " [PK] lead", "[pk] low",
            "...", " x ", "'q'", '"q"', "''", "'", "'ab", "x.", "x. ", "[PK].", "[PK] .", "[FK()] e", "[FK('q')] e", "\t[PK] tab", "[PK] nbsp", "[PK]\n nl", "line\nbreak", "naïve ünï"]
ODD_TYPES = [{"n": "datetime"}, {"n": "np.ndarray"}, {"n": "list"}, {"n": "Tuple"}, {"n": "string"}, {"n": "int64"}, {"n": "BlobProperty"}, {"n": "complex"}, {"n": "object"},
             {"n": "Optional"}, {"n": "JSON"}, {"n": "Integer"}, {"n": "struct_x"},
             {"opt": {"opt": {"n": "int"}}}, {"list": {"n": "int"}}, {"list": {"n": "str"}}, {"opt": {"list": {"n": "str"}}}, {"list": {"n": "np.ndarray"}},
             {"list": {"n": "struct_x"}}, {"list": {"lit": ["a", "b"]}}, {"list": {"list": {"n": "int"}}}, {"list": {"opt": {"n": "int"}}}, {"list": {"union": [{"n": "int"}, {"n": "str"}]}},
             {"union": [{"n": "int"}, {"n": "str"}]}, {"union": [{"n": "foo"}, {"n": "str"}]}, {"union": [{"n": "int"}, {"n": "foo"}]}, {"union": [{"n": "foo"}, {"n": "bar"}]},
             {"union": [{"n": "a.b"}, {"n": "int"}]}, {"union": [{"list": {"n": "int"}}, {"n": "int"}]}, {"union": [{"lit": ["a", "b"]}, {"n": "int"}]}, {"opt": {"union": [{"n": "int"}, {"n": "str"}]}},
             {"opt": {"opt": {"lit": ["a", "b"]}}}, {"lit": ["only"]}, {"opt": {"lit": ["only"]}}, {"lit": ["it's"]}, {"lit": ["don't", 'say "hi"', "back\\slash"]}]


def gen_param_odd(r):
    p = {}
    k = r.random()
    if k < 0.08:
        pass  # no "typ" key
    elif k < 0.16:
        p["typ_j"], p["typ"] = None, None
    elif k < 0.65:
        t = r.choice(ODD_TYPES)
        p["typ_j"], p["typ"] = t, render_typ(t)
    else:
        t = gen_typ_dom(r)
        p["typ_j"], p["typ"] = t, render_typ(t)
    if r.random() < 0.8:
        p["doc"] = r.choice(ODD_DOCS) if r.random() < 0.7 else gen_doc_dom(r, True)[0] or ""
    if r.random() < 0.6:
        p["default"] = r.choice([NoneStr, None, "None", 0, 5, -3, 1.5, True, False, "foo", "'q'", '"qq"', "", 0.0])
    if r.random() < 0.15:
        p["x_sql_type"] = r.choice(["BigInteger", "Text", "Unicode", "weird_type"])
    if r.random() < 0.12:
        p["items_type"] = r.choice(["int", "str", "nope"])
    if r.random() < 0.1:
        p["server_default"] = r.choice(["now", 5, "'x'"])
    name = r.choice(NAMES_CAND + NAMES_PLAIN + ["'q'", "a b"]) if r.random() < 0.8 else gen_name(r, r.random() < 0.4)
    return name, p


def to_real_param(p):
    """the ParamVal dict handed to the real code"""
    d = {}
    if "typ" in p:
        d["typ"] = p["typ"]
    for k in ("doc", "default"):
        if k in p:
            d[k] = p[k]
    x = {}
    if "x_sql_type" in p:
        x["type"] = p["x_sql_type"]
    if "server_default" in p:
        x["constraints"] = {"server_default": p["server_default"]}
    if x:
        d["x_typ"] = {"sql": x}
    if "items_type" in p:
        d["items"] = {"type": p["items_type"]}
    return d


def enc_val(v):
    """Python constant / AST → the driver's JSON value"""
    if isinstance(v, ast.AST):
        return {"code": ast.unparse(v).strip()}
    if isinstance(v, float):
        return {"f": repr(v)}
    if v is None or isinstance(v, (bool, int, str)):
        return v
    return {"code": "<%s>" % type(v).__name__}


def to_model_param(p):
    d = {}
    if "typ_j" in p:
        d["typ"] = p["typ_j"]
    if "doc" in p:
        d["doc"] = p["doc"]
    if "default" in p:
        d["default"] = {"v": enc_val(p["default"])}
    if "x_sql_type" in p:
        d["x_sql_type"] = p["x_sql_type"]
    if "server_default" in p:
        d["server_default"] = {"v": enc_val(p["server_default"])}
    if "items_type" in p:
        d["items_type"] = p["items_type"]
    return d


# ------------------------------------------------------------------------------------------------------------
# canonical JSON of real ASTs / parsed IRs
# ------------------------------------------------------------------------------------------------------------
def fold_neg(a):
    """`-3` re-parses as UnaryOp(USub, Constant(3)): fold it back to the constant the emitter produced"""
    if isinstance(a, ast.UnaryOp) and isinstance(a.op, ast.USub) and isinstance(a.operand, ast.Constant) and type(a.operand.value) in (int, float):
        return ast.Constant(-a.operand.value)
    return a


def arg_j(a):
    a = fold_neg(a)
    if isinstance(a, ast.Constant):
        return {"c": enc_val(a.value)}
    if isinstance(a, ast.Name):
        return {"n": a.id}
    if isinstance(a, ast.Call) and isinstance(a.func, ast.Name):
        return {"f": a.func.id, "a": [arg_j(x) for x in a.args], "k": [[k.arg, arg_j(k.value)] for k in a.keywords]}
    return {"code": ast.unparse(a).strip()}


def column_j(c):
    return {"args": [arg_j(a) for a in c.args],
            "kws": [[k.arg, enc_val(fold_neg(k.value).value) if isinstance(fold_neg(k.value), ast.Constant) else {"code": ast.unparse(k.value).strip()}] for k in c.keywords]}


def column_view(cj):
    """the Column record (Sql.Column) of a canonical column: name, type argument, foreign key, keywords"""
    args, kws = cj["args"], dict((k, v) for k, v in cj["kws"])
    name = args[0]["c"] if args and "c" in args[0] and isinstance(args[0]["c"], str) else None
    typ = next((a for a in args if "n" in a or "code" in a or a.get("f") in ("Enum", "ARRAY")), None)
    fk = next((a["a"][0]["c"] for a in args if a.get("f") == "ForeignKey"), None)
    return {"name": name, "type": typ, "foreign_key": fk, "primary_key": kws.get("primary_key") is True,
            "nullable": kws["nullable"] if isinstance(kws.get("nullable"), bool) else None,
            "default": {"v": kws["default"]} if "default" in kws else {}, "server_default": {"v": kws["server_default"]} if "server_default" in kws else {},
            "comment": kws["comment"] if isinstance(kws.get("comment"), str) else None}


def is_call(n, name):
    return isinstance(n, ast.Call) and isinstance(n.func, ast.Name) and n.func.id == name


def table_j(call):
    a0 = call.args[0]
    return {"tname": a0.value if isinstance(a0, ast.Constant) else {"code": ast.unparse(a0)},
            "meta": call.args[1].id if isinstance(call.args[1], ast.Name) else None,
            "cols": [column_j(c) if is_call(c, "Column") else {"other": ast.unparse(c)} for c in call.args[2:]],
            # the emitted comment= (the model has the text handed to the docstring emitter: see render_headers)
            "header_text": next((k.value.value if isinstance(k.value, ast.Constant) else {"code": ast.unparse(k.value)} for k in call.keywords if k.arg == "comment"), None)}


def class_j(cls):
    body = []
    for s in cls.body:
        if isinstance(s, ast.Expr) and isinstance(s.value, ast.Constant) and isinstance(s.value.value, str):
            body.append(["doc", s.value.value])
        elif isinstance(s, ast.Assign) and len(s.targets) == 1 and isinstance(s.targets[0], ast.Name):
            t = s.targets[0].id
            if isinstance(s.value, ast.Constant) and isinstance(s.value.value, str):
                body.append(["str", t, s.value.value])
            elif is_call(s.value, "Column"):
                body.append(["col", t, column_j(s.value)])
            elif is_call(s.value, "Table"):
                body.append(["table", t, table_j(s.value)])
            else:
                body.append(["other", ast.unparse(s)])
        elif isinstance(s, ast.FunctionDef):
            body.append(["def", s.name])
        else:
            body.append(["other", type(s).__name__])
    return {"name": cls.name, "body": body}


KNOWN_KEYS = {"typ", "x_typ", "doc", "default", "server_default", "comment", None}


def parsed_param_j(d):
    out = {"typ": d.get("typ"), "x_sql_type": ((d.get("x_typ") or {}).get("sql") or {}).get("type"), "doc": d.get("doc"),
           "default": {"v": enc_val(d["default"])} if "default" in d else {}, "server_default": {"v": enc_val(d["server_default"])} if "server_default" in d else {},
           "none_key": {"v": enc_val(d[None])} if None in d else {}, "comment": {"v": enc_val(d["comment"])} if "comment" in d else {}}
    extra = sorted(str(k) for k in d if k not in KNOWN_KEYS)
    if extra:
        out["extra_keys"] = extra
    return out


def parsed_ir_j(ir):
    return {"name": ir.get("name"), "params": [[k, parsed_param_j(v)] for k, v in ir["params"].items()]}


def columns_of(kind, node):
    """the Column calls of an emission (for the one-primary-key oracle)"""
    if kind == "class":
        return [s.value for s in node.body if isinstance(s, ast.Assign) and is_call(s.value, "Column")]
    if kind == "table":
        return [c for c in node.value.args[2:] if is_call(c, "Column")]
    for s in node.body:
        if isinstance(s, ast.Assign) and is_call(s.value, "Table"):
            return [c for c in s.value.args[2:] if is_call(c, "Column")]
    return []


def n_primary_keys(cols):
    return sum(1 for c in cols for k in c.keywords if k.arg == "primary_key" and isinstance(k.value, ast.Constant) and k.value.value is True)


# ------------------------------------------------------------------------------------------------------------
# the real code
# ------------------------------------------------------------------------------------------------------------
def _cdd():
    import cdd.class_.parse  # noqa: F401  (import-order workaround)
    import cdd.sqlalchemy.emit as E
    import cdd.sqlalchemy.parse as P
    import cdd.sqlalchemy.utils.emit_utils as EU
    import cdd.sqlalchemy.utils.parse_utils as PU
    from cdd.shared.source_transformer import to_code

    return E, P, EU, PU, to_code


def real_ir(case):
    ret = None
    if case.get("returns"):
        ret = OrderedDict((("return_type", dict(case["returns"])),))
    return {"name": case["name"], "doc": case["doc"], "type": "static", "returns": ret,
            "params": OrderedDict((nm, to_real_param(p)) for nm, p in case["params"])}


def impl_case(case):
    """All three emissions of one interface, their canonical skeletons, the parse of the *rendered source*, the oracle inputs."""
    import contextlib
    import io

    with contextlib.redirect_stderr(io.StringIO()):  # the docstring parser prints failed type probes
        return _impl_case(case)


def _impl_case(case):
    E, P, EU, PU, to_code = _cdd()
    out = {}
    emitters = {"class": (E.sqlalchemy, P.sqlalchemy, class_j), "table": (E.sqlalchemy_table, P.sqlalchemy_table, lambda n: {"target": n.targets[0].id, "call": table_j(n.value)}),
                "hybrid": (E.sqlalchemy_hybrid, P.sqlalchemy_hybrid, class_j)}
    # ensure_has_primary_key on its own
    try:
        ps = real_ir(case)["params"]
        EU.ensure_has_primary_key(ps, case["force"])
        out["ensure_pk"] = [[k, v.get("doc"), "constraints" in ((v.get("x_typ") or {}).get("sql") or {})] for k, v in ps.items()]
    except Exception as e:  # noqa
        out["ensure_pk"] = {"error": core.exc_name(e)}
    for kind in VARIANTS:
        emit, parse, skel = emitters[kind]
        o = {}
        try:
            node = emit(real_ir(case), table_name=case["name"], force_pk_id=case["force"], docstring_format=case["style"])
            o["emit"] = skel(node)
            o["n_pk"] = n_primary_keys(columns_of(kind, node))
            src = to_code(node)
            o["src"] = src
        except Exception as e:  # noqa
            o["emit_error"] = core.exc_name(e)
            out[kind] = o
            continue
        try:
            node2 = ast.parse(src).body[0]
            ir2 = parse(node2)
            o["parsed"] = parsed_ir_j(ir2)
            o["header_doc"] = ir2.get("doc")
        except Exception as e:  # noqa
            o["parse_error"] = core.exc_name(e)
        if kind == "table":
            try:
                cls = EU.sqlalchemy_table_to_class(ast.parse(src).body[0])
                o["t2c"] = class_j(cls)
                o["t2c_parsed"] = parsed_ir_j(P.sqlalchemy(ast.parse(to_code(cls)).body[0]))
            except Exception as e:  # noqa
                o["t2c_error"] = core.exc_name(e)
        out[kind] = o
    return out


def impl_column(item):
    """param_to_sqlalchemy_column_calls on one parameter (+ column_call_to_param on the rendered call)"""
    E, P, EU, PU, to_code = _cdd()
    name, p, incl = item
    try:
        (c,) = EU.param_to_sqlalchemy_column_calls((name, to_real_param(p)), include_name=incl)
        out = {"column": column_j(c)}
        src = to_code(c).strip()
    except Exception as e:  # noqa
        return {"error": core.exc_name(e)}
    if incl:
        try:
            nm, d = PU.column_call_to_param(ast.parse(src).body[0].value)
            out["parsed"] = [nm, parsed_param_j(d)]
        except Exception as e:  # noqa
            out["parse_error"] = core.exc_name(e)
    return out


# ---- parse side alone: arbitrary Column calls --------------------------------------------------------------
def render_val(v):
    if isinstance(v, dict):
        return v["f"] if "f" in v else v["code"]
    return repr(v)


def render_arg(a):
    if "c" in a:
        return render_val(a["c"])
    if "n" in a:
        return a["n"]
    if "code" in a:
        return a["code"]
    return "%s(%s)" % (a["f"], ", ".join([render_arg(x) for x in a["a"]] + ["%s=%s" % (k, render_arg(v)) for k, v in a["k"]]))


def render_column(c):
    return "Column(%s)" % ", ".join([render_arg(a) for a in c["args"]] + ["%s=%s" % (k, render_val(v)) for k, v in c["kws"]])


def gen_column(r):
    name = r.choice(["a", "dataset_name", "model_kwargs", "id"])
    args = [{"c": name}] if r.random() < 0.93 else []
    for _ in range(r.choice([0, 1, 1, 1, 1, 2, 2, 3])):
        k = r.random()
        if k < 0.5:
            args.append({"n": r.choice(["Integer", "String", "JSON", "Boolean", "Float", "BigInteger", "Text", "LargeBinary", "DateTime", "int", "str", "Numeric", "foo"])})
        elif k < 0.65:
            ms = r.sample(["a", "b", "c", "don't", 'say "hi"', 'q\' "', "back\\slash"], r.randint(0, 3))
            args.append({"f": "Enum", "a": [{"c": m} for m in ms], "k": [["name", {"c": name}]]})
        elif k < 0.8:
            args.append({"f": "ForeignKey", "a": [{"c": r.choice(["t.id", "u.name"])}], "k": []})
        elif k < 0.9:
            args.append({"f": "ARRAY", "a": [{"n": r.choice(["Integer", "String"])}], "k": []})
        else:
            args.append({"c": r.choice([5, "extra", None, True])})
    kws = []
    for k, vals in (("comment", ["the c", "", "c."]), ("doc", ["the d", ""]), ("default", [None, 0, 5, "x", True, {"f": "1.5"}, -2]), ("nullable", [True, False]),
                    ("primary_key", [True, False]), ("server_default", [{"code": "Identity()"}, "now"])):
        if r.random() < 0.35:
            kws.append([k, r.choice(vals)])
    r.shuffle(kws)
    return {"args": args, "kws": kws}


def impl_parse_column(col):
    E, P, EU, PU, to_code = _cdd()
    try:
        nm, d = PU.column_call_to_param(ast.parse(render_column(col)).body[0].value)
        return {"parsed": [nm, parsed_param_j(d)]}
    except Exception as e:  # noqa
        return {"error": core.exc_name(e)}


# ---- class bodies by statement kind -----------------------------------------------------------------------------
def gen_class_body(r):
    """[kind, …] statements: which of them does `sqlalchemy_class_to_table` treat as columns?"""
    body = []
    if r.random() < 0.5:
        body.append(["doc"])
    if r.random() < 0.9:
        body.append(["str", "__tablename__", r.choice(["tbl", "Foo"])])
    for nm in r.sample(["_id", "_rev", "id", "a", "__mapper_args__", "dataset_name", "__x", "x__"], r.randint(0, 4)):
        col = {"args": [{"n": r.choice(["Integer", "String", "JSON"])}], "kws": [["primary_key", True]] if r.random() < 0.3 else []}
        body.append(["col", nm, col])
    if r.random() < 0.12:
        body.append(["str", r.choice(["__doc2__", "label"]), "text"])
    if r.random() < 0.15:
        body.append(["table", "__table__", {"tname": r.choice(["tbl", "Foo"]), "meta": "metadata", "cols": [{"args": [{"c": "k"}, {"n": "Integer"}], "kws": []}] if r.random() < 0.8 else []}])
    if r.random() < 0.5:
        body.append(["def", "__repr__"])
    if r.random() < 0.3:
        r.shuffle(body)
    return {"name": "Foo", "body": body}


def render_class(c):
    lines = ["class %s(Base):" % c["name"]]
    for s in c["body"]:
        if s[0] == "doc":
            lines.append('    """Doc of the class."""')
        elif s[0] == "str":
            lines.append("    %s = %r" % (s[1], s[2]))
        elif s[0] == "col":
            lines.append("    %s = %s" % (s[1], render_column(s[2])))
        elif s[0] == "table":
            t = s[2]
            lines.append("    %s = Table(%s)" % (s[1], ", ".join([repr(t["tname"]), t["meta"]] + [render_column(x) for x in t["cols"]])))
        elif s[0] == "def":
            lines.append("    def %s(self):\n        return 1" % s[1])
    if len(lines) == 1:
        lines.append("    pass")
    return "\n".join(lines) + "\n"


def impl_parse_class(c):
    E, P, EU, PU, to_code = _cdd()
    try:
        return {"parsed": parsed_ir_j(P.sqlalchemy(ast.parse(render_class(c)).body[0]))}
    except Exception as e:  # noqa
        return {"error": core.exc_name(e)}


# ------------------------------------------------------------------------------------------------------------
# the property's oracle, on real outputs
# ------------------------------------------------------------------------------------------------------------
MARKER = re.compile(r"\[PK\]|\[FK\(([^\]]*)\)\]")


def doc_view(d):
    """(has PK marker, FK targets, text): leading markers in any order, text without outer whitespace and without one terminal '.'"""
    s = (d or "").strip()
    pk, fks = False, []
    while True:
        m = MARKER.match(s)
        if not m:
            break
        if m.group(0) == "[PK]":
            pk = True
        else:
            fks.append(m.group(1))
        s = s[m.end():].lstrip()
    return pk, tuple(fks), (s[:-1] if s.endswith(".") else s).rstrip()


def norm_typ(s):
    if s is None:
        return None
    try:
        return ast.unparse(ast.parse(s))
    except Exception:  # noqa
        return s


def norm_ws(s):
    return " ".join((s or "").split())


def trigger(case):
    """coarse cause classes present in the input (for errors that cannot be attributed to one column)"""
    lit1 = any("Literal[1]" in typ_class(p["typ_j"]) for _, p in case["params"] if p.get("typ_j"))
    return {"single_literal": lit1, "returns": bool(case.get("returns"))}


def oracle(case, res):
    """Yield (sig, what) for every way the real outputs violate the property on this interface."""
    names = [nm for nm, _ in case["params"]]
    inp = dict(case["params"])
    had_pk = any(doc_view(p.get("doc"))[0] for p in inp.values())
    trig = trigger(case)
    parsed = {}
    for kind in VARIANTS:
        o = res[kind]
        if "emit_error" in o:
            yield dict({"kind": "emit-error", "variant": kind, "error": o["emit_error"]}, **trig), "%s emission raises %s" % (kind, o["emit_error"])
            continue
        # exactly one primary key in every emission
        if o["n_pk"] != 1:
            yield {"kind": "primary-key-count", "variant": kind, "count": min(o["n_pk"], 2)}, "%s emission has %d primary keys" % (kind, o["n_pk"])
        if "parse_error" in o:
            yield (dict({"kind": "parse-error", "variant": kind, "error": o["parse_error"], "style": case["style"] if case.get("returns") else "any"}, **trig),
                   "%s emission cannot be parsed back: %s" % (kind, o["parse_error"]))
            continue
        pr = o["parsed"]
        parsed[kind] = o
        got = [k for k, _ in pr["params"]]
        # names and order
        exp = names if "id" in names or got[-1:] != ["id"] else names + ["id"]
        if pr["name"] != case["name"]:
            yield {"kind": "roundtrip", "variant": kind, "field": "table-name"}, "%s: table name %r came back as %r" % (kind, case["name"], pr["name"])
        if got != exp:
            yield {"kind": "roundtrip", "variant": kind, "field": "names"}, "%s: columns %s came back as %s" % (kind, names, got)
            continue
        pks = []
        for k, v in pr["params"]:
            pk, fks, text = doc_view(v["doc"])
            if pk:
                pks.append(k)
            if k not in inp:
                # the invented `id` column: int, primary key
                if not (k == "id" and v["typ"] == "int" and pk):
                    yield {"kind": "roundtrip", "variant": kind, "field": "added-column"}, "%s: added column %s = %s" % (kind, k, v)
                continue
            p = inp[k]
            ipk, ifks, itext = doc_view(p.get("doc"))
            if k == "id" and not had_pk and v["server_default"] and "server_default" not in p:
                # the existing `id` column was replaced by the invented one
                if (norm_typ(p.get("typ")), itext, p.get("default", "<absent>")) != ("int", "", "<absent>"):
                    yield ({"kind": "roundtrip", "field": "id-column-replaced"},
                           "%s: input column id %s was replaced by the invented primary key %s" % (kind, {a: b for a, b in p.items() if a != "typ_j"}, v))
                continue
            if norm_typ(v["typ"]) != norm_typ(p.get("typ")):
                yield ({"kind": "roundtrip", "field": "typ", "from": typ_class(p.get("typ_j")), "to": typ_str_class(v["typ"])},
                       "%s: column %s type %r came back as %r" % (kind, k, p.get("typ"), v["typ"]))
            dv = {"v": enc_val(p["default"])} if "default" in p else {}
            if json.dumps(v["default"], sort_keys=True) != json.dumps(dv, sort_keys=True):
                yield ({"kind": "roundtrip", "field": "default", "from": type(p.get("default")).__name__ if "default" in p else "<absent>"},
                       "%s: column %s default %r came back as %r" % (kind, k, p.get("default", "<absent>"), v["default"]))
            if text != itext:
                yield {"kind": "roundtrip", "field": "doc"}, "%s: column %s description %r came back as %r" % (kind, k, p.get("doc"), v["doc"])
            if fks != ifks:
                yield {"kind": "roundtrip", "field": "fk-marker"}, "%s: column %s foreign keys %s came back as %s" % (kind, k, ifks, fks)
            if ipk and not pk:
                yield {"kind": "roundtrip", "field": "pk-marker", "how": "lost"}, "%s: column %s lost its [PK] marker" % (kind, k)
            if pk and not ipk and had_pk:
                yield {"kind": "roundtrip", "field": "pk-marker", "how": "moved"}, "%s: column %s became primary key although another column carries [PK]" % (kind, k)
        if len(pks) != 1:
            yield {"kind": "roundtrip", "variant": kind, "field": "pk-marker", "how": "count"}, "%s: %d [PK] markers after the round trip (%s)" % (kind, len(pks), pks)
    # the three variants are interchangeable
    if len(parsed) == 3:
        ref = json.dumps(parsed["table"]["parsed"], sort_keys=True)
        for kind in ("class", "hybrid"):
            if json.dumps(parsed[kind]["parsed"], sort_keys=True) != ref:
                yield {"kind": "variant-disagree", "field": "columns", "variant": kind}, "parse(%s emission) != parse(table emission): %s vs %s" % (kind, parsed[kind]["parsed"], parsed["table"]["parsed"])
        if not case.get("returns"):
            docs = {k: norm_ws(parsed[k]["header_doc"]) for k in VARIANTS}
            if len(set(docs.values())) != 1:
                yield ({"kind": "variant-disagree", "field": "header-doc", "empty": "+".join(k for k in VARIANTS if not docs[k]) or "none"},
                       "header doc differs between the variants: %s" % docs)
    t = res["table"]
    if "t2c_error" in t:
        yield dict({"kind": "table-to-class", "error": t["t2c_error"]}, **trig), "sqlalchemy_table_to_class / parse of its result raises %s" % t["t2c_error"]
    elif "t2c_parsed" in t and "parsed" in t and json.dumps(t["t2c_parsed"], sort_keys=True) != json.dumps(t["parsed"], sort_keys=True):
        yield {"kind": "table-to-class", "field": "columns"}, "parse(table_to_class(table)) != parse(table)"


# one minimal witness per known finding, replayed on the real code on every run
def _w(params, doc="", returns=None, style="rest", force=False):
    return {"name": "Foo", "doc": doc, "returns": returns, "style": style, "force": force, "markers": ["witness"] * len(params),
            "params": [[nm, dict(p, typ=render_typ(p["typ_j"]))] for nm, p in params]}


WITNESSES = [
    ("C05-dict-optional", _w([["cfg", {"typ_j": {"n": "dict"}}]])),
    ("C05-literal1-type-lost", _w([["k", {"typ_j": {"lit": ["a"]}}]])),
    ("C05-literal1-optional-keyerror", _w([["k", {"typ_j": {"opt": {"lit": ["a"]}}}]])),
    ("C05-literal1-fk-assertion", _w([["k", {"typ_j": {"lit": ["a"]}, "doc": "[FK(t.c)] x"}]])),
    ("C05-literal1-t2c-keyerror", _w([["k", {"typ_j": {"opt": {"lit": ["a"]}}}]])),
    ("C05-literal1-t2c-assertion", _w([["k", {"typ_j": {"lit": ["a"]}, "doc": "[FK(t.c)] x"}]])),
    ("C05-id-column-replaced", _w([["id", {"typ_j": {"n": "str"}, "doc": "the id"}]], force=True)),
    ("C05-numpydoc-returns-comment-unparseable", _w([["id", {"typ_j": {"n": "int"}, "doc": "[PK] key"}]], doc="Summary line.", returns={"typ": "int", "doc": "the result"}, style="numpydoc")),
]


# ------------------------------------------------------------------------------------------------------------
def jd(x):
    return json.dumps(x, sort_keys=True, ensure_ascii=True)


def _returns_od(case):
    return OrderedDict((("return_type", dict(case["returns"])),)) if case.get("returns") else None


def expected_comment(text, case):
    """`comment=` of emit.sqlalchemy_table for a header text: the real docstring emitter (a black box for the model) applied
    to the text the *model* says is handed to it; None = no keyword"""
    if text is None:
        return None
    from functools import partial
    from operator import add

    from cdd.docstring.emit import docstring
    from cdd.shared.pure_utils import deindent

    val = deindent(add(*map(partial(docstring, emit_default_doc=True, docstring_format=case["style"], word_wrap=True, emit_original_whitespace=False, emit_types=True),
                            ({"doc": text, "params": OrderedDict(), "returns": None}, {"doc": "", "params": OrderedDict(), "returns": _returns_od(case)}))).strip())
    return val or None


def expected_class_doc(text, case):
    """the class docstring of emit.sqlalchemy / sqlalchemy_hybrid for a header text (real docstring emitter on the model's text)"""
    from functools import partial

    from cdd.docstring.emit import docstring
    from cdd.sqlalchemy.utils.parse_utils import concat_with_whitespace

    return concat_with_whitespace(*map(partial(docstring, docstring_format=case["style"], emit_default_doc=True, emit_original_whitespace=False, emit_separating_tab=True,
                                               emit_types=True, indent_level=1, word_wrap=True),
                                       ({"doc": text, "params": OrderedDict(), "returns": None}, {"doc": "", "params": OrderedDict(), "returns": _returns_od(case)})))


def render_headers(j, case):
    """model skeleton → what the real emission must look like: header texts go through the real docstring emitter"""
    import contextlib
    import io

    def go(x):
        if isinstance(x, dict):
            x = {k: go(v) for k, v in x.items()}
            if "header_text" in x and "cols" in x:
                x["header_text"] = expected_comment(x["header_text"], case)
            return x
        if isinstance(x, list):
            if len(x) == 2 and x[0] == "doc" and isinstance(x[1], str):
                return ["doc", expected_class_doc(x[1], case)]
            return [go(v) for v in x]
        return x

    try:
        with contextlib.redirect_stderr(io.StringIO()):
            return go(j)
    except Exception as e:  # noqa
        return {"header_render_error": core.exc_name(e)}


def reparse_norm(j):
    """what a skeleton looks like after unparse + parse: a Name whose id is not an identifier is some other expression"""
    if isinstance(j, dict):
        if set(j) == {"n"} and isinstance(j["n"], str) and not j["n"].isidentifier():
            return {"code": j["n"]}
        return {k: reparse_norm(v) for k, v in j.items()}
    if isinstance(j, list):
        return [reparse_norm(x) for x in j]
    return j


def model_err(m):
    return "raises:" + m["error"] if "error" in m else None


def run(chk: core.Check) -> int:
    tables, _changed = sqltables.regen()
    chk.lean(MODULE, THEOREMS)
    chk.trusted_base += [
        "translator harness/translators/sqltables.py: reads column_type2typ / typ2column_type / sqlalchemy_top_level_imports from the imported modules (after `import cdd.sqlalchemy.emit`) and writes them as Lean char lists",
        "hand-written model lean/CddVerif/Model/Sql.lean; abstractions: a type is a tree (string predicates on type strings = structural predicates; exercised on every rendered type), "
        "ast.unparse∘ast.parse is the identity on the emitted calls, the docstring emitter/parser behind the header docstring and comment= are black boxes (the model gives the text each emitter hands to the docstring emitter; the harness renders it with the real docstring emitter and compares with the emitted comment= / class docstring), generate_repr_method is not modelled, Literal members are printable strings (Python repr modelled by Sql.reprStr: quote choice, escaping of backslash / quote / \\n \\r \\t) "
        "(repr = quote + text + quote), ensure_valid_identifier is the identity on the generated (ASCII) table names; column names are arbitrary strings for the model (the only steps that inspect them: the candidate rule (substring _name / _id / id_, or equal to id), endswith kwargs, set_value's quote stripping, and the two reserved class attributes __tablename__/__table__), generated as NFKC-normalised non-keyword identifiers of the Basic Multilingual Plane (CPython's parser NFKC-normalises identifiers, which alone would make the class variant differ)",
        "the oracle compares types as normalised Python expressions, descriptions up to outer whitespace and one terminal '.', defaults with their Python type",
    ]
    chk.coverage["tables"] = {"column_type2typ": len(tables["column_type2typ"]), "typ2column_type": len(tables["typ2column_type"]),
                              "top_level_imports": len(tables["imports"]), "non_str_entries_dropped": tables["dropped_non_str"]}
    have_driver = core.DRIVER.exists()
    rng = chk.rng
    # ---- (0) the generated tables are the imported ones ------------------------------------------------------
    if have_driver:
        mt = core.model_batch([{"op": "c05.tables"}])[0]
        ok = (mt.get("column_type2typ") == [list(x) for x in tables["column_type2typ"]] and mt.get("typ2column_type") == [list(x) for x in tables["typ2column_type"]]
              and mt.get("imports") == tables["imports"] and tables["dropped_non_str"] == 0)
        chk.oblige("tables: Gen.SqlTables = imported column_type2typ / typ2column_type / sqlalchemy_top_level_imports", "correspondence", ok,
                   "" if ok else "model tables differ from the imported ones (or a non-str entry exists)")
    # ---- (1) whole interfaces: three emissions × parse, oracle -------------------------------------------------
    n_cases = 4000 if chk.quick else 60000
    cases = [gen_case_dom(rng, returns_p=0.08) for _ in range(n_cases)]
    # fixed corner cases
    for names in (["id"], ["id", "dataset_name"], ["_id"], ["_rev"], [], ["dataset_name", "tbl_name"], ["params", "id"], ["valid_from"],
                  # non-ASCII identifiers (two of them differ only in non-ASCII letters); keyword-ish / builtin / SQLAlchemy names
                  ["größe", "grüße", "température"], ["名前", "λ", "class_", "type", "metadata", "Column", "__x", "größen_id"]):
        for force in (False, True):
            cases.append({"name": "Foo", "doc": "Summary line.", "returns": None, "style": "rest", "force": force, "markers": ["plain"] * len(names),
                          "params": [[nm, {"typ_j": {"n": "str"}, "typ": "str", "doc": "the %s" % nm}] for nm in names]})
    # Enum members whose repr needs the other quote or an escape (apostrophe, double quote, both, backslash), plain and Optional
    for force in (False, True):
        quoted = [{"lit": ["don't care", "no", "yes"]}, {"opt": {"lit": ['say "hi"', "it's"]}}, {"lit": ['both \' and "', "back\\slash"]}, {"opt": {"lit": ["C:\\dir\\", "'n", "名前"]}}]
        cases.append({"name": "Foo", "doc": "Summary line.", "returns": None, "style": "rest", "force": force, "markers": ["plain"] * len(quoted),
                      "params": [["kind%d" % i, {"typ_j": t, "typ": render_typ(t), "doc": "the kind"}] for i, t in enumerate(quoted)]})
    cases += [w for _, w in WITNESSES]
    res = core.pmap(impl_case, cases, chunksize=32)
    # every listed finding must still be reproduced by its witness (otherwise the line is stale)
    for (fid, w), r in zip(WITNESSES, res[-len(WITNESSES):]):
        ids = {(chk.kf.match(sig) or {}).get("id") for sig, _ in oracle(w, r)}
        for it in chk.kf.items:
            it["seen"] = 0
        if fid not in ids:
            chk.notes.append("known finding %s is no longer reproduced by its witness (stale line in known_findings.d/C05.txt?)" % fid)
    model = core.model_batch([{"op": "c05.case", "name": c["name"], "force": c["force"], "doc": c["doc"], "has_returns": bool(c.get("returns")), "returns_has_doc": bool((c.get("returns") or {}).get("doc")),
                               "params": [[nm, to_model_param(p)] for nm, p in c["params"]]} for c in cases]) if have_driver else None
    cov = {"n_params": {}, "typ_class": {}, "default_kind": {}, "marker": {}, "n_candidates": {}, "force": {}, "style": {}, "names": {}, "name_class": {}, "header_doc_empty": {}, "returns": {},
           "model_unmodelled": 0}

    def bump(k, v):
        cov[k][str(v)] = cov[k].get(str(v), 0) + 1

    n_dis = {"ensure_pk": 0, "emit": 0, "parse": 0, "table_to_class": 0, "normal_form": 0}
    for idx, (c, r) in enumerate(zip(cases, res)):
        names = [nm for nm, _ in c["params"]]
        ncand = sum(1 for nm in names if is_candidate(nm))
        bump("n_params", len(names)); bump("n_candidates", ncand); bump("force", c["force"]); bump("style", c["style"])
        bump("header_doc_empty", not c["doc"]); bump("returns", bool(c.get("returns")))
        for (nm, p), mk in zip(c["params"], c["markers"]):
            bump("typ_class", typ_class(p["typ_j"])); bump("marker", mk); bump("names", nm)
            bump("name_class", "non-ascii" if not nm.isascii() else "dunder-prefix" if nm.startswith("__") else "underscore-prefix" if nm.startswith("_")
                 else "ends-kwargs" if nm.endswith("kwargs") else "long" if len(nm) > 40 else "one-char" if len(nm) == 1 else "ascii")
            bump("default_kind", type(p["default"]).__name__ if "default" in p and p["default"] != NoneStr else ("NoneStr" if "default" in p else "absent"))
        replay = {"fn": "case", "case": {k: v for k, v in c.items()}}
        chk.count(("case", jd(replay)), len(names) >= 2 and any(mk != "plain" for mk in c["markers"]))
        if idx < 3:
            chk.sample({"params": [[nm, {k: v for k, v in p.items() if k != "typ_j"}] for nm, p in c["params"]], "force": c["force"], "style": c["style"],
                        "table_src": r["table"].get("src", r["table"].get("emit_error")), "parsed": r["table"].get("parsed", r["table"].get("parse_error"))})
        for sig, what in oracle(c, r):
            chk.failure(sig, what, replay)
        if model is None:
            continue
        m = model[idx]
        if "error" in m:
            raise core.HarnessError("driver rejected a C05 case: %s" % m["error"])
        # ensure_has_primary_key
        # (compared through the emissions; a direct comparison localises a difference)
        # emissions and parses
        for kind in VARIANTS:
            o, me, mp = r[kind], m[kind], m["parsed_" + kind]
            if "emit_error" in o or "error" in me:
                if model_err(me) == "raises:unmodelled":
                    cov["model_unmodelled"] += 1
                elif o.get("emit_error") != model_err(me):
                    n_dis["emit"] += 1
                    chk.disagreement("C05 correspondence: emitted %s AST" % kind, replay, o.get("emit_error", o.get("emit")), me)
                continue
            want_emit = render_headers(me["ok"], c)
            if jd(o["emit"]) != jd(want_emit):
                n_dis["emit"] += 1
                chk.disagreement("C05 correspondence: emitted %s AST" % kind, replay, o["emit"], want_emit)
                continue
            if model_err(mp) == "raises:unmodelled":
                cov["model_unmodelled"] += 1
                continue
            got = o.get("parse_error") or o["parsed"]
            want = model_err(mp) or mp["ok"]
            if "parse_error" in o and c.get("returns"):
                # the header docstring/comment (docstring emitter + parser) is not modelled; with a `returns` entry the real
                # docstring parser can fail on the table comment — reported by the oracle, not a model disagreement
                cov["model_unmodelled"] += 1
                continue
            if jd(got) != jd(want):
                n_dis["parse"] += 1
                chk.disagreement("C05 correspondence: parse of the rendered %s emission" % kind, replay, got, want)
        t = r["table"]
        if "emit" in t and "ok" in m["table"] and "raises:unmodelled" not in (model_err(m["table_to_class"]), model_err(m["parsed_table_to_class"])):
            got = t.get("t2c_error") or [t.get("t2c"), t.get("t2c_parsed")]
            want = model_err(m["table_to_class"]) or model_err(m["parsed_table_to_class"]) or [reparse_norm(m["table_to_class"]["ok"]), m["parsed_table_to_class"]["ok"]]
            if jd(got) != jd(want):
                n_dis["table_to_class"] += 1
                chk.disagreement("C05 correspondence: sqlalchemy_table_to_class", replay, got, want)
        # the theorem's right-hand side (normDoc ∘ ensurePK) against the real parse
        if "parsed" in t:
            got = [[k, v["doc"]] for k, v in t["parsed"]["params"]]
            if jd(got) != jd(m["normal_form"]):
                n_dis["normal_form"] += 1
                chk.disagreement("C05 correspondence: descriptions after the round trip = normDoc ∘ ensurePK", replay, got, m["normal_form"])
    for k, v in n_dis.items():
        if k != "ensure_pk":
            chk.oblige("correspondence: %s (%d interfaces × 3 variants)" % (k, len(cases)), "correspondence", v == 0 and model is not None, "%d disagreements" % v)
    # ---- (1b) ensure_has_primary_key directly -----------------------------------------------------------------------
    if model is not None:
        mm = core.model_batch([{"op": "c05.ensure_pk", "force": c["force"], "params": [[nm, to_model_param(p)] for nm, p in c["params"]]} for c in cases])
        for c, r, m in zip(cases, res, mm):
            if jd(r["ensure_pk"]) != jd(m.get("params")):
                n_dis["ensure_pk"] += 1
                chk.disagreement("C05 correspondence: ensure_has_primary_key", {"fn": "case", "case": c}, r["ensure_pk"], m)
        chk.oblige("correspondence: ensure_has_primary_key = Sql.ensurePK (%d parameter dicts)" % len(cases), "correspondence", n_dis["ensure_pk"] == 0, "%d disagreements" % n_dis["ensure_pk"])
    # ---- (2) single parameters, in and out of the domain (malformed markers, odd types) -------------------------------
    n_odd = 8000 if chk.quick else 120000
    items = []
    for _ in range(n_odd):
        name, p = gen_param_odd(rng)
        items.append((name, p, rng.random() < 0.7))
    for d in ODD_DOCS:
        for t in ({"n": "int"}, {"opt": {"n": "str"}}):
            for dflt in ((), (5,), (NoneStr,)):
                p = {"typ_j": t, "typ": render_typ(t), "doc": d}
                if dflt:
                    p["default"] = dflt[0]
                items.append(("a", p, True))
    for t in ODD_TYPES:
        items.append(("a", {"typ_j": t, "typ": render_typ(t)}, True))
    ri = core.pmap(impl_column, items, chunksize=128)
    if have_driver:
        mi = core.model_batch([{"op": "c05.column", "name": nm, "include_name": incl, "param": to_model_param(p)} for nm, p, incl in items])
        cols_for_parse = []
        n_col = n_colparse = 0
        for (nm, p, incl), r, m in zip(items, ri, mi):
            chk.count(("column", nm, jd({k: v for k, v in p.items()}), incl), "typ_j" in p and p["typ_j"] is not None and "doc" in p)
            case = {"fn": "column", "name": nm, "param": p, "include_name": incl}
            if "error" in r or "error" in m:
                if r.get("error") != model_err(m):
                    n_col += 1
                    chk.disagreement("C05 correspondence: param_to_sqlalchemy_column_calls", case, r, m)
                continue
            if jd(r["column"]) != jd(m["ok"]) or jd(column_view(r["column"])) != jd(m["view"]):
                n_col += 1
                chk.disagreement("C05 correspondence: param_to_sqlalchemy_column_calls", case, [r["column"], column_view(r["column"])], [m["ok"], m["view"]])
                continue
            if incl:
                cols_for_parse.append((case, r, m["ok"]))
        mp = core.model_batch([{"op": "c05.parse_column", "column": col} for _, _, col in cols_for_parse])
        for (case, r, _), m in zip(cols_for_parse, mp):
            if model_err(m) == "raises:unmodelled":
                cov["model_unmodelled"] += 1
                continue
            got = r.get("parse_error") or r["parsed"]
            want = model_err(m) or m["ok"]
            if jd(got) != jd(want):
                n_colparse += 1
                chk.disagreement("C05 correspondence: column_call_to_param on the rendered column", case, got, want)
        chk.oblige("correspondence: param_to_sqlalchemy_column_calls = Sql.paramToColumn (%d parameters, in and out of the domain)" % len(items), "correspondence", n_col == 0, "%d disagreements" % n_col)
        chk.oblige("correspondence: column_call_to_param = Sql.columnToParam on %d rendered columns" % len(cols_for_parse), "correspondence", n_colparse == 0, "%d disagreements" % n_colparse)
    # ---- (3) parse side alone: arbitrary Column calls; class bodies by statement kind --------------------------------------
    cols = [gen_column(rng) for _ in range(8000 if chk.quick else 120000)]
    rc = core.pmap(impl_parse_column, cols, chunksize=128)
    bodies = [gen_class_body(rng) for _ in range(3000 if chk.quick else 40000)]
    rb = core.pmap(impl_parse_class, bodies, chunksize=64)
    if have_driver:
        mc = core.model_batch([{"op": "c05.parse_column", "column": c} for c in cols])
        n_pc = 0
        for c, r, m in zip(cols, rc, mc):
            chk.count(("parse_column", jd(c)), len(c["args"]) >= 2 and len(c["kws"]) >= 1)
            if model_err(m) == "raises:unmodelled" or m.get("error") == "unmodelled-arg":
                cov["model_unmodelled"] += 1
                continue
            got = r.get("error") or r["parsed"]
            want = model_err(m) or m["ok"]
            if jd(got) != jd(want):
                n_pc += 1
                chk.disagreement("C05 correspondence: column_call_to_param on generated Column calls", {"fn": "parse_column", "column": c, "src": render_column(c)}, got, want)
        chk.oblige("correspondence: column_call_to_param = Sql.columnToParam on %d generated Column calls" % len(cols), "correspondence", n_pc == 0, "%d disagreements" % n_pc)
        mb = core.model_batch([{"op": "c05.parse_class", "name": b["name"], "body": b["body"]} for b in bodies])
        n_pb = 0
        for b, r, m in zip(bodies, rb, mb):
            chk.count(("parse_class", jd(b)), sum(1 for s in b["body"] if s[0] == "col") >= 2)
            if model_err(m) == "raises:unmodelled":
                cov["model_unmodelled"] += 1
                continue
            got = r.get("error") or r["parsed"]
            want = model_err(m) or m["ok"]
            if jd(got) != jd(want):
                n_pb += 1
                chk.disagreement("C05 correspondence: parse.sqlalchemy on class bodies by statement kind", {"fn": "parse_class", "class": b, "src": render_class(b)}, got, want)
        chk.oblige("correspondence: parse.sqlalchemy / sqlalchemy_class_to_table = Sql.parseClass on %d class bodies" % len(bodies), "correspondence", n_pb == 0, "%d disagreements" % n_pb)
    for k in ("names",):
        cov[k] = dict(sorted(cov[k].items(), key=lambda kv: -kv[1])[:40])
    chk.coverage["distribution"] = cov
    return chk.finish("interfaces: 0-7 columns over int/float/str/bool/dict, Optional[..] (no non-None default), Literal[str,..], at most one [PK], [FK(..)] markers, names with "
                      "zero/one/several primary-key candidates × {class, Table, hybrid} × {rest, google, numpydoc} × force_pk_id; non-trivial = ≥2 columns and ≥1 marker. "
                      "Plus single parameters in and out of the domain, generated Column calls, class bodies by statement kind; distinct by literal input")


def replay(path: str) -> int:
    d = json.loads(Path(path).read_text())["replay"]
    if d.get("fn") != "case":
        print("replay: correspondence case (no property oracle):", json.dumps(d)[:400])
        return 0
    c = d["case"]
    r = impl_case(c)
    kf = core.KnownFindings("C05")
    bad = 0
    for sig, what in oracle(c, r):
        known = kf.match(sig)
        print("replay:", "KNOWN-FINDING %s:" % known["id"] if known else "FAILS:", what, sig)
        bad += known is None
    if not bad:
        print("replay: property holds (apart from listed findings)")
    return 1 if bad else 0
