"""C07 — doctrans changes only docstrings and annotations, never the program (DESIGN.md §4 C07)."""
from __future__ import annotations

import ast
import io
import json
import os
import shutil
import tempfile
import tokenize
from pathlib import Path

from harness import core
from harness.gen import c07mod
from harness.impl import pyast

MODULE = "CddVerif.Properties.C07"
THEOREMS = [
    "C07.frame_residue",
    "C07.frame_sublist",
    "C07.frame_comments",
    "C07.frame_other_text",
    "C07.parser_docstr_only_after_def",
    "C07.erase_docTrans_partial",
    "C07.erase_docTrans_not_full_bare_annotation",
    "C07.erase_docTrans_not_full_double_string",
    "C07.failure_atomic",
    "C07.failure_leaves_file",
    "C07.write_is_last",
    "C07.no_change_no_write",
    "C07.early_open_not_atomic",
    "C07.header_outside_parens_preserved",
    "C07.header_locate_canonical",
    "C07.header_resynth_partial",
    "C07.header_not_full_default",
    "C07.header_not_full_vararg",
    "C07.header_not_full_kwonly",
    "C07.header_not_full_kwarg",
    "C07.header_not_full_posonly",
    "C07.header_return_paren_preserved",
]
CONFIGS = [(fmt, ta, nww) for fmt in ("rest", "google", "numpydoc") for ta in (True, False) for nww in (None, True)]


# ------------------------------------------------------------------------------------------------
# running the real code (instrumented, never altered)
# ------------------------------------------------------------------------------------------------
def body0_of(node):
    """What `get_doc_str` can see in `node.body[0]` (classification only; the decision is the model's)."""
    if not node.body:
        return {"t": "noBody"}
    b = node.body[0]
    if not isinstance(b, ast.Expr):
        return {"t": "notExpr"}
    v = b.value
    if not isinstance(v, ast.Constant):
        return {"t": "nonConst"}
    c = v.value
    if isinstance(c, str):
        return {"t": "str", "s": c}
    if c is None:
        return {"t": "none"}
    if not c:
        return {"t": "falsy"}
    return {"t": "truthy", "bytes": isinstance(c, bytes)}


def edits_of(node):
    """The definitions of the new tree in the order `doctransify_cst` meets them."""
    out = []
    for n in ast.walk(node):
        if not hasattr(n, "_location"):
            continue
        is_func = isinstance(n, (ast.FunctionDef, ast.AsyncFunctionDef))
        if not (is_func or isinstance(n, ast.ClassDef)):
            continue
        e = {"kind": "cls" if not is_func else ("async" if isinstance(n, ast.AsyncFunctionDef) else "fn"), "name": n.name, "lineno": n.lineno,
             "body0": body0_of(n)}
        if is_func:
            e["args"] = pyast.args_to_json(n.args)
            e["returns"] = None if n.returns is None else ast.unparse(n.returns)
        out.append(e)
    return out


def node_json(n):
    return {"kind": type(n).__name__, "start": n.line_no_start, "stop": n.line_no_end, "value": n.value, "name": getattr(n, "name", None),
            "is_double_q": getattr(n, "is_double_q", None), "is_docstr": getattr(n, "is_docstr", None)}


def parse_header(key: str):
    """CPython's parse of a re-indented header with a `pass` body — the oracle the model takes as a parameter."""
    from cdd.shared.source_transformer import ast_parse

    try:
        n = ast_parse(key, skip_annotate=True, skip_docstring_remit=True).body[0]
        _ = n.body
        return {"key": key, "sig": {"args": pyast.args_to_json(n.args), "returns": None if n.returns is None else ast.unparse(n.returns)}}
    except Exception as e:  # noqa
        return {"key": key, "error": type(e).__name__}


class _Events:
    """Ordered record of the effects of one `doctrans` call: opens / reads / writes of the file and stdout lines."""

    def __init__(self):
        self.ev = []
        self._buf = ""

    def write(self, s):  # stdout
        self._buf += s
        while "\n" in self._buf:
            line, self._buf = self._buf.split("\n", 1)
            self.ev.append(["print", line])
        return len(s)

    def flush(self):
        pass

    def opener(self, real_open):
        ev = self.ev

        class F:
            def __init__(self, f, mode):
                self.f, self.mode = f, mode

            def __enter__(self):
                return self

            def __exit__(self, *a):
                ev.append(["close", self.mode])
                self.f.close()
                return False

            def read(self, *a):
                ev.append(["read"])
                return self.f.read(*a)

            def write(self, s):
                ev.append(["write", s])
                return self.f.write(s)

        def traced(name, mode="r", *a, **kw):
            ev.append(["open", mode])
            return F(real_open(name, mode, *a, **kw), mode)

        return traced


def impl_one(case):
    """Run the real `cdd.compound.doctrans.doctrans` on a temp file; record the before/after bytes, the effect trace, the new AST's
    definitions (the model's `FnEdit`s), the CST before/after the splice, the header parses."""
    import contextlib

    import cdd.class_.parse  # noqa: F401  (import order)
    import cdd.compound.doctrans as D
    import cdd.compound.doctrans_utils as DU

    src, fmt, ta, nww = case["src"], case["fmt"], case["ta"], case["nww"]
    d = tempfile.mkdtemp(prefix="c07_", dir=os.environ.get("C07_TMP", "/tmp"))
    p = os.path.join(d, "m.py")
    rec = {"edits": None, "nodes_before": None, "nodes_after": None, "splice_error": None, "new_ast": None, "orig_ast": None, "edit_error": None}
    ev = _Events()
    real_dcst = DU.doctransify_cst
    real_DocTrans = DU.DocTrans

    def wrapped_dcst(cst_list, node):
        rec["nodes_before"] = [node_json(n) for n in cst_list]
        try:
            rec["edits"] = edits_of(node)
        except Exception as e:  # noqa
            rec["edit_error"] = type(e).__name__
        try:
            rec["new_ast"] = pyast.module_to_json(node)
        except Exception as e:  # noqa
            rec["new_ast"] = None
        try:
            real_dcst(cst_list, node)
        except BaseException as e:  # noqa
            rec["splice_error"] = type(e).__name__
            raise
        rec["nodes_after"] = [node_json(n) for n in cst_list]

    try:
        with open(p, "w", encoding="utf-8", newline="") as f:
            f.write(src)
        if case.get("missing"):
            os.unlink(p)
        D.doctransify_cst = wrapped_dcst
        D.open = ev.opener(open)
        err = None
        try:
            with contextlib.redirect_stdout(ev), contextlib.redirect_stderr(io.StringIO()):
                D.doctrans(p, fmt, ta, nww)
        except Exception as e:  # noqa
            err = type(e).__name__
        finally:
            D.doctransify_cst = real_dcst
            del D.open
        after = None
        if os.path.exists(p):
            with open(p, "r", encoding="utf-8", newline="") as f:
                after = f.read()
        entered = rec["nodes_before"] is not None
        parses = []
        if entered:
            from cdd.shared.cst_utils import reindent_block_with_pass_body

            seen = set()
            for n in rec["nodes_before"]:
                if n["kind"] == "FunctionDefinitionStart":
                    k = reindent_block_with_pass_body(n["value"])
                    if k not in seen:
                        seen.add(k)
                        parses.append(parse_header(k))
        return {"after": after, "error": err, "trace": ev.ev, "entered": entered, "parses": parses, **rec}
    finally:
        shutil.rmtree(d, ignore_errors=True)


# ------------------------------------------------------------------------------------------------
# the property's oracle, on the real before / after files
# ------------------------------------------------------------------------------------------------
def comments_of(src: str):
    return [t.string for t in tokenize.generate_tokens(io.StringIO(src).readline) if t.type == tokenize.COMMENT]


def header_and_doc_lines(src: str, tree: ast.Module):
    """1-based line numbers belonging to a `def`/`class` header (from the `def`/`class` keyword line to the line of its colon) or to a
    docstring of a function / class."""
    hdr, doc = set(), set()
    toks = list(tokenize.generate_tokens(io.StringIO(src).readline))
    # header end: first ':' at bracket depth 0 after the keyword
    starts = {}
    for n in ast.walk(tree):
        if isinstance(n, (ast.FunctionDef, ast.AsyncFunctionDef, ast.ClassDef)):
            starts[(n.lineno, n.col_offset)] = n
            if n.body and isinstance(n.body[0], ast.Expr) and isinstance(n.body[0].value, ast.Constant) and isinstance(n.body[0].value.value, str):
                doc.update(range(n.body[0].lineno, n.body[0].end_lineno + 1))
    i = 0
    while i < len(toks):
        t = toks[i]
        if t.type == tokenize.NAME and t.string in ("def", "class", "async") and t.start in starts:
            depth, j = 0, i
            while j < len(toks):
                u = toks[j]
                if u.type == tokenize.OP:
                    if u.string in "([{":
                        depth += 1
                    elif u.string in ")]}":
                        depth -= 1
                    elif u.string == ":" and depth == 0:
                        break
                j += 1
            end = toks[min(j, len(toks) - 1)].start[0]
            hdr.update(range(t.start[0], end + 1))
            i = j
        i += 1
    return hdr, doc


def erase(tree: ast.AST) -> ast.AST:
    """Remove docstrings of functions / classes, parameter / return / variable annotations and type comments."""

    class E(ast.NodeTransformer):
        def _body(self, node):
            if node.body and isinstance(node.body[0], ast.Expr) and isinstance(node.body[0].value, ast.Constant) and isinstance(node.body[0].value.value, str):
                node.body = node.body[1:]
            return node

        def visit_FunctionDef(self, node):
            self._body(node)
            node.returns = None
            node.type_comment = None
            for a in node.args.posonlyargs + node.args.args + node.args.kwonlyargs + [x for x in (node.args.vararg, node.args.kwarg) if x]:
                a.annotation = None
                a.type_comment = None
            self.generic_visit(node)
            return node

        visit_AsyncFunctionDef = visit_FunctionDef

        def visit_ClassDef(self, node):
            self._body(node)
            self.generic_visit(node)
            return node

        def visit_AnnAssign(self, node):
            self.generic_visit(node)
            if node.value is None:
                return ast.Expr(value=ast.Name(id="__declare__%s" % ast.unparse(node.target), ctx=ast.Load()))
            return ast.Assign(targets=[node.target], value=node.value, type_comment=None)

        def visit_Assign(self, node):
            self.generic_visit(node)
            node.type_comment = None
            return node

    return E().visit(tree)


def _defs(tree):
    """definitions with a dotted path, in source order"""
    out = []

    def rec(n, path):
        for ch in ast.iter_child_nodes(n):
            if isinstance(ch, (ast.FunctionDef, ast.AsyncFunctionDef, ast.ClassDef)):
                out.append((path + [ch.name], ch))
                rec(ch, path + [ch.name])
            else:
                rec(ch, path)

    rec(tree, [])
    return out


def ast_diff_sigs(before: ast.Module, after: ast.Module):
    """Where do the erased trees differ?  -> list of (field, detail, resynth?) per differing definition field (or one 'module' entry)."""
    b, a = _defs(before), _defs(after)
    if [(p, type(n).__name__) for p, n in b] != [(p, type(n).__name__) for p, n in a]:
        return [("definitions", "%s -> %s" % ([".".join(p) for p, _ in b], [".".join(p) for p, _ in a]), False)]
    out = []
    for (p, nb), (_, na) in zip(b, a):
        if isinstance(nb, ast.ClassDef):
            for f in ("bases", "keywords", "decorator_list"):
                if ast.dump(ast.Module(body=[], type_ignores=[]) if False else ast.Tuple(elts=getattr(nb, f), ctx=ast.Load())) != ast.dump(ast.Tuple(elts=getattr(na, f), ctx=ast.Load())):
                    out.append((f, ".".join(p), False))
            continue
        ab, aa = nb.args, na.args
        # was the parameter list re-synthesised as `name[: annotation]` of `args.args` only?
        resynth = (not aa.defaults and not aa.kw_defaults and not aa.kwonlyargs and aa.vararg is None and aa.kwarg is None and not aa.posonlyargs
                   and [x.arg for x in aa.args] == [x.arg for x in ab.args])
        for f in ("posonlyargs", "args", "kwonlyargs"):
            if [x.arg for x in getattr(ab, f)] != [x.arg for x in getattr(aa, f)]:
                out.append((f, ".".join(p), resynth))
        for f in ("vararg", "kwarg"):
            if (getattr(ab, f) and getattr(ab, f).arg) != (getattr(aa, f) and getattr(aa, f).arg):
                out.append((f, ".".join(p), resynth))
        for f in ("defaults", "kw_defaults"):
            if [None if x is None else ast.dump(x) for x in getattr(ab, f)] != [None if x is None else ast.dump(x) for x in getattr(aa, f)]:
                out.append((f, ".".join(p), resynth))
        if [ast.dump(x) for x in nb.decorator_list] != [ast.dump(x) for x in na.decorator_list]:
            out.append(("decorator_list", ".".join(p), False))
    if not out:
        # bodies / module level
        out.append(("statements", "erased trees differ outside signatures", False))
    return out


def oracle(src: str, r: dict):
    """The property on the real before/after files.  -> list of (sig dict, text)."""
    fails = []
    after, err = r["after"], r["error"]
    if err is not None:
        if after != src:
            fails.append(({"clause": "atomic", "error": err}, "doctrans raised %s and left the file changed" % err))
        return fails
    if after == src:
        return fails
    try:
        tb = ast.parse(src)
    except SyntaxError:
        return fails  # not a program of the property's domain
    try:
        ta = ast.parse(after)
    except SyntaxError as e:
        fails.append(({"clause": "valid-python", "cause": classify_invalid(src, after, r)}, "output is not valid Python: %s (line %s)" % (e.msg, e.lineno)))
        return fails
    eb, ea = erase(ast.parse(src)), erase(ast.parse(after))
    if ast.dump(eb) != ast.dump(ea):
        for field, detail, resynth in ast_diff_sigs(eb, ea):
            fails.append(({"clause": "ast-erase", "field": field, "cause": "header-resynth" if resynth else "other"},
                          "syntax tree differs after erase: %s of %s" % (field, detail)))
    cb, ca = comments_of(src), comments_of(after)
    if cb != ca:
        hb, _ = header_and_doc_lines(src, tb)
        lost_in_header = comment_loss_in_headers(src, cb, ca, hb)
        fails.append(({"clause": "comments", "where": "multiline-header" if lost_in_header else "other"}, "comment list differs: %r -> %r" % (cb[:8], ca[:8])))
    hb, db = header_and_doc_lines(src, tb)
    ha, da = header_and_doc_lines(after, ta)
    lb = [l for i, l in enumerate(src.split("\n"), 1) if i not in hb and i not in db]
    la = [l for i, l in enumerate(after.split("\n"), 1) if i not in ha and i not in da]
    if lb != la:
        k = next((i for i, (x, y) in enumerate(zip(lb, la)) if x != y), min(len(lb), len(la)))
        fails.append(({"clause": "lines", "cause": classify_line_diff(lb, la, k)},
                      "line outside headers/docstrings differs: %r -> %r" % (lb[k:k + 2], la[k:k + 2])))
    return fails


def comment_loss_in_headers(src, cb, ca, hdr_lines):
    """True when `ca` is `cb` minus comments that sit on lines of a multi-line definition header."""
    toks = [t for t in tokenize.generate_tokens(io.StringIO(src).readline) if t.type == tokenize.COMMENT]
    keep = [t.string for t in toks if t.start[0] not in hdr_lines]
    # comments on the *last* header line (after the colon) survive; allow any subset of header comments to be lost
    it = iter(cb)
    if not all(any(x == y for y in it) for x in ca):
        return False
    it2 = iter(ca)
    return all(any(x == y for y in it2) for x in keep)


def classify_line_diff(lb, la, k):
    x = lb[k] if k < len(lb) else None
    y = la[k] if k < len(la) else None
    if y is not None and y.strip() in ('"""', "'''") or x is not None and x.strip() in ('"""', "'''"):
        return "docstring-quote-line"
    if x is not None and y is not None and x.strip() == y.strip():
        return "whitespace"
    return "other"


def classify_invalid(src, after, r):
    """Narrow cause of an invalid output, from the recorded edits."""
    try:
        tb = ast.parse(src)
    except SyntaxError:
        return "input-invalid"
    # a definition whose whole body was its docstring, and the docstring was removed
    for n in ast.walk(tb):
        if isinstance(n, ast.AsyncFunctionDef) and len(n.body) == 1 and isinstance(n.body[0], ast.Expr) and isinstance(n.body[0].value, ast.Constant) \
                and isinstance(n.body[0].value.value, str):
            return "async-docstring-only-body-deleted"
    return "other"


# ------------------------------------------------------------------------------------------------
def run(chk: core.Check) -> int:
    raise core.HarnessError("not finished")


def replay(path: str) -> int:
    raise core.HarnessError("not finished")
