"""C07 — doctrans changes only docstrings and annotations, never the program (DESIGN.md §4 C07)."""
from __future__ import annotations

import ast
import io
import json
import os
import shutil
import tempfile
import tokenize
import warnings
from pathlib import Path

from harness import core
from harness.gen import c07mod
from harness.impl import pyast

warnings.filterwarnings("ignore", category=SyntaxWarning)  # generated docstrings / rewritten files are parsed by the oracle
MODULE = "CddVerif.Properties.C07"
THEOREMS = [
    "C07.frame_residue",
    "C07.frame_sublist",
    "C07.frame_other_nodes",
    "C07.frame_comments",
    "C07.frame_other_text",
    "C07.parser_docstr_only_after_def",
    "C07.async_docstring_like_function",
    "C07.async_edit_like_function",
    "C07.erase_docTrans_partial",
    "C07.erase_docTrans_not_full_bare_annotation",
    "C07.erase_docTrans_not_full_double_string",
    "C07.erase_docTrans_not_full_bare_name",
    "C07.failure_atomic",
    "C07.failure_leaves_file",
    "C07.write_is_last",
    "C07.no_change_no_write",
    "C07.early_open_not_atomic",
    "C07.header_outside_parens_preserved",
    "C07.header_locate_canonical",
    "C07.header_resynth_partial",
    "C07.header_return_paren_preserved",
    "C07.header_not_full_default",
    "C07.header_not_full_vararg",
    "C07.header_not_full_kwonly",
    "C07.header_not_full_kwarg",
    "C07.header_not_full_posonly",
    "C07.header_return_not_preserved_stray_arrow",
    "C07.header_wrong_paren_decorator",
]
CONFIGS = [(fmt, ta, nww) for fmt in ("rest", "google", "numpydoc") for ta in (True, False) for nww in (None, True)]


# ------------------------------------------------------------------------------------------------
# running the real code (instrumented, never altered)
# ------------------------------------------------------------------------------------------------
def body0_of(node):
    """What `get_doc_str` can see in `node.body[0]` (classification only; the decision is the model's)."""
    if not node.body:
        return {"t": "noBody"}
    b = node.body[0]
    if not isinstance(b, ast.Expr):
        return {"t": "notExpr"}
    v = b.value
    if not isinstance(v, ast.Constant):
        return {"t": "nonConst"}
    c = v.value
    if isinstance(c, str):
        return {"t": "str", "s": c}
    if c is None:
        return {"t": "none"}
    if not c:
        return {"t": "falsy"}
    return {"t": "truthy", "bytes": isinstance(c, bytes)}


def edits_of(node):
    """The definitions of the new tree in the order `doctransify_cst` meets them."""
    out = []
    for n in ast.walk(node):
        if not hasattr(n, "_location"):
            continue
        is_func = isinstance(n, (ast.FunctionDef, ast.AsyncFunctionDef))
        if not (is_func or isinstance(n, ast.ClassDef)):
            continue
        e = {"kind": "cls" if not is_func else ("async" if isinstance(n, ast.AsyncFunctionDef) else "fn"), "name": n.name, "lineno": n.lineno,
             "body0": body0_of(n)}
        if is_func:
            e["args"] = pyast.args_to_json(n.args)
            e["args_text"] = ast.unparse(n.args)
            e["returns"] = None if n.returns is None else ast.unparse(n.returns)
        out.append(e)
    return out


def node_json(n):
    return {"kind": type(n).__name__, "start": n.line_no_start, "stop": n.line_no_end, "value": n.value, "name": getattr(n, "name", None),
            "is_double_q": getattr(n, "is_double_q", None), "is_docstr": getattr(n, "is_docstr", None)}


def parse_header(key: str, value=None):
    """CPython's parse of a re-indented header with a `pass` body — the oracle the model takes as a parameter."""
    from cdd.shared.source_transformer import ast_parse

    try:
        n = ast_parse(key, skip_annotate=True, skip_docstring_remit=True).body[0]
        _ = n.body
        return {"key": key, "value": value, "sig": {"args": pyast.args_to_json(n.args), "returns": None if n.returns is None else ast.unparse(n.returns)},
                "args_text": ast.unparse(n.args)}
    except Exception as e:  # noqa
        return {"key": key, "value": value, "error": type(e).__name__}


class _Events:
    """Ordered record of the effects of one `doctrans` call: opens / reads / writes of the file and stdout lines."""

    def __init__(self):
        self.ev = []
        self._buf = ""

    def write(self, s):  # stdout
        self._buf += s
        while "\n" in self._buf:
            line, self._buf = self._buf.split("\n", 1)
            self.ev.append(["print", line])
        return len(s)

    def flush(self):
        pass

    def opener(self, real_open):
        ev = self.ev

        class F:
            def __init__(self, f, mode):
                self.f, self.mode = f, mode

            def __enter__(self):
                return self

            def __exit__(self, *a):
                ev.append(["close", self.mode])
                self.f.close()
                return False

            def read(self, *a):
                ev.append(["read"])
                return self.f.read(*a)

            def write(self, s):
                ev.append(["write", s])
                return self.f.write(s)

        def traced(name, mode="r", *a, **kw):
            ev.append(["open", mode])
            return F(real_open(name, mode, *a, **kw), mode)

        return traced


def impl_one(case):
    try:
        return _impl_one(case)
    except BaseException as e:  # noqa
        import traceback

        return {"harness_error": traceback.format_exc()[-1500:]}


def _impl_one(case):
    """Run the real `cdd.compound.doctrans.doctrans` on a temp file; record the before/after bytes, the effect trace, the new AST's
    definitions (the model's `FnEdit`s), the CST before/after the splice, the header parses."""
    import contextlib

    import cdd.class_.parse  # noqa: F401  (import order)
    import cdd.compound.doctrans as D
    import cdd.compound.doctrans_utils as DU

    src, fmt, ta, nww = case["src"], case["fmt"], case["ta"], case["nww"]
    d = tempfile.mkdtemp(prefix="c07_", dir=os.environ.get("C07_TMP", "/tmp"))
    p = os.path.join(d, "m.py")
    rec = {"edits": None, "nodes_before": None, "nodes_after": None, "splice_error": None, "new_ast": None, "orig_ast": None, "edit_error": None}
    ev = _Events()
    real_dcst = DU.doctransify_cst
    real_DocTrans = D.DocTrans
    real_fml = D.fix_missing_locations

    def wrapped_DocTrans(*a, **kw):
        try:
            rec["orig_ast"] = pyast.module_to_json(kw["whole_ast"])
        except Exception:  # noqa
            rec["orig_ast"] = None
        return real_DocTrans(*a, **kw)

    def wrapped_fml(node):
        out = real_fml(node)
        try:
            rec["new_ast"] = pyast.module_to_json(out)
        except Exception:  # noqa
            rec["new_ast"] = None
        return out

    def wrapped_dcst(cst_list, node):
        rec["nodes_before"] = [node_json(n) for n in cst_list]
        try:
            rec["edits"] = edits_of(node)
        except Exception as e:  # noqa
            rec["edit_error"] = type(e).__name__
        try:
            real_dcst(cst_list, node)
        except BaseException as e:  # noqa
            rec["splice_error"] = type(e).__name__
            raise
        rec["nodes_after"] = [node_json(n) for n in cst_list]

    try:
        with open(p, "w", encoding="utf-8", newline="") as f:
            f.write(src)
        if case.get("missing"):
            os.unlink(p)
        D.doctransify_cst = wrapped_dcst
        D.DocTrans = wrapped_DocTrans
        D.fix_missing_locations = wrapped_fml
        D.open = ev.opener(open)
        err = None
        try:
            with contextlib.redirect_stdout(ev), contextlib.redirect_stderr(io.StringIO()):
                D.doctrans(p, fmt, ta, nww)
        except Exception as e:  # noqa
            err = type(e).__name__
        finally:
            D.doctransify_cst = real_dcst
            D.DocTrans = real_DocTrans
            D.fix_missing_locations = real_fml
            del D.open
        after = None
        if os.path.exists(p):
            with open(p, "r", encoding="utf-8", newline="") as f:
                after = f.read()
        entered = rec["nodes_before"] is not None
        parses = []
        if entered:
            from cdd.shared.cst_utils import reindent_block_with_pass_body

            seen = set()
            for n in rec["nodes_before"]:
                if n["kind"] == "FunctionDefinitionStart":
                    k = reindent_block_with_pass_body(n["value"])
                    if k not in seen:
                        seen.add(k)
                        parses.append(parse_header(k, n["value"]))
        out = {"after": after, "error": err, "trace": ev.ev, "entered": entered, "parses": parses, "missing": bool(case.get("missing")), **rec}
        # the property's oracle runs here, in the worker (it re-parses intermediate texts to attribute a failure to one CST change)
        out["fails"] = oracle(src, out)
        out["change_kinds"] = ([ch["what"] for ch in align(out["nodes_before"], out["nodes_after"], parses, out.get("edits"))]
                               if out.get("nodes_after") is not None else [])
        return out
    finally:
        shutil.rmtree(d, ignore_errors=True)


# ------------------------------------------------------------------------------------------------
# the property's oracle, on the real before / after files
# ------------------------------------------------------------------------------------------------
DEF_KINDS = ("FunctionDefinitionStart", "ClassDefinitionStart")
PRIORITY = ["unaligned", "wrong-open-paren+stray-arrow", "stray-arrow", "wrong-open-paren", "node-spans-two-definitions", "header-node-has-tail", "new-annotation-unparsable", "docstring-node-overlong", "same-line-tail", "indent-sample-not-statement", "indent-under-4", "docstring-not-triple-quoted", "escape-in-docstring",
            "triple-quote-in-docstring", "header-last-node", "empty-docstring-removed", "async-docstring-removed", "header-resynth",
            "docstring-removed", "return-type-changed"]


def py_lines(text: str):
    """the physical lines as CPython's tokenizer / `ast` line numbers count them: `\\n`, `\\r\\n` and a lone `\\r` end a line
    (a lone CR can appear when a `\\r` escape of a docstring is written out literally)"""
    import re

    return re.split(r"\r\n|\r|\n", text)


def py_readline(text: str):
    """a `readline` for `tokenize` whose rows agree with `ast` line numbers (see `py_lines`)"""
    import re

    it = iter(re.findall(r"[^\r\n]*(?:\r\n|\r|\n)|[^\r\n]+$", text))
    return lambda: next(it, "")


def comments_of(src: str):
    return [t.string for t in tokenize.generate_tokens(py_readline(src)) if t.type == tokenize.COMMENT]


def header_and_doc_lines(src: str, tree: ast.Module):
    """1-based line numbers belonging to a `def`/`class` header (from the keyword line to the line of its colon) or to a docstring of a
    function / class."""
    hdr, doc = set(), set()
    toks = list(tokenize.generate_tokens(py_readline(src)))
    starts = set()
    for n in ast.walk(tree):
        if isinstance(n, (ast.FunctionDef, ast.AsyncFunctionDef, ast.ClassDef)):
            starts.add((n.lineno, n.col_offset))
            if n.body and isinstance(n.body[0], ast.Expr) and isinstance(n.body[0].value, ast.Constant) and isinstance(n.body[0].value.value, str):
                doc.update(range(n.body[0].lineno, n.body[0].end_lineno + 1))
    i = 0
    while i < len(toks):
        t = toks[i]
        if t.type == tokenize.NAME and t.string in ("def", "class", "async") and t.start in starts:
            depth, j = 0, i
            while j < len(toks):
                u = toks[j]
                if u.type == tokenize.OP:
                    if u.string in "([{":
                        depth += 1
                    elif u.string in ")]}":
                        depth -= 1
                    elif u.string == ":" and depth == 0:
                        break
                j += 1
            end = toks[min(j, len(toks) - 1)].start[0]
            hdr.update(range(t.start[0], end + 1))
            i = j
        i += 1
    return hdr, doc


def _is_doc_stmt(s):
    return isinstance(s, ast.Expr) and isinstance(s.value, ast.Constant) and isinstance(s.value.value, str)


def erase(tree: ast.AST) -> ast.AST:
    """Remove docstrings of functions / classes, parameter / return / variable annotations and type comments."""

    class E(ast.NodeTransformer):
        def _body(self, node):
            if node.body and _is_doc_stmt(node.body[0]):
                node.body = node.body[1:]
            return node

        def visit_FunctionDef(self, node):
            self._body(node)
            node.returns = None
            node.type_comment = None
            for a in node.args.posonlyargs + node.args.args + node.args.kwonlyargs + [x for x in (node.args.vararg, node.args.kwarg) if x]:
                a.annotation = None
                a.type_comment = None
            self.generic_visit(node)
            return node

        visit_AsyncFunctionDef = visit_FunctionDef

        def visit_ClassDef(self, node):
            self._body(node)
            self.generic_visit(node)
            return node

        def visit_AnnAssign(self, node):
            self.generic_visit(node)
            if node.value is None:
                return ast.Expr(value=ast.Name(id="__declare__", ctx=ast.Load()))
            return ast.Assign(targets=[node.target], value=node.value, type_comment=None)

        def visit_Assign(self, node):
            self.generic_visit(node)
            node.type_comment = None
            return node

    return E().visit(tree)


def _defs(tree):
    """definitions with a dotted path, in source order"""
    out = []

    def rec(n, path):
        for ch in ast.iter_child_nodes(n):
            if isinstance(ch, (ast.FunctionDef, ast.AsyncFunctionDef, ast.ClassDef)):
                out.append((path + [ch.name], ch))
                rec(ch, path + [ch.name])
            else:
                rec(ch, path)

    rec(tree, [])
    return out


def _own_body_dump(n):
    """dump of a definition's (erased) body with nested definitions replaced by placeholders"""

    class P(ast.NodeTransformer):
        def visit_FunctionDef(self, node):
            return ast.Expr(value=ast.Name(id="__def__%s" % node.name, ctx=ast.Load()))

        visit_AsyncFunctionDef = visit_FunctionDef
        visit_ClassDef = visit_FunctionDef

    import copy

    return [ast.dump(P().visit(copy.deepcopy(s))) for s in n.body]


def ast_diff(before_erased: ast.Module, after_erased: ast.Module):
    """Where do the erased trees differ?  -> list of (field, path or None, lineno of the definition in the before file or None, resynth?)."""
    b, a = _defs(before_erased), _defs(after_erased)
    if [(p, type(n).__name__) for p, n in b] != [(p, type(n).__name__) for p, n in a]:
        k = next((i for i, (x, y) in enumerate(zip(b, a)) if (x[0], type(x[1]).__name__) != (y[0], type(y[1]).__name__)), min(len(b), len(a)))
        parent = b[k][0][:-1] if k < len(b) else (a[k][0][:-1] if k < len(a) else [])
        pn = next((n for p, n in b if p == parent), None)
        return [("definitions", parent or None, getattr(pn, "lineno", None), False)]
    out = []
    dl = lambda xs: [None if x is None else ast.dump(x) for x in xs]
    for (p, nb), (_, na) in zip(b, a):
        if isinstance(nb, ast.ClassDef):
            for f in ("bases", "keywords", "decorator_list"):
                if dl(getattr(nb, f)) != dl(getattr(na, f)):
                    out.append((f, p, nb.lineno, False))
        else:
            ab, aa = nb.args, na.args
            resynth = (not aa.defaults and not aa.kw_defaults and not aa.kwonlyargs and aa.vararg is None and aa.kwarg is None and not aa.posonlyargs
                       and [x.arg for x in aa.args] == [x.arg for x in ab.args])
            if resynth:
                # the re-synthesis is triggered by a change of parameter annotations (the only thing DocTrans does to a signature);
                # `_ann` attributes were put on the erased trees by `oracle`
                resynth = "ann-changed" if getattr(nb, "_anns", None) != getattr(na, "_anns", None) else "ann-same"
            for f in ("posonlyargs", "args", "kwonlyargs"):
                if [x.arg for x in getattr(ab, f)] != [x.arg for x in getattr(aa, f)]:
                    out.append((f, p, nb.lineno, resynth))
            for f in ("vararg", "kwarg"):
                if (getattr(ab, f) and getattr(ab, f).arg) != (getattr(aa, f) and getattr(aa, f).arg):
                    out.append((f, p, nb.lineno, resynth))
            for f in ("defaults", "kw_defaults"):
                if dl(getattr(ab, f)) != dl(getattr(aa, f)):
                    out.append((f, p, nb.lineno, resynth))
            if dl(nb.decorator_list) != dl(na.decorator_list):
                out.append(("decorator_list", p, nb.lineno, False))
        if _own_body_dump(nb) != _own_body_dump(na):
            out.append(("statements", p, nb.lineno, False))
    class _M:  # module level
        pass
    mb, ma = ast.Module(body=before_erased.body, type_ignores=[]), ast.Module(body=after_erased.body, type_ignores=[])
    if _own_body_dump(mb) != _own_body_dump(ma):
        out.append(("statements", None, None, False))
    if not out:
        out.append(("unknown", None, None, False))
    return out


def _lead_ws(value: str) -> int:
    s = value.lstrip("\n")
    return len(s) - len(s.lstrip())


def _overlong(value: str) -> bool:
    """a TripleQuoted node that holds more than one string: its own delimiter occurs more than twice"""
    q = value.strip()[:3]
    return q in ('"' * 3, "'" * 3) and value.count(q) > 2


def _header_parses(v: str) -> bool:
    try:
        ast.parse("\n".join(map(str.lstrip, v.split("\n"))).replace("    ", "", 1) + " pass")
        return True
    except (SyntaxError, ValueError):
        return False


def _wrong_open_paren(v: str) -> bool:
    """Does `value.find("(", function_name_starts_at)` miss the parenthesis that opens the parameter list?  (It does when `def` is
    preceded by neither a blank nor `)` — a tab, a newline — and something before it, e.g. a decorator, has a parenthesis.)"""
    import re

    start = 4 if v.startswith("def ") else (lambda i: v.find(")def ") if i == -1 else i)(v.find(" def ")) + 4 + 1
    m = re.search(r"\bdef\s+\w+\s*\(", v)
    return bool(m) and v.find("(", start) != m.end() - 1


def _bad_annotation(edits, hdr):
    """does the AST stage ask for a parameter annotation that is no valid annotation, for the definition of header node `hdr`?"""
    for e in edits or []:
        if e.get("name") == hdr["name"] and hdr["start"] <= e.get("lineno", -1) <= hdr["stop"] and "args" in e:
            for a in e["args"]["args"]:
                if a["ann"] is not None:
                    try:
                        ast.parse("def _(x: %s): pass" % a["ann"])
                    except (SyntaxError, ValueError):
                        return True
            # the return annotation is taken over from the docstring in the same way (`:rtype: ```*Callable[[], None]```` -> `-> *Callable[[], None]`)
            if e.get("returns") is not None:
                try:
                    ast.parse("def _() -> %s: pass" % e["returns"])
                except (SyntaxError, ValueError):
                    return True
    return False


def align(nb, na, parses, edits=None):
    """Align the real CST before / after the splice (the frame property makes this possible) -> list of changes:
    {what, start, end (after-file line numbers of the changed text), hdr (the header node it belongs to), flags}."""
    returns_of = {}
    for pr in parses or []:
        returns_of[pr.get("value")] = ("sig" in pr and pr["sig"]["returns"] is not None)
    isdef = lambda n: n is not None and n["kind"] in DEF_KINDS
    isdoc = lambda n: n is not None and n["kind"] == "TripleQuoted" and bool(n["is_docstr"])
    out = []
    i = j = 0
    line = 1
    hdr = None

    def span(y):
        return line + (1 if y["value"].startswith("\n") else 0), line + y["value"].count("\n")

    def doc_flags(src_node, new_node):
        import re

        if src_node is None:
            return ["header-last-node"]
        fl = []
        if src_node["kind"] == "TripleQuoted" and _overlong(src_node["value"]):
            # the scanner only ends a triple-quoted node on a line that ends with the quotes: `"""Doc."""  # noqa` runs on to the end of
            # the *next* docstring, and replacing "the docstring" deletes everything in between
            fl.append("docstring-node-overlong")
        if "\\" in src_node["value"] or "\\" in new_node["value"] or "\r" in new_node["value"]:
            # the *evaluated* docstring (escape sequences already interpreted) is written into the source text unescaped: `\\\\` comes
            # back as one backslash (which then escapes whatever follows), `\\r` as a raw carriage return, …
            fl.append("escape-in-docstring")
        if new_node["value"].count('"' * 3) > 2:
            # the replacement is always wrapped in three double quotes; text that itself contains them ends the string early
            fl.append("triple-quote-in-docstring")
        if not (src_node["kind"] == "TripleQuoted") and re.match(r"""[rRuUbBfF]{0,2}['"]""", src_node["value"].strip()):
            # the node after the header is a string statement the CST does not class as TripleQuoted (one-quote or prefixed docstring)
            fl.append("docstring-not-triple-quoted")
        if not src_node["value"].startswith("\n"):
            fl.append("same-line-tail")
        if _lead_ws(src_node["value"]) < 4:
            fl.append("indent-under-4")
        sv = src_node["value"].lstrip("\n")
        if sv.lstrip().startswith("#") or "\n" in sv[: _lead_ws(src_node["value"])]:
            # the indentation is sampled from a comment line / a whitespace-only line, which need not be indented like the body
            fl.append("indent-sample-not-statement")
        return fl

    while i < len(nb) or j < len(na):
        x = nb[i] if i < len(nb) else None
        y = na[j] if j < len(na) else None
        if x is not None and x == y:
            hdr = x if isdef(x) else None
            line += y["value"].count("\n")
            i += 1
            j += 1
            continue
        if isdef(x) and isdef(y) and all(x[k] == y[k] for k in ("kind", "name", "start", "stop")):
            fl = []
            real_arrows = 1 if returns_of.get(x["value"]) else 0
            if x["value"].count("->") > real_arrows:
                fl.append("stray-arrow")
            if _wrong_open_paren(x["value"]):
                fl.append("wrong-open-paren")
                if "stray-arrow" in fl:
                    fl.append("wrong-open-paren+stray-arrow")  # both ends of the replaced span are misplaced
            import re

            if len(re.findall(r"(?:^|\n)[ \t]*(?:(?:async[ \t]+)?def|class)[ \t]", x["value"])) > 1:
                # the scanner glued two definitions into one node (a decorated one-line stub is not flushed); the header is then
                # compared with the *first* definition's signature (`ast_parse(...).body[0]`)
                fl.append("node-spans-two-definitions")
            if not x["value"].rstrip().endswith(":"):
                # the scanner does not flush a decorated one-line stub at the end of the file: the header node also holds the body
                # (`... # stub`), which `remove_return_typ` / the argument surgery cut or duplicate
                fl.append("header-node-has-tail")
            if _bad_annotation(edits, x) and _header_parses(x["value"]) and not _header_parses(y["value"]):
                # an annotation the AST stage took over from the docstring (`:type K: *Union[int, str]`) is not an expression that may
                # stand there, and the rebuilt header does not parse
                fl.append("new-annotation-unparsable")
            bp, ap = x["value"][: max(x["value"].rfind(")"), 0)], y["value"][: max(y["value"].rfind(")"), 0)]
            fl.append("header-resynth" if bp != ap else "return-type-changed")
            s, e = span(y)
            out.append({"what": "header", "start": s, "end": e, "hdr": x, "flags": fl, "before": x["value"], "after": y["value"], "op": (i, 1, [y])})
            hdr = x
            line += y["value"].count("\n")
            i += 1
            j += 1
            continue
        if hdr is not None and isdoc(x) and isdoc(y):
            s, e = span(y)
            out.append({"what": "doc-replaced", "start": s, "end": e, "hdr": hdr, "flags": doc_flags(x, y), "op": (i, 1, [y]), "old": x["value"]})
            line += y["value"].count("\n")
            i += 1
            j += 1
            continue
        if hdr is not None and isdoc(y):
            s, e = span(y)
            out.append({"what": "doc-added", "start": s, "end": e, "hdr": hdr, "flags": doc_flags(x, y), "op": (i, 0, [y])})
            line += y["value"].count("\n")
            j += 1
            continue
        if hdr is not None and isdoc(x):
            import re

            fl = ["async-docstring-removed" if re.search(r"\basync\s+def\b", hdr["value"]) else "docstring-removed"]
            if x["value"].strip() in ('"' * 6, "'" * 6):
                # `get_doc_str(node) or ""`: an empty docstring is "no docstring wanted", the node is deleted
                fl.append("empty-docstring-removed")
            if _overlong(x["value"]):
                fl.append("docstring-node-overlong")
            out.append({"what": "doc-removed", "start": line, "end": line, "hdr": hdr, "op": (i, 1, []), "flags": fl, "old": x["value"]})
            i += 1
            continue
        out.append({"what": "unaligned", "start": line, "end": line, "hdr": hdr, "flags": ["unaligned"]})
        break
    return out


def _first_flag(flags):
    for f in PRIORITY:
        if f in flags:
            return f
    return "none"


_MATCHES = None


def _listed(sig: dict, specific: bool) -> bool:
    """is `sig` covered by a finding line (one that names the clause when `specific`, a cause-only line otherwise)?"""
    global _MATCHES
    if _MATCHES is None:
        _MATCHES = [it["match"] for it in core.KnownFindings("C07").items]
    return any(("clause" in m) == specific and all(sig.get(k) == v for k, v in m.items() if k != "trigger") for m in _MATCHES)


def pick_cause(flags, clause, field=None):
    """The anomaly a failure of kind (clause, field) is put down to, among the anomalies that ARE present on the culprit change: the
    highest-priority one already known to produce this kind of failure; failing that, the highest-priority one (the signature is then
    unlisted and the failure is reported).  Benign flags (normal operations) never explain a failure."""
    cand = [f for f in PRIORITY if f in flags and f not in BENIGN]
    for specific in (True, False):
        for f in cand:
            sig = {"clause": clause, "cause": f}
            if field is not None:
                sig["field"] = field
            if _listed(sig, specific):
                return f
    return cand[0] if cand else "none"


def text_with(nb, changes, k):
    """the file text after applying only the first `k` changes of the alignment to the CST `nb`"""
    out, pos = [], 0
    for c in changes[:k]:
        if "op" not in c:
            break
        i, nrem, new = c["op"]
        out += [n["value"] for n in nb[pos:i]] + [n["value"] for n in new]
        pos = i + nrem
    out += [n["value"] for n in nb[pos:]]
    return "".join(out)


def cause_of_invalid(nb, changes):
    """Apply the changes one after the other: the first one after which the file no longer parses is the cause."""
    for k in range(1, len(changes) + 1):
        try:
            ast.parse(text_with(nb, changes, k))
        except (SyntaxError, ValueError):
            return pick_cause(changes[k - 1]["flags"], "valid-python")
    return "none"


BENIGN = {"return-type-changed", "docstring-removed"}  # flags that describe a normal operation, not an anomaly
_LISTED = None


def _listed_causes():
    """the causes that are individually listed as known findings"""
    global _LISTED
    if _LISTED is None:
        _LISTED = {it["match"].get("cause") for it in core.KnownFindings("C07").items} - {None, "several-known-causes"}
    return _LISTED


def _combine(window, clause, field=None):
    """One cause for the changes applied since the last state on which the clause could be evaluated: the anomaly of the single
    change that has one; `several-known-causes` when several changes with *different* anomalies are involved and every one of them is
    individually a listed finding; `none` otherwise."""
    tops = [t for t in (pick_cause(c["flags"], clause, field) for c in window) if t != "none"]
    d = set(tops)
    if not d:
        return "none"
    if len(d) == 1:
        return tops[0]
    return "several-known-causes" if d <= _listed_causes() else "none"


def attribute_incremental(nb, changes, evaluate, kind_of):
    """Apply the real CST changes one after the other; `evaluate(text)` returns the set of failure keys present in that state, or None
    when the clause cannot be evaluated there (the intermediate text is not Python).  -> {key: cause} for the state in which each key
    first shows up, the cause being taken from the changes applied since the previous evaluable state; `kind_of(key)` = (clause, field)."""
    out, window = {}, []
    for k in range(1, len(changes) + 1):
        if "op" not in changes[k - 1]:
            break
        window.append(changes[k - 1])
        keys = evaluate(text_with(nb, changes, k))
        if keys is None:
            continue
        for key in keys:
            if key not in out:
                out[key] = _combine(window, *kind_of(key))
        window = []
    return out


def ast_keys(src, text):
    """the (field, path) pairs on which the erased trees of `src` and `text` differ; None when `text` is not Python"""
    try:
        tb2, ta2 = ast.parse(src), ast.parse(text)
    except (SyntaxError, ValueError):
        return None
    eb, ea = erase(tb2), erase(ta2)
    if ast.dump(eb) == ast.dump(ea):
        return set()
    return {(f, tuple(p) if p else None) for f, p, _, _ in ast_diff(eb, ea)}


def comment_keys(cb, text):
    try:
        return set() if comments_of(text) == cb else {"comments"}
    except (tokenize.TokenError, IndentationError, SyntaxError, ValueError):
        return None


def lines_outside(text):
    """the lines that are neither in a definition header nor in a docstring (None when `text` is not Python)"""
    try:
        t = ast.parse(text)
    except (SyntaxError, ValueError):
        return None
    h, d = header_and_doc_lines(text, t)
    return [(i, l) for i, l in enumerate(py_lines(text), 1) if i not in h and i not in d]


def cause_of_line_diff(src, nb, changes):
    """Apply the changes one after the other: the first one after which the lines clause fails is the cause."""
    want = [l for _, l in lines_outside(src)]

    def ev(text):
        got = lines_outside(text)
        return None if got is None else (set() if [l for _, l in got] == want else {"lines"})

    return attribute_incremental(nb, changes, ev, lambda key: ("lines", None)).get("lines", "none")


def flags_for_def(changes, name, lineno, body: bool):
    """flags of the changes made to one definition: of its docstring slot when its body differs, of its header otherwise"""
    fl = []
    for c in changes:
        h = c["hdr"]
        if h is not None and h["name"] == name and lineno is not None and h["start"] <= lineno <= h["stop"] and (c["what"] != "header") == body:
            fl += c["flags"]
    return fl


def cause_for_def(changes, name, lineno, body: bool, field):
    return pick_cause(flags_for_def(changes, name, lineno, body), "ast-erase", field)


def oracle(src: str, r: dict):
    """The property on the real before/after files.  -> list of (sig dict, text)."""
    fails = []
    after, err = r["after"], r["error"]
    if err is not None:
        if after != src and not (r.get("missing") and after is None):
            fails.append(({"clause": "atomic", "error": err}, "doctrans raised %s and left the file changed" % err))
        return fails
    if after == src:
        return fails
    try:
        tb = ast.parse(src)
    except (SyntaxError, ValueError):
        fails.append(({"clause": "atomic", "error": "none"}, "the input is not valid Python, yet doctrans rewrote the file"))
        return fails
    changes = align(r["nodes_before"], r["nodes_after"], r.get("parses"), r.get("edits")) if r.get("nodes_before") is not None and r.get("nodes_after") is not None else []
    try:
        ta = ast.parse(after)
    except (SyntaxError, ValueError) as e:
        ln = getattr(e, "lineno", None) or 1
        fails.append(({"clause": "valid-python", "cause": cause_of_invalid(r["nodes_before"], changes) if changes else "none"},
                      "output is not valid Python: %s (line %s)" % (getattr(e, "msg", e), ln)))
        return fails
    tb2, ta2 = ast.parse(src), ast.parse(after)
    for t in (tb2, ta2):  # remember the parameter annotations before erasing them
        for n in ast.walk(t):
            if isinstance(n, (ast.FunctionDef, ast.AsyncFunctionDef)):
                n._anns = [None if a.annotation is None else ast.dump(a.annotation) for a in n.args.args]
    eb, ea = erase(tb2), erase(ta2)
    if ast.dump(eb) != ast.dump(ea):
        exact = None  # computed on demand: exact attribution by applying the changes one at a time
        for field, path, lineno, resynth in ast_diff(eb, ea):
            if field == "definitions" or not path:
                # a definition vanished / appeared, or a module-level statement did: not tied to the changes of one definition —
                # found below by applying the changes one at a time
                cause = "none"
            else:
                cause = "header-resynth" if resynth else (cause_for_def(changes, path[-1], lineno, field == "statements", field) if path else "none")
            if cause == "none" and changes:
                # the difference is not explained by the changes made to that very definition (an over-long docstring node or a
                # misplaced header slice of *another* definition reaches into it): find the change that introduces it
                if exact is None:
                    exact = attribute_incremental(r["nodes_before"], changes, lambda text: ast_keys(src, text), lambda key: ("ast-erase", key[0]))
                cause = exact.get((field, tuple(path) if path else None), "none")
            sig = {"clause": "ast-erase", "field": field, "cause": cause}
            if resynth:
                if path and "node-spans-two-definitions" in flags_for_def(changes, path[-1], lineno, False):
                    sig["cause"] = "node-spans-two-definitions"
                else:
                    sig["trigger"] = resynth
            fails.append((sig,
                          "syntax tree differs after erase: %s of %s" % (field, ".".join(path) if path else "<module>")))
    cb, ca = comments_of(src), comments_of(after)
    if cb != ca:
        cc = comment_cause(cb, ca, changes)
        if cc == "none" and changes:
            cc = attribute_incremental(r["nodes_before"], changes, lambda text: comment_keys(cb, text), lambda key: ("comments", None)).get("comments", "none")
        fails.append(({"clause": "comments", "cause": cc}, "comment list differs: %r -> %r" % (cb[:8], ca[:8])))
    hb, db = header_and_doc_lines(src, tb)
    ha, da = header_and_doc_lines(after, ta)
    lb = [(i, l) for i, l in enumerate(py_lines(src), 1) if i not in hb and i not in db]
    la = [(i, l) for i, l in enumerate(py_lines(after), 1) if i not in ha and i not in da]
    if [l for _, l in lb] != [l for _, l in la]:
        k = next((i for i, (x, y) in enumerate(zip(lb, la)) if x[1] != y[1]), min(len(lb), len(la)))
        fails.append(({"clause": "lines", "cause": cause_of_line_diff(src, r["nodes_before"], changes) if changes else "none"},
                      "line outside headers/docstrings differs: %r -> %r" % ([l for _, l in lb[k:k + 2]], [l for _, l in la[k:k + 2]])))
    return fails


def comment_cause(cb, ca, changes):
    """`header-resynth` when the after-list is the before-list minus comments that stood inside re-synthesised headers."""
    it = iter(cb)
    if not all(any(x == y for y in it) for x in ca):  # `ca` must be a subsequence of `cb`
        return "none"
    from collections import Counter

    lost = Counter(cb) - Counter(ca)
    in_hdr = Counter()
    for c in changes:
        if c["what"] == "header" and "header-resynth" in c["flags"]:
            for cm in comments_in_text(c["before"]):
                in_hdr[cm] += 1
            for cm in comments_in_text(c["after"]):
                in_hdr[cm] -= 1
    if all(in_hdr[k] >= v for k, v in lost.items()):
        return "header-resynth"
    import re

    in_doc = Counter()
    for c in changes:
        if "docstring-node-overlong" in c["flags"] and "old" in c:
            for m in re.finditer(r"#[^\n]*", c["old"]):
                in_doc[m.group(0).rstrip()] += 1
    return "docstring-node-overlong" if all(in_hdr[k] + in_doc[k] >= v for k, v in lost.items()) else "none"


def comments_in_text(text):
    out = []
    try:
        for t in tokenize.generate_tokens(py_readline(text.lstrip("\n") + " pass\n")):
            if t.type == tokenize.COMMENT:
                out.append(t.string)
    except (tokenize.TokenError, IndentationError, SyntaxError):
        import re

        out += [m.group(0).rstrip() for m in re.finditer(r"#[^\n]*", text)]
    return out


# ------------------------------------------------------------------------------------------------
# cases
# ------------------------------------------------------------------------------------------------
REST_DOC = '    """\n    Doc.\n\n    :param a: the a\n    :type a: ```int```\n    """\n'

# Witnesses: (id, expected finding id or None, source, (fmt, ta, nww), expected header line in the output or None)
ARG_TYPE_COMMENT_SRCS = [
    '"""Module"""\n\n\ndef scale(\n    value,  # type: float\n    factor=2,  # type: int\n    *rest\n):\n    """\n    Scale a value\n\n    :param value: the value to scale\n\n'
    '    :param factor: multiplier\n\n    :return: scaled value\n    """\n    # keep me\n    return value * factor\n\n\nclass Box(object):\n    """A box"""\n\n'
    '    def grow(\n        self,\n        by=1,  # type: int\n    ):\n        """\n        Grow the box\n\n        :param by: amount\n\n        :return: new size\n        """\n        return by\n',
    'def f(\n    a,  # type: str\n    *,\n    k=None,  # type: Optional[int]\n    **kw  # type: Any\n):\n    # type: (...) -> str\n    """\n    Do it.\n\n    Args:\n      a: the a\n      k: the k\n\n'
    '    Returns:\n      str: the result\n    """\n    return a\n',
    'def g(a,  # type: int\n      b=(1, 2),  # type: tuple\n      ):\n    """Summary.\n\n    Parameters\n    ----------\n    a\n        the a\n    b\n        the b\n    """\n    x = 1  # type: int\n    return x\n',
]

WITNESSES = [
    ("w-default", ["C07-resynth-defaults"], "def f(a=1):\n" + REST_DOC + "    pass\n", ("rest", True, None), "def f(a: int):"),
    ("w-vararg", ["C07-resynth-vararg"], "def f(a, *b):\n" + REST_DOC + "    pass\n", ("rest", True, None), "def f(a: int):"),
    ("w-kwonly", ["C07-resynth-kwonly"], "def f(a, *, b):\n" + REST_DOC + "    pass\n", ("rest", True, None), "def f(a: int):"),
    ("w-kwdefault", ["C07-resynth-kwonly", "C07-resynth-kwdefaults"], "def f(a, *, b=2):\n" + REST_DOC + "    pass\n", ("rest", True, None), None),
    ("w-kwarg", ["C07-resynth-kwarg"], "def f(a, **b):\n" + REST_DOC + "    pass\n", ("rest", True, None), "def f(a: int):"),
    ("w-posonly", ["C07-resynth-posonly"], "def f(a, /, b):\n" + REST_DOC.replace(" a", " b") + "    pass\n", ("rest", True, None), "def f(b: int):"),
    ("w-ret-paren", [], "def f(a) -> T[()]:\n" + REST_DOC + "    pass\n", ("rest", True, None), "def f(a: int) -> T[()]:"),
    ("w-stray-arrow", ["C07-stray-arrow", "C07-stray-arrow-any"], 'def f(a) -> "g(x) -> y":\n' + REST_DOC + "    pass\n", ("rest", True, None), 'def f(a: int) -> y":'),
    ("w-deco-paren", ["C07-wrong-open-paren", "C07-wrong-open-paren-any"], "@dec(1) \ndef g(a):\n" + REST_DOC + "    pass\n", ("rest", True, None), "@dec(a: int):"),
    ("w-two-defs-one-node", ["C07-wrong-open-paren-definitions", "C07-wrong-open-paren-lines"],
     '@cache\ndef f1(\n    path_to,\n    n_items,\n) -> "Forward": ...  # stub\n@dec  #no space\nasync def f2(dataset_name, verbose=os.sep, *args: int):\n  """ """\n  import os\n',
     ("google", True, None), None),
    ("w-two-defs-wrong-signature", ["C07-two-definitions-one-node", "C07-two-definitions-one-node-any"],
     '@cache\ndef f1() -> int: ...  # stub\n@a.b\nasync def f2(a=1, *args) -> str:\n    """Do the thing.\n\n    Returns:\n      str: x\n    """\n    return None\n',
     ("google", True, None), None),
    ("w-deco-paren-and-arrow", ["C07-paren-and-arrow-decorator", "C07-paren-and-arrow-lines", "C07-paren-and-arrow-any"], "@dec()  # x -> y \ndef g(a: int):\n    return a\n", ("rest", False, None), None),
    ("w-docstring-then-comment", ["C07-docstring-node-overlong", "C07-docstring-node-overlong-any"],
     'class C:\n    """Doc."""  # noqa\n    def f(self, a):\n        """F doc."""\n        return a\n\ndef h(a):\n' + REST_DOC + "    return a\n", ("rest", True, None), None),
    ("w-docstring-then-comment-async", ["C07-docstring-node-overlong-definitions", "C07-docstring-node-overlong-comments", "C07-docstring-node-overlong-lines"],
     'async def g():\n    """Summary."""  # noqa\n    x = 1\n\n\ndef h(a=1):\n    """Doc h."""\n    return a\n', ("rest", True, None), None),
    ("w-docstring-then-comment-statement", ["C07-docstring-node-overlong-statements", "C07-docstring-node-overlong-lines"],
     'def g(a=1):\n    """Doc g."""  # noqa\n    q = """not a doc"""\n    return a\n', ("rest", True, None), None),
    ("w-deco-paren-and-arrow-invalid", ["C07-paren-and-arrow-invalid"], "@a.b  # x -> y\n@dec() \ndef g(a: int):\n    return a\n", ("rest", False, None), None),
    ("w-header-comment", ["C07-resynth-comment"], "def f(\n    a,  # first\n):\n" + REST_DOC + "    pass\n", ("rest", True, None), "def f(a: int):"),
    ("w-tail-comment", ["C07-tail-invalid"], "def g(a):  # c\n    return a\n", ("rest", False, None), None),
    ("w-tail-docstring", ["C07-tail-statements", "C07-tail-lines"], 'def g(a):  # c\n  """Doc.\n\n  :param a: the a\n  :type a: ```int```\n  """\n  return a\n',
     ("rest", True, None), None),
    ("w-indent2", ["C07-indent-invalid", "C07-indent-under-4-any"], 'def g(a):\n  """\n  Doc.\n\n  :param a: the a\n  :type a: ```int```\n  """\n  return a\n', ("rest", True, None), None),
    ("w-comment-indent", ["C07-indent-sample-invalid"], "def g(a):\n# note\n    return a\n", ("rest", False, None), None),
    ("w-blank-indent", ["C07-indent-sample-lines"], "def g(a):\n  \n    return a\n", ("rest", False, None), None),
    ("w-indent-tab-statements", ["C07-indent-statements", "C07-indent-lines"], 'def g(a):\n\t""" """\n\tz = 3\n\treturn a\n\ndef h(a):\n' + REST_DOC + "    return a\n",
     ("rest", True, None), None),
    ("w-one-quote-docstring", ["C07-plain-string-docstring-statements", "C07-plain-string-docstring-lines"],
     'class C:\n    "Doc."\n    x = 1\n\ndef h(a):\n' + REST_DOC + "    return a\n", ("rest", True, None), None),
    ("w-raw-docstring", ["C07-plain-string-docstring-statements", "C07-plain-string-docstring-lines"],
     'class C:\n    r"""Doc \\d."""\n    x = 1\n\ndef h(a):\n' + REST_DOC + "    return a\n", ("rest", True, None), None),
    ("w-triple-dq-inside", ["C07-triple-quote-in-docstring", "C07-triple-quote-in-docstring-any"],
     "def g(a):\n    \'\'\'Say \"\"\"hi\"\"\" to a.\n\n    :param a: the a\n    :type a: ```int```\n    \'\'\'\n    return a\n", ("rest", True, None), None),
    ("w-unbalanced-comment", ["C07-header-last-node-statements", "C07-header-last-node-lines", "C07-header-last-node-any"],
     "def h(a):\n" + REST_DOC + '    return a\n\nclass C(Base):  # 1) note\n    """Doc."""\n    x = 1\n', ("rest", True, None), None),
    # an `async def` whose body is its docstring, in a file that is rewritten: the docstring must stay (get_doc_str handles AsyncFunctionDef)
    ("w-async-sole", [], 'async def g(a):\n    """Doc."""\n\ndef h(a):\n' + REST_DOC + "    return a\n", ("rest", True, None), None),
    ("w-empty-docstring-sole-body", ["C07-empty-docstring-sole-body"], 'class C:\n    ' + '"' * 6 + '\n\ndef h(a):\n' + REST_DOC + "    return a\n", ("rest", True, None), None),
    ("w-escape-in-docstring", ["C07-escape-in-docstring", "C07-escape-in-docstring-any"],
     "class C1:\n    def step(self,\n             *args,\n             **kwargs: Any):\n        \'\'\'Summary line. A backslash: \\\\\'\'\'\n        #no space\n        ...\n",
     ("google", False, None), None),
    ("w-decorated-stub-at-eof", ["C07-header-node-has-tail", "C07-header-node-has-tail-any"],
     "@dec()\nclass C3(object):\n    @dec\n    def step(self,\n             bar_baz) -> int: ...  # stub", ("google", False, None), None),
    ("w-starred-docstring-type", ["C07-docstring-type-not-annotation"],
     'def f(K):\n    """\n    Doc.\n\n    :param K: the k\n    :type K: ```*Union[int, str]```\n    """\n    return K\n', ("rest", True, None), "def f(K: *Union[int, str]) -> str:"),
    # PEP 484 per-argument type comments in a multi-line header; no annotation changes (--no-type-annotations), so the header, its
    # defaults, `*rest` and its comments must stay byte-identical while the docstring is converted
    ("w-arg-type-comments", [], ARG_TYPE_COMMENT_SRCS[0], ("google", False, None), None),
    ("w-comment-before-docstring", ["C07-comment-before-docstring-statements", "C07-indent-sample-lines"], ARG_TYPE_COMMENT_SRCS[1], ("rest", False, None), None),
    ("w-stub-atomic", [], "def s(a): ...\n\ndef h(a):\n" + REST_DOC + "    return a\n", ("rest", True, None), None),
]

MALFORMED = ["def f(:\n    pass\n", "class\n", "def f():\nreturn 1\n", "x = (\n", '"""unterminated\n', "def f(a):\n\t pass\n        pass\n", "\x00", "def f(a) -> :\n  pass\n",
             "async def\n", "@\ndef f(): pass\n", "lambda: (yield)\n  x\n"]


def gen_cases(chk: core.Check):
    rng = chk.rng
    cases = []

    def add(src, cfg, kind, feats=(), **kw):
        cases.append({"src": src, "fmt": cfg[0], "ta": cfg[1], "nww": cfg[2], "kind": kind, "feats": list(feats), **kw})

    for wid, _, src, cfg, _ in WITNESSES:
        add(src, cfg, "witness", [wid], wid=wid)
    for src in ARG_TYPE_COMMENT_SRCS:  # deterministic: type comments (per argument, per function, per assignment) x every configuration
        for cfg in CONFIGS:
            add(src, cfg, "type-comments", ["arg-type-comment"])
    n_single, n_grid, n_fail, n_mut = (4000, 250, 600, 500) if chk.quick else (24000, 1500, 4000, 3000)
    for _ in range(n_single):
        src, feats = c07mod.gen_module(rng)
        add(src, rng.choice(CONFIGS), "structured", feats)
    for _ in range(n_grid):
        src, feats = c07mod.gen_module(rng)
        for cfg in CONFIGS:
            add(src, cfg, "structured-grid", feats)
    for _ in range(n_fail):
        src, feats = c07mod.with_failure(rng)
        add(src, rng.choice(CONFIGS), "failure-injection", feats)
    # malformed stream: not Python at all, byte-level mutants of generated modules, a missing file
    for m in MALFORMED:
        add(m, rng.choice(CONFIGS), "malformed", ["malformed"])
    for _ in range(n_mut):
        src, feats = c07mod.gen_module(rng)
        s = list(src)
        for _ in range(rng.randint(1, 4)):
            if s:
                i = rng.randrange(len(s))
                tok = rng.choice(["(", ")", ":", '"""', "'", "\n", "    ", "\t", "#", "->", "\\", "def ", "=", ",", "*", "[", "]", " "])
                if rng.random() < 0.5:
                    s[i:i] = list(tok)
                else:
                    del s[i:i + rng.randint(1, 4)]
        add("".join(s), rng.choice(CONFIGS), "mutant", ["mutant"])
    add("x = 1\n", CONFIGS[0], "missing-file", ["missing"], missing=True)
    return cases


# ------------------------------------------------------------------------------------------------
# model requests
# ------------------------------------------------------------------------------------------------
def trace_request(c, r):
    if c.get("missing"):
        return {"op": "c07.doctrans", "src": "", "read_error": r["error"] or "none", "changed": False, "edits": [], "parses": []}
    if r["error"] is not None and not r["entered"]:
        return {"op": "c07.doctrans", "src": c["src"], "ast_error": r["error"], "changed": False, "edits": [], "parses": []}
    return {"op": "c07.doctrans", "src": c["src"], "changed": bool(r["entered"]), "edits": r["edits"] or [], "parses": list(r["parses"])}


def with_oracle_retries(reqs, get_miss):
    """Run a batch; a request whose header-parse table lacks a key gets that key added (computed by CPython) and is re-run."""
    out = core.model_batch(reqs)
    for _ in range(6):
        redo = []
        for k, (q, m) in enumerate(zip(reqs, out)):
            key = get_miss(m)
            if key is not None:
                q["parses"].append(parse_header(key))
                redo.append(k)
        if not redo:
            break
        new = core.model_batch([reqs[k] for k in redo])
        for k, m in zip(redo, new):
            out[k] = m
    return out


def _miss_splice(m):
    x = m.get("raises", "")
    return x[len("oracle-miss:"):] if x.startswith("oracle-miss:") else None


def _miss_trace(m):
    x = m.get("result", "")
    return x[len("raises:oracle-miss:"):] if x.startswith("raises:oracle-miss:") else None


def ast_request(c, r):
    """AST-level op: the decisions (new docstring / annotations / return type per function) are read off the real output."""
    orig, new = r.get("orig_ast"), r.get("new_ast")
    if orig is None or new is None:
        return None
    docs, ptys, rtys = {}, {}, {}
    seen = set()
    dup = [False]

    def walk(stmts, path):
        for s in stmts:
            if s["k"] in ("fn", "cls"):
                p = ".".join(path + [s["name"]])
                if p in seen:
                    dup[0] = True
                seen.add(p)
                if s["k"] == "fn" and not s["async"]:
                    if s["body"] and s["body"][0]["k"] == "str":
                        docs[p] = s["body"][0]["s"]
                    ptys[p] = {a["name"]: a["ann"] for a in s["args"]["args"] if a["ann"] is not None}
                    rtys[p] = s["returns"]
                walk(s["body"], path + [s["name"]])

    def opaque_has_rewritable(stmts):
        """a statement kept as text (if/for/with/try …) that contains something DocTrans rewrites: outside the flat model's domain"""
        for s in stmts:
            if s["k"] == "other":
                try:
                    if any(isinstance(n, (ast.AnnAssign, ast.FunctionDef, ast.AsyncFunctionDef, ast.ClassDef)) for n in ast.walk(ast.parse(s["src"]))):
                        return True
                except (SyntaxError, ValueError):
                    return True
            elif s["k"] in ("fn", "cls") and opaque_has_rewritable(s["body"]):
                return True
        return False

    walk(new, [])
    if dup[0] or opaque_has_rewritable(orig):
        return None
    return {"op": "c07.doctrans_ast", "module": orig, "type_annotations": bool(c["ta"]), "new_doc": docs, "param_typ": ptys, "return_typ": rtys}


# ------------------------------------------------------------------------------------------------
BATCH_TIMEOUT_S = 3600  # for one batch of <= 4000 runs (normally 10-40 s); there is NO per-case timeout


def pmap_guarded(fn, items):
    """Process-parallel map.  No per-case timeout exists, so machine load can never turn a slow run into a result; if a whole batch is
    not back after BATCH_TIMEOUT_S (a hang of the analysed code or of the machine) the workers are killed and the check ends as a
    harness problem (exit 2) — never as a verdict."""
    import concurrent.futures as cf

    if len(items) < 64:
        return [fn(x) for x in items]
    ex = cf.ProcessPoolExecutor(core.NCPU)
    try:
        return list(ex.map(fn, items, chunksize=16, timeout=BATCH_TIMEOUT_S))
    except cf.TimeoutError:
        for pr in list(getattr(ex, "_processes", {}).values()):
            try:
                pr.kill()
            except Exception:  # noqa
                pass
        raise core.HarnessError("a batch of %d doctrans runs did not finish within %d s (hang or overload); no verdict" % (len(items), BATCH_TIMEOUT_S))
    finally:
        ex.shutdown(wait=False, cancel_futures=True)


def process_batch(chk: core.Check, cases, acc):
    """real runs, model runs, correspondence and the property's oracle for one batch of cases"""
    res = pmap_guarded(impl_one, cases)
    for c, r in zip(cases, res):
        if "harness_error" in r:
            raise core.HarnessError("impl_one failed on a %s case: %s" % (c["kind"], r["harness_error"]))
        r["missing"] = bool(c.get("missing"))

    # ---- model runs ---------------------------------------------------------------------------------------------
    usable = [k for k, r in enumerate(res) if r["edit_error"] is None]
    splice_idx = [k for k in usable if res[k]["entered"]]
    splice_out = with_oracle_retries([{"op": "c07.splice", "nodes": res[k]["nodes_before"], "edits": res[k]["edits"], "parses": list(res[k]["parses"])}
                                      for k in splice_idx], _miss_splice)
    trace_out = with_oracle_retries([trace_request(cases[k], res[k]) for k in usable], _miss_trace)
    ast_reqs = [(k, ast_request(cases[k], res[k])) for k in usable]
    ast_reqs = [(k, q) for k, q in ast_reqs if q is not None]
    ast_out = core.model_batch([q for _, q in ast_reqs])
    sigs, reind = {}, {}
    for r in res:
        for e in r["edits"] or []:
            if "args" in e:
                sigs[json.dumps(e["args"], sort_keys=True)] = e["args_text"]
        for pr in r["parses"]:
            reind[pr["value"]] = pr["key"]
            if "sig" in pr:
                sigs[json.dumps(pr["sig"]["args"], sort_keys=True)] = pr["args_text"]
    sig_items = sorted((k, v) for k, v in sigs.items() if k not in acc["sigs_seen"])
    acc["sigs_seen"].update(k for k, _ in sig_items)
    unp_out = core.model_batch([{"op": "c07.unparse_args", "args": json.loads(a)} for a, _ in sig_items])
    re_items = sorted((k, v) for k, v in reind.items() if k not in acc["reind_seen"])
    acc["reind_seen"].update(k for k, _ in re_items)
    re_out = core.model_batch([{"op": "c07.reindent", "s": v} for v, _ in re_items])

    # ---- correspondence ---------------------------------------------------------------------------------------------
    n_dis = acc["n_dis"]
    for k, m in zip(splice_idx, splice_out):
        c, r = cases[k], res[k]
        prints = [e[1] for e in r["trace"] if e[0] == "print"]
        if "error" in m:
            ok = False
        elif r["splice_error"]:
            ok = m.get("raises") == r["splice_error"] and m.get("log") == prints
        else:
            ok = m.get("nodes") == r["nodes_after"] and m.get("log") == prints
        if not ok:
            n_dis["splice"] += 1
            chk.disagreement("C07 correspondence: DocTransCst.doctransifyLoop vs doctransify_cst (nodes, debug lines, exception)",
                             {"src": c["src"][:3000], "cfg": [c["fmt"], c["ta"], c["nww"]]},
                             {"raises": r["splice_error"], "out": "".join(n["value"] for n in (r["nodes_after"] or []))[:1500], "log": prints[:10]},
                             {"raises": m.get("raises"), "out": (m.get("out") or "")[:1500], "log": (m.get("log") or [])[:10], "error": m.get("error")})
    for k, m in zip(usable, trace_out):
        c, r = cases[k], res[k]
        want_res = "ok" if r["error"] is None else "raises:" + r["error"]
        want_after = r["after"] if r["after"] is not None else ""
        ok = "error" not in m and m.get("trace") == r["trace"] and m.get("result") == want_res and m.get("file_after") == want_after
        if not ok:
            n_dis["trace"] += 1
            chk.disagreement("C07 correspondence: DocTransCst.doctrans effect trace / written bytes vs cdd.compound.doctrans.doctrans",
                             {"src": c["src"][:3000], "cfg": [c["fmt"], c["ta"], c["nww"]], "kind": c["kind"]},
                             {"trace": [e[:1] + [x[:200] for x in e[1:]] for e in r["trace"]][:12], "result": want_res, "after": want_after[:1500]},
                             {"trace": [e[:1] + [x[:200] for x in e[1:]] for e in m.get("trace", [])][:12], "result": m.get("result"), "after": (m.get("file_after") or "")[:1500],
                              "error": m.get("error")})
    for (k, q), m in zip(ast_reqs, ast_out):
        if "error" in m or m.get("module") != res[k]["new_ast"]:
            n_dis["ast"] += 1
            chk.disagreement("C07 correspondence: DocTransAst.docTrans vs DocTrans(...).visit (flat AST JSON)",
                             {"src": cases[k]["src"][:3000], "cfg": [cases[k]["fmt"], cases[k]["ta"], cases[k]["nww"]]},
                             json.dumps(res[k]["new_ast"])[:1500], json.dumps(m.get("module", m))[:1500])
    for (a, text), m in zip(sig_items, unp_out):
        if m.get("r") != text:
            n_dis["unparse_args"] += 1
            chk.disagreement("C07 correspondence: unparseArgs vs ast.unparse(arguments)", {"args": json.loads(a)}, text, m.get("r", m))
    for (v, key), m in zip(re_items, re_out):
        if m.get("r") != key:
            n_dis["reindent"] += 1
            chk.disagreement("C07 correspondence: reindentWithPass vs reindent_block_with_pass_body", {"value": v}, key, m.get("r", m))
    # ---- the property's oracle on the real files; witnesses ---------------------------------------------------------------
    kinds, outcomes, feats, cfgs, errs, change_kinds, witness_sigs = (acc[k] for k in ("kinds", "outcomes", "feats", "cfgs", "errs", "change_kinds", "witness_sigs"))
    acc["n_splice"] += len(splice_idx)
    acc["n_trace"] += len(usable)
    acc["n_ast"] += len(ast_reqs)
    acc["edit_fail"] += sum(1 for r in res if r["edit_error"] is not None)
    for c, r in zip(cases, res):
        kinds[c["kind"]] += 1
        cfgs["%s/%s/%s" % (c["fmt"], "ta" if c["ta"] else "no-ta", "nowrap" if c["nww"] else "wrap")] += 1
        for f in c["feats"]:
            feats[f] += 1
        changed = r["after"] != c["src"]
        outcomes["raised-in-cst-stage" if (r["error"] and r["entered"]) else "raised-before-cst-stage" if r["error"] else "rewritten" if changed else "unchanged"] += 1
        if r["error"]:
            errs[r["error"] + ("@cst" if r["entered"] else "@ast")] += 1
        for what in r["change_kinds"]:
            change_kinds[what] += 1
        chk.count((c["src"], c["fmt"], c["ta"], c["nww"]), nontrivial=bool(changed or (r["error"] and r["entered"])))
        if changed and len(c["src"]) < 260 and c["kind"] == "structured":
            chk.sample({"cfg": [c["fmt"], c["ta"], c["nww"]], "before": c["src"], "after": r["after"]})
        fails = r["fails"]
        if c["kind"] == "witness":
            witness_sigs[c["wid"]] = (fails, r)
        for sig, text in fails:
            chk.failure(sig, "doctrans(%s, type_annotations=%s, no_word_wrap=%s): %s" % (c["fmt"], c["ta"], c["nww"], text),
                        {"case": {k: c[k] for k in ("src", "fmt", "ta", "nww") if k in c} | ({"missing": True} if c.get("missing") else {}), "after": r["after"], "error": r["error"]})


def run(chk: core.Check) -> int:
    chk.lean(MODULE, THEOREMS)
    chk.trusted_base += [
        "hand-written models lean/CddVerif/Model/DocTransCst.lean (find_cst_at_ast, maybe_replace_doc_str_in_function_or_class, maybe_replace_function_return_type, "
        "maybe_replace_function_args, get_doc_str, reindent_block_with_pass_body, doctransify_cst, doctrans as an effect trace) and Model/DocTransAst.lean (DocTrans on the flat AST), "
        "tied to the code by exact comparison of node lists / written bytes / effect traces / AST JSON",
        "CPython's ast.parse of the re-indented header (`ast_parse(...).body[0]`) is an oracle parameter of the model; expressions are compared and printed through ast.unparse",
        "the AST-level stage (ast_parse, DocTrans.visit, fix_missing_locations, cmp_ast) enters the CST model only through the recorded definitions of the new tree (FnEdit); "
        "harness/props/c07.py:edits_of re-implements the `walk`/`hasattr(_location)`/`isinstance` filter of doctransify_cst",
        "ast.parse line numbers link AST and CST; IO errors during the final write are outside the model",
        "model of lean/CddVerif/Model/Cst.lean (C09) for cst_parse",
    ]
    if not core.DRIVER.exists():
        raise core.HarnessError("Lean driver not built")
    cases = gen_cases(chk)
    from collections import Counter

    acc = {"n_dis": {"splice": 0, "trace": 0, "ast": 0, "unparse_args": 0, "reindent": 0}, "n_splice": 0, "n_trace": 0, "n_ast": 0, "sigs_seen": set(), "reind_seen": set(),
           "kinds": Counter(), "outcomes": Counter(), "feats": Counter(), "cfgs": Counter(), "errs": Counter(), "change_kinds": Counter(), "witness_sigs": {},
           "edit_fail": 0}
    batch = 4000  # bounds the memory held at once (CST before/after, ASTs, traces of every run)
    for i in range(0, len(cases), batch):
        process_batch(chk, cases[i:i + batch], acc)
    n_dis = acc["n_dis"]
    chk.oblige("correspondence doctransifyLoop = doctransify_cst on %d splices" % acc["n_splice"], "correspondence", n_dis["splice"] == 0, "%d disagreements" % n_dis["splice"])
    chk.oblige("correspondence doctrans effect trace + written bytes on %d runs" % acc["n_trace"], "correspondence", n_dis["trace"] == 0, "%d disagreements" % n_dis["trace"])
    chk.oblige("correspondence docTrans (flat AST) = DocTrans.visit on %d modules" % acc["n_ast"], "correspondence", n_dis["ast"] == 0, "%d disagreements" % n_dis["ast"])
    chk.oblige("correspondence unparseArgs = ast.unparse(arguments) on %d signatures" % len(acc["sigs_seen"]), "correspondence", n_dis["unparse_args"] == 0,
               "%d disagreements" % n_dis["unparse_args"])
    chk.oblige("correspondence reindentWithPass on %d headers" % len(acc["reind_seen"]), "correspondence", n_dis["reindent"] == 0, "%d disagreements" % n_dis["reindent"])
    kinds, outcomes, feats, cfgs, errs, change_kinds, witness_sigs = (acc[k] for k in ("kinds", "outcomes", "feats", "cfgs", "errs", "change_kinds", "witness_sigs"))
    # witnesses: the Lean witnesses' outputs and the known findings' inputs, re-verified on the real code
    stale = []
    for wid, fids, src, cfg, hdr_line in WITNESSES:
        fails, r = witness_sigs[wid]
        if hdr_line is not None:
            got = (r["after"] or "").split("\n")
            okw = hdr_line in got
            chk.oblige("witness %s: real output has the header line %r (as the Lean witness)" % (wid, hdr_line), "witness", okw, "got %r" % got[:3])
        got_ids = set()
        for sg, _ in fails:
            for it in chk.kf.items:
                if all(sg.get(k) == v for k, v in it["match"].items()):
                    got_ids.add(it["id"])
        for fid in fids:
            if fid not in got_ids:
                stale.append(fid)
        if wid == "w-async-sole":
            chk.oblige("witness w-async-sole: the file is rewritten, stays Python, and the `async def` keeps its docstring-only body", "witness",
                       r["error"] is None and r["after"] != src and (r["after"] or "").startswith('async def g(a):\n    """Doc."""\n') and not fails,
                       "error=%s after=%r" % (r["error"], (r["after"] or "")[:60]))
        if wid == "w-arg-type-comments":
            chk.oblige("witness w-arg-type-comments: docstring converted, the header with its per-argument `# type:` comments, default and *rest untouched",
                       "witness", r["error"] is None and r["after"] != src and "    factor=2,  # type: int\n    *rest\n):" in (r["after"] or "") and not fails,
                       "error=%s fails=%s after=%r" % (r["error"], [s for s, _ in fails][:3], (r["after"] or "")[:120]))
        if wid == "w-stub-atomic":
            chk.oblige("witness w-stub-atomic: the CST stage raises and the file is byte-identical", "witness",
                       r["error"] == "AttributeError" and r["entered"] and r["after"] == src, "error=%s entered=%s" % (r["error"], r["entered"]))
    for fid in stale:
        chk.notes.append("finding %s: its witness no longer fails on the real code (stale)" % fid)
    chk.coverage.update({"input_kinds": dict(kinds), "outcomes": dict(outcomes), "configs": dict(cfgs), "features": dict(feats), "errors": dict(errs),
                         "cst_changes": dict(change_kinds), "splices_compared": acc["n_splice"], "ast_level_compared": acc["n_ast"],
                         "signatures_compared": len(acc["sigs_seen"]), "stale_findings": stale,
                         "edit_extraction_failed": acc["edit_fail"]})
    return chk.finish("inputs: generated modules (functions, async functions, methods, nested definitions, classes; defaults, annotations, *args, **kwargs, "
                      "keyword-only, positional-only, multi-line headers, decorators with parentheses, return annotations with parentheses, stubs, three docstring "
                      "styles or none, comments, 2-space / tab / 4-space bodies) x 12 configurations; failure injection in the CST stage; malformed files; "
                      "non-trivial = the file was rewritten or the CST stage raised; distinct by (source, configuration)")


def replay(path: str) -> int:
    d = json.loads(Path(path).read_text())
    rp = d.get("replay") or {}
    c = rp.get("case")
    if not c:
        print("replay: this file records a broken proof obligation / correspondence, there is no single input to re-run:")
        for b in d.get("no_longer_checks", d.get("broken", []))[:5]:
            print("  -", b.get("name"), (b.get("detail") or "")[:300])
        return 1
    import cdd.class_.parse  # noqa: F401

    r = impl_one(c)
    r["missing"] = bool(c.get("missing"))
    fails = oracle(c["src"], r)
    print("replay: doctrans(%s, type_annotations=%s, no_word_wrap=%s) on\n%s" % (c["fmt"], c["ta"], c["nww"], c["src"]))
    print("-> error=%s\n%s" % (r["error"], r["after"]))
    for sig, text in fails:
        print("FAIL", json.dumps(sig), text)
    if not fails:
        print("property holds on this input")
    return 1 if fails else 0
