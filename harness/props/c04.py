"""C04 — emitted code runs and exposes exactly the described interface (DESIGN.md §4 C04).

Per generated interface description (executable domain: types from typing + builtins, literal defaults) and per emitter
{class, pydantic-shaped class, function, argparse} × docstring style:

* the REAL emitter (cdd.class_.emit / cdd.pydantic.emit / cdd.function.emit / cdd.argparse_function.emit) builds the AST,
  `cdd.shared.source_transformer.to_code` renders it, the text is `compile()`d and `exec()`ed **in a forked worker** in a
  scratch namespace holding `typing` + a stub `BaseModel` (nothing but emitted source is ever executed);
* observed: the emitted AST (attribute / `arguments` / `add_argument` records), `__annotations__`, class attributes,
  `inspect.signature`, `ArgumentParser._actions`, `parse_args([])`, `parse_args([...legal values...])`, per-action
  `_get_value` + `_check_value` on legal and illegal command-line strings;
* correspondence 1 (emitter decisions): AST records = `EmitIface.emitClass / emitFunction / emitArgparse`;
* correspondence 2 (semantics): run-time observations = `classAttrs / signature / actionOf / parseArgs / accepts`;
* the property's oracle: run-time observations = the *described* interface (`describe…` of the spec file, printed by the
  driver op `c04.describe`; annotation objects = `eval(type string)` in the same namespace);
* `ast.dump(ast.parse(ast.unparse(x))) == ast.dump(x)` on every emitted AST (observed only — CPython's printer/parser).
"""
from __future__ import annotations

import ast
import copy
import json
from collections import OrderedDict
from pathlib import Path

from harness import core

MODULE = "CddVerif.Properties.C04"
THEOREMS = [
    "C04.class_attrs_described", "C04.signature_characterised", "C04.signature_described_partial", "C04.not_function_full",
    "C04.one_action_per_param", "C04.action_help_default", "C04.action_choices_partial", "C04.not_choices_full",
    "C04.no_choices_from_partial_subscript", "C04.action_required_characterised", "C04.action_required_partial",
    "C04.not_required_full_default", "C04.not_required_full_bool", "C04.choices_accept_legal", "C04.not_choices_accept_full",
    "C04.accepts_iff_legal_partial", "C04.not_accepts_full_union", "C04.parse_empty_semantics", "C04.parse_empty_described_partial",
    "C04.not_parse_empty_full", "C04.falsy_defaults_kept", "C04.pep604_str_default_kept",
]
NoneStr = "```(None)```"
STYLES = ("rest", "google", "numpydoc")
EMITTERS = ("class", "pydantic", "function", "argparse")
SCALARS = ("int", "float", "bool", "str")
NAMES = ["a", "b", "foo", "bar_baz", "x1", "dataset_name", "K", "as_numpy", "lr", "epochs", "alpha", "beta", "n_items", "path_to", "verbose_flag"]
DOCS = ["the alpha thing", "dataset name", "learning rate used", "a thing", "some text here", "flag for verbosity", "batch count here",
        "Random seed", "", "number of seconds to wait before the request is abandoned and the caller is told about it in no uncertain terms at all, really",
        "percent of items kept"]
MEMBERS = ["alpha", "beta", "gamma", "delta", "eps", "np", "tf", "a b", "stop or go", "list of x", "a, b", "int"]  # members that read like type prose ("or", "of", a comma, a type name) are ordinary strings
INTS = [0, 1, 5, -3, 42, 100]
FLOATS = [0.0, 0.5, 1.0, -2.5, 0.001, 3.14]
STRS = ["", "mnist", "foo", "bar baz", "a_b", "~/data", "5", "''", "auto", "first batch", "it's", 'say "hi" twice']  # "''" (two quote characters) is the longest string set_value must leave alone
ODD_STRS = ["None", "'q'", '"dq"']  # rare: trigger the quote-stripping of set_value / the none_types test of function emit


# ----------------------------------------------------------------------------------------------
# domain descriptions (JSON for the driver op c04.describe) and their rendering as a cdd IR
# ----------------------------------------------------------------------------------------------
def gen_litm(r, kind):
    if kind == "i" or (kind == "mixed" and r.random() < 0.5):
        return {"k": "i", "v": r.choice([1, 2, 3, 7, 10])}
    s = r.choice(MEMBERS)
    return {"k": "s", "v": s}


def gen_members(r):
    shape = r.choice(["str", "str", "str", "single", "mixed", "int"])
    if shape == "single":
        return [gen_litm(r, "s")]
    n = r.randint(2, 4)
    if shape == "str":
        ms = [{"k": "s", "v": s} for s in r.sample(MEMBERS, n)]
        if r.random() < 0.04:
            ms[0] = {"k": "s", "v": "'q'"}
        return ms
    if shape == "int":
        return [{"k": "i", "v": v} for v in r.sample([1, 2, 3, 7, 10], n)]
    ms = [{"k": "s", "v": s} for s in r.sample(MEMBERS, n - 1)] + [{"k": "i", "v": r.choice([1, 2, 3])}]
    r.shuffle(ms)
    return ms


def gen_dtyp(r):
    k = r.choice(["scalar", "scalar", "optional", "optional", "union", "list", "literal", "literal", "optLiteral", "annotated",
                  "tupleEllipsis", "callableEllipsis"])
    if k in ("scalar", "optional", "list", "tupleEllipsis", "callableEllipsis"):
        return {"k": k, "s": r.choice(SCALARS)}
    if k == "union":
        return {"k": k, "members": r.sample(SCALARS, r.randint(2, 3))}
    if k in ("literal", "optLiteral"):
        return {"k": k, "members": gen_members(r)}
    return {"k": "annotated", "s": r.choice(SCALARS), "note": r.choice(["seconds", "unit: m", "x"])}


def scalar_default(r, s):
    if s == "int":
        return {"k": "int", "v": r.choice(INTS)}
    if s == "float":
        return {"k": "float", "v": repr(r.choice(FLOATS))}
    if s == "bool":
        return {"k": "bool", "v": r.choice([True, False])}
    return {"k": "str", "v": r.choice(ODD_STRS) if r.random() < 0.03 else r.choice(STRS)}


def gen_ddefault(r, dt):
    """a legal default of the type (None = no default)"""
    k = dt["k"]
    if k in ("list", "tupleEllipsis", "callableEllipsis", "dict") or r.random() < 0.4:
        return None
    if k in OPTIONALS and (k == "optList" or r.random() < 0.45):
        return {"k": "none"}
    if k in ("scalar", "optional", "annotated"):
        return scalar_default(r, dt["s"])
    if k in UNIONS:
        return scalar_default(r, r.choice(dt["members"]))
    m = r.choice(dt["members"])
    return {"k": {"s": "str", "i": "int", "b": "bool"}[m["k"]], "v": m["v"]}


def gen_xtyp(r):
    """a type of the widened grammar in one of today's spellings (PEP 604 / 585, dotted typing, forward reference, nested Optional[Union],
    Literal with int/str/bool members)"""
    k = r.choice(["optional", "optional", "optional", "union", "union", "list", "optList", "optUnion", "dict", "tupleEllipsis", "literal", "optLiteral",
                  "annotated", "scalar", "callableEllipsis"])
    if k in ("scalar", "optional", "list", "optList", "tupleEllipsis", "callableEllipsis"):
        dt = {"k": k, "s": r.choice(SCALARS)}
        if k in ("optional", "optList") and r.random() < 0.6:
            dt["s"] = "str"
    elif k in UNIONS:
        ms = r.sample(SCALARS, r.randint(2, 3))
        if "str" not in ms and r.random() < 0.6:
            ms[r.randrange(len(ms))] = "str"
        dt = {"k": k, "members": ms}
    elif k in LITERALS:
        ms = gen_members(r)
        if r.random() < 0.35 and len(ms) > 1:
            ms[r.randrange(len(ms))] = {"k": "b", "v": r.choice([True, False])}
        dt = {"k": k, "members": ms}
    elif k == "annotated":
        dt = {"k": k, "s": r.choice(SCALARS), "note": r.choice(["seconds", "unit: m", "x"])}
    else:
        dt = {"k": "dict"}
    sp = spells_for(k)
    # nested Optional[Union[...]] and bool Literal members are new even in the typing spelling
    if k in ("optUnion", "optList") or (k in LITERALS and any(m["k"] == "b" for m in dt["members"])):
        sp = sp + ["typing"]
    dt["spell"] = r.choice(sp)
    return dt


def gen_xdir(r):
    n = r.randint(1, 4)
    params = []
    for nm in r.sample(NAMES, n):
        dt = gen_xtyp(r) if r.random() < 0.85 else gen_dtyp(r)
        params.append({"name": nm, "typ": dt, "doc": r.choice(DOCS), "default": gen_ddefault(r, dt)})
    ret = None
    if r.random() < 0.3:
        ret = {"typ": gen_xtyp(r), "doc": r.choice([d for d in DOCS if d])}
    return {"name": r.choice(["F", "Config", "train_model"]), "doc": r.choice(["Summary line.", "Do it", ""]), "params": params, "returns": ret}


def gen_dir(r, nparams=None, sparse=None):
    """`sparse` (None | 0.0 | 0.5): a sparsely / un-documented interface — no interface doc, every parameter (and the return entry) has its
    `doc` key with that probability only (what `cdd.class_.parse.class_` returns for an undocumented class)"""
    n = r.randint(0, 5) if nparams is None else nparams
    names = r.sample(NAMES, n)
    params = []
    for nm in names:
        dt = gen_dtyp(r)
        p = {"name": nm, "typ": dt, "doc": r.choice(DOCS), "default": gen_ddefault(r, dt)}
        if sparse is not None and not (r.random() < sparse):
            p.update(doc="", nodoc=True)  # no `doc` key in the IR handed to the emitters
        params.append(p)
    ret = None
    if r.random() < (0.4 if sparse is None else 0.5):
        ret = {"typ": gen_dtyp(r), "doc": r.choice([d for d in DOCS if d])}
        if sparse is not None and not (r.random() < sparse):
            ret.update(doc="", nodoc=True)
    doc = r.choice(["Summary line.", "Summary line.\n\nLonger description here.", "Do it"]) if sparse is None else ""
    return {"name": r.choice(["F", "Config", "train_model"]), "doc": doc, "params": params, "returns": ret}


def render_litm(m):
    return repr(m["v"])


SCALARLIKE = ("scalar", "optional", "list", "annotated", "optList")  # the command-line reading is one scalar conversion
UNIONS = ("union", "optUnion")
LITERALS = ("literal", "optLiteral")
OPTIONALS = ("optional", "optLiteral", "optList", "optUnion")
NO_CLI = ("tupleEllipsis", "callableEllipsis", "dict")
LEAN_KINDS = ("scalar", "optional", "union", "list", "literal", "optLiteral", "annotated", "tupleEllipsis", "callableEllipsis")
SPELLS = ("typing", "pep604", "pep585", "dotted-typing", "dotted-t", "fwdref")


def spells_for(k):
    """the spellings in which a type of kind `k` can be written differently from the `typing` one"""
    out = ["fwdref"]
    if k in ("optional", "union", "optLiteral", "optList", "optUnion"):
        out.append("pep604")
    if k in ("list", "tupleEllipsis", "dict", "optList"):
        out.append("pep585")
    if k != "scalar":
        out += ["dotted-typing", "dotted-t"]
    return out


def render_typ(dt, spell=None):
    """the type string as people write it: `typing` names (the theorems' domain), PEP 604 `X | None`, PEP 585 `list[int]`,
    dotted `typing.Optional[...]` / `t.Optional[...]`, or a string (forward-reference) annotation"""
    spell = dt.get("spell", "typing") if spell is None else spell
    if spell == "fwdref":
        return repr(render_typ(dt, "typing"))
    k = dt["k"]
    pre = {"dotted-typing": "typing.", "dotted-t": "t."}.get(spell, "")
    lit = lambda: "%sLiteral[%s]" % (pre, ", ".join(map(render_litm, dt["members"])))  # noqa: E731
    lst = lambda: ("list[%s]" if spell in ("pep585", "pep604") else pre + "List[%s]") % dt["s"]  # noqa: E731
    if k == "scalar":
        return dt["s"]
    if k == "optional":
        return "%s | None" % dt["s"] if spell == "pep604" else "%sOptional[%s]" % (pre, dt["s"])
    if k == "union":
        return " | ".join(dt["members"]) if spell == "pep604" else "%sUnion[%s]" % (pre, ", ".join(dt["members"]))
    if k == "list":
        return lst()
    if k == "literal":
        return lit()
    if k == "optLiteral":
        return "%s | None" % lit() if spell == "pep604" else "%sOptional[%s]" % (pre, lit())
    if k == "annotated":
        return "%sAnnotated[%s, %r]" % (pre, dt["s"], dt["note"])
    if k == "tupleEllipsis":
        return ("tuple[%s, ...]" if spell == "pep585" else pre + "Tuple[%s, ...]") % dt["s"]
    if k == "callableEllipsis":
        return "%sCallable[..., %s]" % (pre, dt["s"])
    if k == "optList":
        return "%s | None" % lst() if spell == "pep604" else "%sOptional[%s]" % (pre, lst())
    if k == "optUnion":
        return " | ".join(dt["members"] + ["None"]) if spell == "pep604" else "%sOptional[%sUnion[%s]]" % (pre, pre, ", ".join(dt["members"]))
    if k == "dict":
        return "dict[str, int]" if spell == "pep585" else pre + "Dict[str, int]"
    raise ValueError(k)


def typ_class(dt):
    k = dt["k"]
    if k in LITERALS:
        ms = dt["members"]
        pre = "literal"  # Optional[Literal[…]] shares the class (the signature carries `optional` separately where it matters)
        if len(ms) == 1:
            return pre + "-single"
        if all(m["k"] == "s" for m in ms):
            return pre + "-str"
        return pre + "-nonstr"
    if k in ("scalar", "optional", "list", "annotated"):
        return "%s-%s" % (k, dt["s"])
    if k == "optList":
        return "optlist-%s" % dt["s"]
    return {"union": "union", "optUnion": "optunion", "tupleEllipsis": "tuple", "callableEllipsis": "callable", "dict": "dict"}[k]


def sig_spell(dt):
    """the spelling as it appears in failure signatures (`typing.` and `t.` prefixes are one region)"""
    sp = dt.get("spell", "typing")
    return "dotted" if sp.startswith("dotted") else sp


def lean_describable(d):
    """the description is inside EmitIface.DIR as written (typing spellings, kinds of DTyp, no bool Literal member)"""
    ts = [p["typ"] for p in d["params"]] + ([d["returns"]["typ"]] if d["returns"] else [])
    return all(t.get("spell", "typing") == "typing" and t["k"] in LEAN_KINDS and not any(m["k"] == "b" for m in t.get("members", []) if isinstance(m, dict))
               for t in ts)


def dd_py(dd):
    if dd["k"] == "none":
        return NoneStr
    if dd["k"] == "float":
        return float(dd["v"])
    return dd["v"]


def dir_to_ir(d):
    """the cdd IR (JSON-safe: params as a list of pairs)"""
    ps = []
    for p in d["params"]:
        q = {"typ": render_typ(p["typ"])}
        if not p.get("nodoc"):
            q["doc"] = p["doc"]
        if p["default"] is not None:
            q["default"] = dd_py(p["default"])
        ps.append([p["name"], q])
    ret = None
    if d["returns"] is not None:
        ret = {"typ": render_typ(d["returns"]["typ"])}
        if not d["returns"].get("nodoc"):
            ret["doc"] = d["returns"]["doc"]
    return {"name": d["name"], "doc": d["doc"], "type": "static", "params": ps, "returns": ret}


def build_ir(irj):
    return {"name": irj["name"], "doc": irj["doc"], "type": irj["type"],
            "params": OrderedDict((n, dict(p)) for n, p in irj["params"]),
            "returns": None if irj["returns"] is None else OrderedDict((("return_type", dict(irj["returns"])),))}


# ----------------------------------------------------------------------------------------------
# Python values / AST → the driver's JSON
# ----------------------------------------------------------------------------------------------
def const_json(v):
    if v is None:
        return {"k": "none"}
    if v is Ellipsis:
        return {"k": "ellipsis"}
    if isinstance(v, bool):
        return {"k": "bool", "v": v}
    if isinstance(v, int):
        return {"k": "int", "v": v}
    if isinstance(v, float):
        return {"k": "float", "v": repr(v)}
    if isinstance(v, str):
        return {"k": "str", "v": v}
    if isinstance(v, (list, tuple)):
        return {"k": "list", "items": [const_json(x) for x in v]}
    return {"k": "other", "repr": repr(v)[:200]}


def texpr(node):
    if isinstance(node, ast.Name):
        return {"k": "name", "id": node.id}
    if isinstance(node, ast.Constant):
        return {"k": "const", "c": const_json(node.value)}
    if isinstance(node, ast.Subscript):
        return {"k": "sub", "value": texpr(node.value), "slice": texpr(node.slice)}
    if isinstance(node, ast.Tuple):
        return {"k": "tuple", "elts": [texpr(e) for e in node.elts]}
    if isinstance(node, ast.Attribute):
        return {"k": "attr", "value": texpr(node.value), "attr": node.attr}
    if isinstance(node, ast.List):
        return {"k": "list", "elts": [texpr(e) for e in node.elts]}
    if isinstance(node, ast.BinOp) and isinstance(node.op, ast.BitOr):
        return {"k": "binop", "left": texpr(node.left), "right": texpr(node.right)}
    return {"k": "other", "src": ast.unparse(node)}


def typ_json(typ):
    return None if typ is None else texpr(ast.parse(typ).body[0].value)


def code_eval(src):
    """What `_infer_type_and_default_from_quoted` gets from CPython for the code shapes the generator produces."""
    try:
        v = ast.literal_eval(src)
    except (ValueError, SyntaxError):
        return {"k": "opaque", "unparsed": ast.unparse(ast.parse(src).body[0].value)}
    if isinstance(v, (list, tuple)):
        if len(v) == 0:
            return {"k": "emptySeq"}
        if len(v) == 1:
            return {"k": "single", "c": const_json(v[0])}
        return {"k": "multi", "json": json.dumps(v)}
    return {"k": "scalar", "c": const_json(v)}


def code_quoted(s):
    return isinstance(s, str) and len(s) > 6 and s.startswith("```") and s.endswith("```")


def default_json(v):
    if isinstance(v, str):
        if v == NoneStr:
            return {"k": "nonestr"}
        if code_quoted(v):
            return {"k": "code", "src": v[3:-3], "ev": code_eval(v[3:-3])}
        return {"k": "str", "v": v}
    return const_json(v)


def ir_json(irj):
    def pj(name, p):
        return {"name": name, "typ": typ_json(p.get("typ")), "doc": p.get("doc", ""), "default": default_json(p["default"]) if "default" in p else None}

    return {"name": irj["name"], "doc": irj["doc"], "params": [pj(n, p) for n, p in irj["params"]],
            "returns": None if irj["returns"] is None else pj("return_type", irj["returns"])}


def val_json(node):
    if node is None:
        return None
    if isinstance(node, ast.Constant):
        return {"k": "const", "c": const_json(node.value)}
    return {"k": "expr", "src": ast.unparse(node)}


def nows(s):
    return None if s is None else "".join(s.split())


# ----------------------------------------------------------------------------------------------
# the worker: real emitter → source → compile/exec in a scratch namespace → observations
# ----------------------------------------------------------------------------------------------
def _arg_rec(a):
    return {"name": a.arg, "ann": None if a.annotation is None else texpr(a.annotation)}


def _ast_records(emitter, node):
    if emitter in ("class", "pydantic"):
        body = []
        for k, s in enumerate(node.body):
            if k == 0 and isinstance(s, ast.Expr) and isinstance(s.value, ast.Constant) and isinstance(s.value.value, str):
                continue
            if isinstance(s, ast.AnnAssign):
                body.append({"k": "annassign", "name": s.target.id, "ann": texpr(s.annotation), "value": val_json(s.value)})
            elif isinstance(s, ast.Assign):
                body.append({"k": "assign", "name": s.targets[0].id, "value": val_json(s.value)})
            elif isinstance(s, ast.Expr) and isinstance(s.value, ast.Constant) and s.value.value is Ellipsis:
                continue
            else:
                body.append({"k": "other", "src": ast.unparse(s)[:200]})
        return {"name": node.name, "bases": [ast.unparse(b) for b in node.bases], "body": body}
    if emitter == "function":
        a = node.args
        return {"name": node.name, "args": [_arg_rec(x) for x in a.args], "defaults": [val_json(x) for x in a.defaults],
                "kwonly": [_arg_rec(x) for x in a.kwonlyargs], "kwDefaults": [val_json(x) for x in a.kw_defaults],
                "kwarg": None if a.kwarg is None else a.kwarg.arg, "returns": None if node.returns is None else texpr(node.returns),
                "posonly": len(a.posonlyargs), "vararg": None if a.vararg is None else a.vararg.arg}
    adds = []
    for s in node.body:
        if isinstance(s, ast.Expr) and isinstance(s.value, ast.Call) and isinstance(s.value.func, ast.Attribute) and s.value.func.attr == "add_argument":
            c = s.value
            kw = {k.arg: k.value for k in c.keywords}
            rec = {"flag": c.args[0].value if len(c.args) == 1 and isinstance(c.args[0], ast.Constant) else ast.unparse(c),
                   "type": None if "type" not in kw else ast.unparse(kw["type"]),
                   "choices": None if "choices" not in kw else ([const_json(e.value) if isinstance(e, ast.Constant) else {"k": "other", "repr": ast.unparse(e)} for e in kw["choices"].elts] if isinstance(kw["choices"], ast.Tuple) else [{"k": "other", "repr": ast.unparse(kw["choices"])}]),
                   "action": None if "action" not in kw else (kw["action"].value if isinstance(kw["action"], ast.Constant) else ast.unparse(kw["action"])),
                   "help": None if "help" not in kw else (kw["help"].value if isinstance(kw["help"], ast.Constant) else ast.unparse(kw["help"])),
                   "required": ("required" in kw and isinstance(kw["required"], ast.Constant) and kw["required"].value is True),
                   "default": None if "default" not in kw else (const_json(kw["default"].value) if isinstance(kw["default"], ast.Constant) else {"k": "other", "repr": ast.unparse(kw["default"])}),
                   "extra": sorted(set(kw) - {"type", "choices", "action", "help", "required", "default"})}
            adds.append(rec)
    return {"name": node.name, "adds": adds}


def _scratch_ns():
    import typing

    ns = {k: getattr(typing, k) for k in typing.__all__}
    ns["typing"] = ns["t"] = typing  # dotted spellings `typing.Optional[...]` / `t.Optional[...]`
    ns["BaseModel"] = type("BaseModel", (), {})  # pydantic-shaped classes only need a base to inherit from
    ns["__name__"] = "emitted"
    return ns


class _Exit(Exception):
    pass


def _emit(emitter, ir, cfg):
    import cdd.class_.parse  # noqa: F401  (import order, see verif-env notes)
    import cdd.argparse_function.emit
    import cdd.class_.emit
    import cdd.function.emit
    import cdd.pydantic.emit

    if emitter == "class":
        return cdd.class_.emit.class_(ir, docstring_format=cfg["style"], word_wrap=cfg["word_wrap"], emit_default_doc=cfg["emit_default_doc"])
    if emitter == "pydantic":
        return cdd.pydantic.emit.pydantic(ir, docstring_format=cfg["style"], word_wrap=cfg["word_wrap"], emit_default_doc=cfg["emit_default_doc"])
    if emitter == "function":
        return cdd.function.emit.function(ir, function_name=None, function_type=cfg["function_type"], docstring_format=cfg["style"],
                                          word_wrap=cfg["word_wrap"], emit_default_doc=cfg["emit_default_doc"],
                                          type_annotations=cfg["type_annotations"], emit_as_kwonlyargs=cfg["kw_only"])
    return cdd.argparse_function.emit.argparse_function(ir, docstring_format=cfg["style"], word_wrap=cfg["word_wrap"],
                                                        emit_default_doc=cfg["emit_default_doc"], wrap_description=cfg["wrap_description"])


def _dump_no_doc(tree):
    """ast.dump with docstrings blanked (black re-indents docstrings; they are not part of the interface)"""
    for n in ast.walk(tree):
        if isinstance(n, (ast.Module, ast.ClassDef, ast.FunctionDef)) and n.body and isinstance(n.body[0], ast.Expr) \
                and isinstance(n.body[0].value, ast.Constant) and isinstance(n.body[0].value.value, str):
            n.body[0].value.value = ""
    return ast.dump(tree)


def run_case(case):
    """Runs in a forked child (core.guarded_map). Returns JSON-safe observations."""
    import argparse
    import inspect

    from cdd.shared.source_transformer import to_code

    emitter, cfg = case["emitter"], case["cfg"]
    obs = {"emit": "ok"}
    ir = build_ir(copy.deepcopy(case["ir"]))
    try:
        node = _emit(emitter, ir, cfg)
    except Exception as e:  # noqa
        obs["emit"] = core.exc_name(e)
        obs["emit_msg"] = str(e)[:200]
        return obs
    try:
        obs["ast"] = _ast_records(emitter, node)
    except Exception as e:  # noqa
        obs["ast_error"] = "%s: %s" % (type(e).__name__, str(e)[:200])
    mod = ast.Module(body=[node], type_ignores=[])
    try:
        src = to_code(mod)
    except Exception as e:  # noqa
        obs["to_code"] = core.exc_name(e)
        return obs
    obs["src"] = src
    # unparse → re-parse gives an equal AST (modulo positions)
    try:
        d0, d1 = ast.dump(mod), ast.dump(ast.parse(src))
        obs["reparse_equal"] = d0 == d1
        if d0 != d1:
            i = next((k for k in range(min(len(d0), len(d1))) if d0[k] != d1[k]), min(len(d0), len(d1)))
            obs["reparse_diff"] = [d0[max(0, i - 60):i + 60], d1[max(0, i - 60):i + 60]]
            obs["reparse_text_fixpoint"] = ast.unparse(ast.parse(src)) == src
    except SyntaxError as e:
        obs["reparse_equal"] = False
        obs["reparse_diff"] = ["SyntaxError", str(e)[:200]]
    if case.get("via_file"):
        # the same node through cdd.shared.emit.file.file (black included): the written text must be the same program
        import os
        import tempfile

        import cdd.shared.emit.file

        try:
            with tempfile.TemporaryDirectory() as td:
                fn = os.path.join(td, "emitted.py")
                cdd.shared.emit.file.file(node, fn, mode="wt")
                with open(fn) as fh:
                    text = fh.read()
            obs["file_same_ast"] = _dump_no_doc(ast.parse(text)) == _dump_no_doc(ast.parse(src))
            if not obs["file_same_ast"]:
                obs["file_text"] = text[:600]
        except Exception as e:  # noqa
            obs["file_same_ast"] = core.exc_name(e)
    ns = _scratch_ns()
    try:
        code = compile(src, "<emitted>", "exec", dont_inherit=True)  # no __future__ flags of this module
    except Exception as e:  # noqa
        obs["compile"] = core.exc_name(e)
        return obs
    try:
        exec(code, ns)  # the emitted source, nothing else
    except Exception as e:  # noqa
        obs["exec"] = core.exc_name(e)
        obs["exec_msg"] = str(e)[:200]
        return obs

    def same_obj(a, src_text):
        try:
            return bool(a == eval(compile(ast.parse(src_text, mode="eval"), "<type>", "eval", dont_inherit=True), dict(ns)))
        except Exception as e:  # noqa
            return core.exc_name(e)

    try:
        if emitter in ("class", "pydantic"):
            cls = ns.get(node.name)
            ann = dict(getattr(cls, "__annotations__", {}))
            obs["annotations"] = [[k, repr(v)] for k, v in ann.items()]
            # annotation object = eval of the emitted annotation expression (semantics), = eval of the described type string (oracle)
            described = {n: p.get("typ") for n, p in case["ir"]["params"]}
            if case["ir"]["returns"] is not None:
                described["return_type"] = case["ir"]["returns"].get("typ")
            obs["ann_is_described"] = {k: (same_obj(v, described[k]) if described.get(k) else None) for k, v in ann.items()}
            obs["values"] = [[k, const_json(v)] for k, v in vars(cls).items() if not (k.startswith("__") and k.endswith("__"))]
            obs["bases"] = [b.__name__ for b in cls.__bases__]
        elif emitter == "function":
            fn = ns.get(node.name)
            sig = inspect.signature(fn)
            kinds = {inspect.Parameter.POSITIONAL_OR_KEYWORD: "positional", inspect.Parameter.KEYWORD_ONLY: "kwonly",
                     inspect.Parameter.VAR_KEYWORD: "varkw", inspect.Parameter.VAR_POSITIONAL: "varpos", inspect.Parameter.POSITIONAL_ONLY: "posonly"}
            described = {n: p.get("typ") for n, p in case["ir"]["params"]}
            ps = []
            for p in sig.parameters.values():
                ps.append({"name": p.name, "kind": kinds[p.kind],
                           "default": None if p.default is inspect.Parameter.empty else const_json(p.default),
                           "has_ann": p.annotation is not inspect.Parameter.empty,
                           "ann_is_described": (same_obj(p.annotation, described[p.name]) if p.annotation is not inspect.Parameter.empty and described.get(p.name) else None)})
            obs["sig"] = ps
            obs["has_return_ann"] = sig.return_annotation is not inspect.Signature.empty
            if obs["has_return_ann"] and case["ir"]["returns"] is not None and case["ir"]["returns"].get("typ"):
                obs["return_is_described"] = same_obj(sig.return_annotation, case["ir"]["returns"]["typ"])
        else:
            class P(argparse.ArgumentParser):
                def error(self, message):
                    raise _Exit(message)

            parser = P(prog="emitted", add_help=False)
            try:
                ns[node.name](parser)
            except Exception as e:  # noqa
                obs["populate"] = core.exc_name(e)
                obs["populate_msg"] = str(e)[:200]
                return obs
            obs["description"] = parser.description
            acts = []
            for a in parser._actions:
                acts.append({"dest": a.dest, "flags": list(a.option_strings), "type": None if a.type is None else getattr(a.type, "__name__", repr(a.type)),
                             "choices": None if a.choices is None else [const_json(c) for c in a.choices], "default": const_json(a.default),
                             "required": bool(a.required), "help": a.help, "cls": type(a).__name__, "nargs": a.nargs})
            obs["actions"] = acts
            parses = []
            for argv in case["argvs"]:
                flat = ["%s=%s" % (f, t) for f, t in argv]
                try:
                    nsp = parser.parse_args(flat)
                    parses.append({"ok": [[k, const_json(v)] for k, v in vars(nsp).items()]})
                except _Exit as e:
                    parses.append({"error": "exit", "msg": str(e)[:200]})
                except Exception as e:  # noqa
                    parses.append({"error": core.exc_name(e), "msg": str(e)[:200]})
            obs["parses"] = parses
            probes = []
            for idx, text in case["probes"]:
                if idx >= len(parser._actions):
                    probes.append(None)
                    continue
                a = parser._actions[idx]
                try:
                    v = parser._get_value(a, text)
                    parser._check_value(a, v)
                    probes.append({"ok": const_json(v)})
                except argparse.ArgumentError as e:
                    probes.append({"error": "rejected", "msg": str(e)[:120]})
                except Exception as e:  # noqa
                    probes.append({"error": core.exc_name(e)})
            obs["probes"] = probes
    except Exception as e:  # noqa  (observing the executed program failed: a property failure, not a harness error)
        obs["observe"] = core.exc_name(e)
        obs["observe_msg"] = str(e)[:200]
    return obs


# ----------------------------------------------------------------------------------------------
# command-line strings used to probe the actions
# ----------------------------------------------------------------------------------------------
SC_TEXTS = {"int": ["7", "-3", "0"], "float": ["0.5", "-2.5", "3"], "bool": ["True", "False", ""], "str": ["foo", "bar baz", "5"]}
ILLEGAL = ["abc", "2.5", "zzz", "99"]


def probe_texts(dt):
    k = dt["k"]
    if k in NO_CLI:
        return []
    if k in SCALARLIKE:
        out = list(SC_TEXTS[dt["s"]])
    elif k in UNIONS:
        out = [t for s in dt["members"] for t in SC_TEXTS[s]]
    else:
        out = [str(m["v"]) for m in dt["members"]]
    return list(dict.fromkeys(out + ILLEGAL))


def legal_argv(r, d, legal_of):
    """one `--name value` per parameter with a legal value (None when some parameter has no command-line value)"""
    argv = []
    for k, p in enumerate(d["params"]):
        ts = legal_of.get(k) or []
        if not ts:
            return None
        argv.append(["--" + p["name"], r.choice(ts)])
    return argv


# ----------------------------------------------------------------------------------------------
# comparing
# ----------------------------------------------------------------------------------------------
def canon_val(v):
    """model Val / real value → comparable"""
    if v is None:
        return None
    if v["k"] == "const":
        return ("c", json.dumps(v["c"], sort_keys=True))
    return ("e", nows(v["src"]))


def canon_add(a):
    return {"flag": a["flag"], "type": a["type"], "choices": None if a["choices"] is None else [json.dumps(c, sort_keys=True) for c in a["choices"]],
            "action": a["action"], "help": nows(a["help"]), "required": a["required"],
            "default": None if a["default"] is None else json.dumps(a["default"], sort_keys=True)}


def cmp_ast(emitter, real, model):
    """correspondence 1: emitted AST records vs model records; returns a description of the first difference or None"""
    if emitter in ("class", "pydantic"):
        rb = [(s["k"], s.get("name"), json.dumps(s.get("ann"), sort_keys=True), canon_val(s.get("value"))) for s in real["body"]]
        mb = [(s["k"], s.get("name"), json.dumps(s.get("ann"), sort_keys=True), canon_val(s.get("value"))) for s in model["body"]]
        if real["name"] != model["name"] or real["bases"] != model["bases"] or rb != mb:
            return {"real": [real["name"], real["bases"], rb], "model": [model["name"], model["bases"], mb]}
        return None
    if emitter == "function":
        def f(x):
            return [x["name"], [(a["name"], json.dumps(a["ann"], sort_keys=True)) for a in x["args"]], [canon_val(v) for v in x["defaults"]],
                    [(a["name"], json.dumps(a["ann"], sort_keys=True)) for a in x["kwonly"]], [canon_val(v) for v in x["kwDefaults"]],
                    x["kwarg"], json.dumps(x["returns"], sort_keys=True)]
        if real.get("posonly") or real.get("vararg") or f(real) != f(model):
            return {"real": f(real), "model": f(model)}
        return None
    ra, ma = [canon_add(a) for a in real["adds"]], [canon_add(a) for a in model["adds"]]
    if ra != ma or any(a["extra"] for a in real["adds"]):
        return {"real": ra, "model": ma}
    return None


def rval(v):
    """typed JSON of a run-time value → comparable with the model's RVal"""
    if v["k"] == "list":
        return {"many": v["items"]}
    return {"one": v}


def cmp_sem(emitter, obs, model):
    """correspondence 2: run-time observations vs the semantics applied to the model records"""
    if emitter in ("class", "pydantic"):
        sem = model["sem"]
        if [k for k, _ in obs["annotations"]] != [k for k, _ in sem["annotations"]]:
            return {"what": "annotation names", "real": [k for k, _ in obs["annotations"]], "model": [k for k, _ in sem["annotations"]]}
        rv = [(k, json.dumps(v, sort_keys=True)) for k, v in obs["values"]]
        mv = [(k, json.dumps(v["c"], sort_keys=True) if v["k"] == "const" else None) for k, v in sem["values"]]
        # a non-constant expression (`{}`, `[1, 2]`, `foo`) is compared at the AST level only: here just the binding's presence
        rv2 = [(k, v if dict(mv).get(k, v) is not None else None) for k, v in rv]
        if rv2 != mv:
            return {"what": "class attributes", "real": rv, "model": mv}
        return None
    if emitter == "function":
        ms = model["sig"]
        if "error" in ms:
            return {"what": "signature", "real": "compiled", "model": ms}
        mp = [(p["name"], p["kind"], p["ann"] is not None, None if p["default"] is None else canon_val(p["default"])) for p in ms["ok"]["params"]]
        rp = [(p["name"], p["kind"], p["has_ann"], None if p["default"] is None else ("c", json.dumps(p["default"], sort_keys=True))) for p in obs["sig"]]
        if mp != rp or (ms["ok"]["returns"] is not None) != obs["has_return_ann"]:
            return {"what": "signature", "real": rp, "model": mp}
        return None
    ma = model.get("actions")
    if ma is None or "error" in ma:
        return {"what": "actions", "real": "populated", "model": ma}
    conv = {None: "str", "str": "str", "int": "int", "float": "float", "bool": "bool"}
    ra = [{"dest": a["dest"], "conv": conv.get(a["type"], a["type"]), "choices": a["choices"], "default": None if a["default"] == {"k": "none"} else a["default"],
           "required": a["required"], "help": nows(a["help"]), "append": a["cls"] == "_AppendAction"} for a in obs["actions"]]
    mm = [dict(a, help=nows(a["help"])) for a in ma["ok"]]
    if json.dumps(ra, sort_keys=True) != json.dumps(mm, sort_keys=True):
        return {"what": "actions", "real": ra, "model": mm}
    for k, (rp, mp) in enumerate(zip(obs["parses"], model["parses"])):
        if "error" in rp or "error" in mp:
            if ("error" in rp) != ("error" in mp) or (rp.get("error") != "exit") != (not mp["error"].startswith("exit")):
                return {"what": "parse_args #%d" % k, "real": rp, "model": mp}
            continue
        r1 = sorted((d, json.dumps(rval(v), sort_keys=True)) for d, v in rp["ok"])
        m1 = sorted((d, json.dumps(v, sort_keys=True)) for d, v in mp["ok"])
        if r1 != m1:
            return {"what": "parse_args #%d" % k, "real": r1, "model": m1}
    for k, (rp, mp) in enumerate(zip(obs["probes"], model["accepts"])):
        if rp is None or mp is None:
            continue
        if ("ok" in rp) != bool(mp):
            return {"what": "accepts probe #%d" % k, "real": rp, "model": mp}
    return None


# ----------------------------------------------------------------------------------------------
# the property's oracle: observations vs the described interface
# ----------------------------------------------------------------------------------------------
def _quote_wrapped(s):
    return isinstance(s, str) and len(s) > 2 and s[0] == s[-1] and s[0] in "'\""


def default_kind(described, observed):
    """classify a default mismatch narrowly; described/observed are typed const JSON or None (= no default)"""
    if described is None and observed == {"k": "none"}:
        return "absent-becomes-None"
    if described is None:
        return "undescribed-value"
    if observed is None:
        return "missing"
    if described["k"] == "str" and _quote_wrapped(described["v"]) and observed == {"k": "str", "v": described["v"][1:-1]}:
        return "quote-wrapped-str-stripped"
    if described == {"k": "str", "v": "None"} and observed == {"k": "none"}:
        return "str-None-becomes-None"
    return "differs"


def oracle(chk, case, obs, desc, fail):
    """`fail(sig, what)` reports one property failure"""
    emitter, d = case["emitter"], case["dir"]
    base = {"emitter": emitter}
    if obs.get("emit") != "ok":
        return fail(dict(base, field="emit", kind="raises", error=obs["emit"]), "emitter raised %s: %s" % (obs["emit"], obs.get("emit_msg")))
    if "to_code" in obs:
        return fail(dict(base, field="to_code", kind="raises", error=obs["to_code"]), "to_code raised")
    if "compile" in obs:
        return fail(dict(base, field="compile", kind="raises", error=obs["compile"]), "emitted source does not compile")
    if "observe" in obs:
        return fail(dict(base, field="observe", kind="raises", error=obs["observe"]), "inspecting the executed program raised %s: %s" % (obs["observe"], obs.get("observe_msg")))
    if "exec" in obs or "populate" in obs:
        err = obs.get("exec") or obs.get("populate")
        return fail(dict(base, field="exec", kind="raises", error=err), "executing the emitted source raised %s: %s" % (err, obs.get("exec_msg") or obs.get("populate_msg")))
    params = d["params"]
    if "file_same_ast" in obs and obs["file_same_ast"] is not True:
        fail(dict(base, field="file", kind="ast-differs"), "cdd.shared.emit.file.file wrote a different program than to_code: %s / %s" % (obs["file_same_ast"], obs.get("file_text")))
    if emitter in ("class", "pydantic"):
        exp_ann = [k for k, _ in desc["class"]["annotations"]]
        got_ann = [k for k, _ in obs["annotations"]]
        if exp_ann != got_ann:
            fail(dict(base, field="annotations", kind="names"), "annotated names %s, described %s" % (got_ann, exp_ann))
        for k, same in obs["ann_is_described"].items():
            if same is not True:
                dt = next((p["typ"] for p in params if p["name"] == k), (d["returns"] or {}).get("typ"))
                fail(dict(base, field="annotation", kind="object-differs", typ_class=typ_class(dt) if dt else "?", spell=sig_spell(dt) if dt else "?"), "annotation of %s is not the described type (%s)" % (k, same))
        exp_vals = {k: v["c"] for k, v in desc["class"]["values"]}
        got_vals = dict((k, v) for k, v in obs["values"])
        for p in params:
            e, g = exp_vals.get(p["name"]), got_vals.get(p["name"])
            if e != g:
                fail(dict(base, field="default", kind=default_kind(e, g), typ_class=typ_class(p["typ"]), spell=sig_spell(p["typ"])), "class attribute %s: described %s, found %s" % (p["name"], e, g))
        extra = [k for k in got_vals if k not in {p["name"] for p in params}]
        if extra:
            fail(dict(base, field="default", kind="undescribed-value", typ_class="return" if extra == ["return_type"] else "?"), "undescribed class attributes %s" % extra)
        want_base = "object" if emitter == "class" else "BaseModel"
        if obs["bases"] != [want_base]:
            fail(dict(base, field="bases", kind="differs"), "bases %s" % obs["bases"])
        return
    if emitter == "function":
        exp = desc["sig"]["params"]
        got = obs["sig"]
        if [p["name"] for p in exp] != [p["name"] for p in got]:
            return fail(dict(base, field="signature", kind="names"), "parameter names %s, described %s" % ([p["name"] for p in got], [p["name"] for p in exp]))
        by_name = {p["name"]: p for p in params}
        for e, g in zip(exp, got):
            tc = typ_class(by_name[e["name"]]["typ"]) if e["name"] in by_name else "receiver"
            sp = sig_spell(by_name[e["name"]]["typ"]) if e["name"] in by_name else "typing"
            if e["kind"] != g["kind"]:
                fail(dict(base, field="kind", kind="differs"), "%s is %s, described %s" % (e["name"], g["kind"], e["kind"]))
            ed = None if e["default"] is None else e["default"]["c"]
            if ed != g["default"]:
                fail(dict(base, field="default", kind=default_kind(ed, g["default"]), typ_class=tc, spell=sp), "default of %s: described %s, signature shows %s" % (e["name"], ed, g["default"]))
            if (e["ann"] is not None) != g["has_ann"]:
                fail(dict(base, field="annotation", kind="presence"), "annotation presence of %s" % e["name"])
            elif g["has_ann"] and g["ann_is_described"] is not True:
                fail(dict(base, field="annotation", kind="object-differs", typ_class=tc, spell=sp), "annotation of %s is not the described type" % e["name"])
        if (desc["sig"]["returns"] is not None) != obs["has_return_ann"]:
            fail(dict(base, field="return-annotation", kind="presence"), "return annotation presence")
        elif obs["has_return_ann"] and obs.get("return_is_described") is not True:
            fail(dict(base, field="return-annotation", kind="object-differs"), "return annotation is not the described type")
        return
    # argparse
    exp = desc["actions"]
    got = obs["actions"]
    if [a["dest"] for a in exp] != [a["dest"] for a in got] or any(a["flags"] != ["--" + a["dest"]] for a in got):
        return fail(dict(base, field="actions", kind="dests"), "options %s, described %s" % ([a["flags"] for a in got], [a["dest"] for a in exp]))
    if nows(obs.get("description")) != nows(d["doc"]):
        fail(dict(base, field="description", kind="differs"), "parser description %r" % obs.get("description"))
    req_kinds = []
    for k, (e, g, p) in enumerate(zip(exp, got, params)):
        tc = typ_class(p["typ"])
        sp = sig_spell(p["typ"])
        conv = g["type"] or "str"
        gd = None if g["default"] == {"k": "none"} else g["default"]
        if e["default"] != gd:
            fail(dict(base, field="default", kind=default_kind(e["default"], gd), typ_class=tc, spell=sp), "default of --%s: described %s, action has %s" % (p["name"], e["default"], gd))
        if e["required"] != g["required"]:
            if g["required"]:
                kind = "required-despite-default" if p["default"] is not None else "required-though-optional"
            else:
                kind = "not-required-without-default"
            req_kinds.append((kind, conv, sp))
            fail(dict(base, field="required", kind=kind, conv=conv, typ_class=tc, spell=sp), "--%s (%s, default %s): required=%s, described %s" % (p["name"], render_typ(p["typ"]), p["default"], g["required"], e["required"]))
        if e["choices"] != g["choices"]:
            if g["choices"] is None:
                kind = "missing"
            elif e["choices"] is None:
                kind = "unexpected"
            elif any(_quote_wrapped(c.get("v")) for c in e["choices"]) and [dict(c, v=c["v"][1:-1]) if _quote_wrapped(c.get("v")) else c for c in e["choices"]] == g["choices"]:
                kind = "quote-wrapped-str-stripped"
            else:
                kind = "differs"
            fail(dict(base, field="choices", kind=kind, typ_class=tc, spell=sp), "choices of --%s (%s): %s, described %s" % (p["name"], render_typ(p["typ"]), g["choices"], e["choices"]))
        if nows(e["help"]) != nows(g["help"]):
            fail(dict(base, field="help", kind="differs"), "help of --%s: %r, described %r" % (p["name"], g["help"], e["help"]))
        if e["append"] != (g["cls"] == "_AppendAction") or g["cls"] not in ("_StoreAction", "_AppendAction") or g["nargs"] is not None:
            fail(dict(base, field="action", kind="differs", typ_class=tc, spell=sp), "--%s is a %s (nargs=%s)" % (p["name"], g["cls"], g["nargs"]))
        # type conversion: the scalar converter, where the description names one
        want_conv = p["typ"].get("s") if p["typ"]["k"] in SCALARLIKE else None
        if want_conv is not None and conv != want_conv:
            fail(dict(base, field="type", kind="converter-differs", typ_class=tc, spell=sp), "--%s (%s): type=%s" % (p["name"], render_typ(p["typ"]), g["type"]))
    # acceptance of legal / rejection of illegal command-line strings
    for (idx, text), legal, pr in zip(case["probes"], desc["legal"], obs["probes"]):
        p = params[idx]
        tc = typ_class(p["typ"])
        sp = sig_spell(p["typ"])
        has_q = p["typ"]["k"] in LITERALS and any(_quote_wrapped(m["v"]) for m in p["typ"]["members"])
        has_b = p["typ"]["k"] in LITERALS and any(m["k"] == "b" for m in p["typ"]["members"])
        if legal and "ok" not in pr:
            fail(dict(base, field="accepts", kind="legal-value-rejected", typ_class=tc, spell=sp, quote_wrapped_member=has_q, bool_member=has_b),
                 "--%s (%s): legal value %r is rejected (%s)" % (p["name"], render_typ(p["typ"]), text, pr.get("msg") or pr.get("error")))
        elif not legal and "ok" in pr:
            fail(dict(base, field="accepts", kind="illegal-value-accepted", typ_class=tc, spell=sp, quote_wrapped_member=has_q, bool_member=has_b),
                 "--%s (%s): illegal value %r is accepted as %s" % (p["name"], render_typ(p["typ"]), text, pr["ok"]))
        elif legal:
            v = pr["ok"]
            want = {"int": ("int",), "float": ("float",), "bool": ("bool",), "str": ("str",)}
            k = p["typ"]["k"]
            kinds = want[p["typ"]["s"]] if k in SCALARLIKE else (
                tuple(x for s in p["typ"]["members"] for x in want[s]) if k in UNIONS else ("str", "int", "bool"))
            ok = v["k"] in kinds
            if ok and k in SCALARLIKE and p["typ"]["s"] in ("int", "str"):
                ok = str(v["v"]) == text
            if ok and k in LITERALS:
                ok = any(m["v"] == v["v"] and {"s": "str", "i": "int", "b": "bool"}[m["k"]] == v["k"] for m in p["typ"]["members"])
            if not ok:
                fail(dict(base, field="accepts", kind="wrong-typed-value", typ_class=tc, spell=sp, bool_member=has_b), "--%s (%s): %r is converted to %s" % (p["name"], render_typ(p["typ"]), text, v))
    # parse_args([])
    pe, ge = desc["parse_empty"], obs["parses"][0]
    if "error" in ge and ge["error"] != "exit":
        fail(dict(base, field="parse_args_empty", kind="raises", error=ge["error"]), "parse_args([]) raised %s" % ge)
    elif "ok" in pe and "error" in ge:
        ks = [k for k, _, _ in req_kinds if k.startswith("required-")]
        kind = "required-despite-default" if "required-despite-default" in ks else (ks[0] if ks else "exits")
        fail(dict(base, field="parse_args_empty", kind=kind), "parse_args([]) exits (%s) although every parameter has a described fallback" % ge.get("msg"))
    elif "error" in pe and "ok" in ge:
        cs = sorted({c for k, c, _ in req_kinds if k == "not-required-without-default"})
        kind = "not-required-without-default" if cs else "no-exit"
        fail(dict(base, field="parse_args_empty", kind=kind, conv=",".join(cs)), "parse_args([]) succeeds although a parameter without default must be supplied")
    elif "ok" in pe:
        e1 = sorted((k, json.dumps(v, sort_keys=True)) for k, v in pe["ok"])
        g1 = sorted((k, json.dumps(rval(v), sort_keys=True)) for k, v in ge["ok"])
        if e1 != g1:
            ed, gd = {k: v for k, v in pe["ok"]}, {k: rval(v) for k, v in ge["ok"]}
            kinds = {default_kind(ed[k].get("one"), gd.get(k, {}).get("one")) if "one" in ed[k] else "differs" for k in ed if ed[k] != gd.get(k)}
            # one narrowly classified cause (e.g. the quote stripping of set_value) keeps its own kind; anything else is `defaults-differ`
            kind = kinds.pop() if len(kinds) == 1 and set(ed) == set(gd) and kinds <= {"quote-wrapped-str-stripped"} else "defaults-differ"
            fail(dict(base, field="parse_args_empty", kind=kind), "parse_args([]) = %s, described %s" % (g1, e1))
    # parse_args with one legal value per option: must succeed when every probe for those values succeeded
    if len(obs["parses"]) > 1 and case.get("legal_argv_ok"):
        g2 = obs["parses"][1]
        if "error" in g2:
            fail(dict(base, field="parse_args_legal", kind="exits"), "parse_args(%s) fails: %s" % (case["argvs"][1], g2))


# ----------------------------------------------------------------------------------------------
# the out-of-domain stream (correspondence only): every decision of the ported functions
# ----------------------------------------------------------------------------------------------
WIDE_TYPES = ["dict", "list", "Dict[str, int]", "Any", "Optional[List[int]]", "Union[int, List[str]]", "Optional[Union[int, float]]",
              "Union[Literal['a', 'b'], Literal['c', 'd']]", "Tuple[()]", "np.ndarray", "complex", "object", "Literal['a', None]",
              "Tuple[int, str]", "Callable[[int], str]", "Str", "Num", "List[Optional[str]]", "Annotated[str, 'x']", "Literal[True, 'a']"]
WIDE_DEFAULTS = [0, 5, -1, 0.0, 2.5, True, False, "", "foo", "None", "'q'", NoneStr, "```None```", "```5```", "```-2```", "```2.5```", "```True```",
                 "```[]```", "```[1]```", "```[1, 2]```", "```2 ** 3```", "```foo(1)```", "```a * b```"]
BARE_EXPRS = ["[1, 2]", "foo", "(1, 2)", "{'a': 1}", "bar(2)"]


def gen_wide(r):
    n = r.randint(1, 4)
    names = r.sample(NAMES + ["kwargs", "my_kwargs"], n)
    ps = []
    for nm in names:
        p = {"doc": r.choice(DOCS)}
        u = r.random()
        if u < 0.45:
            p["typ"] = r.choice(WIDE_TYPES)
        elif u < 0.92:
            p["typ"] = render_typ(gen_dtyp(r))
        if r.random() < 0.6:
            dflt = r.choice(WIDE_DEFAULTS)
            if "typ" in p and isinstance(dflt, str) and not code_quoted(dflt) and not _needs_quoting(p["typ"]) and p["typ"] not in SCALARS + ("complex",):
                dflt = r.choice(BARE_EXPRS)  # a bare string under a non-str type is parsed as an expression
            if "typ" not in p and not isinstance(dflt, str) and r.random() < 0.7:
                dflt = "foo"  # (typ absent, non-str default) raises TypeError: keep it rare
            p["default"] = dflt
        ps.append([nm, p])
    return {"name": "W", "doc": "Wide summary.", "type": "static", "params": ps,
            "returns": None if r.random() < 0.7 else {"typ": r.choice(["int", "Optional[str]", "List[int]"]), "doc": "the result"}}


def _needs_quoting(typ):
    return any((isinstance(n, ast.Constant) and isinstance(n.value, str)) or (isinstance(n, ast.Name) and n.id == "str") for n in ast.walk(ast.parse(typ)))


# ----------------------------------------------------------------------------------------------
def gen_cfg(r, emitter, style):
    cfg = {"style": style, "word_wrap": r.random() < 0.5, "emit_default_doc": r.random() < 0.5}
    if emitter == "function":
        cfg.update(type_annotations=r.random() < 0.7, kw_only=r.random() < 0.5, function_type=r.choice([None, None, "self", "cls", "static"]))
    if emitter == "argparse":
        cfg.update(wrap_description=r.random() < 0.3)
    return cfg


def model_request(case):
    irj = ir_json(case["ir"])
    e = case["emitter"]
    if e in ("class", "pydantic"):
        return {"op": "c04.class", "ir": irj, "bases": ["object" if e == "class" else "BaseModel"]}
    if e == "function":
        return {"op": "c04.function", "ir": irj, "cfg": func_cfg(case["cfg"])}
    return {"op": "c04.argparse", "ir": irj, "argvs": case["argvs"], "probes": case["probes"]}


def func_cfg(cfg):
    return {"typeAnnotations": cfg.get("type_annotations", True), "kwOnly": cfg.get("kw_only", True), "functionType": cfg.get("function_type")}


def has_other(j):
    return '"k": "other"' in json.dumps(j)


def evaluate(chk, cases, obs_list, models, descs, stats):
    """correspondence + oracle over a batch; returns numbers of disagreements (ast, sem)"""
    n_ast = n_sem = n_desc = 0
    for case, obs, model, desc in zip(cases, obs_list, models, descs):
        emitter = case["emitter"]
        in_dom = case.get("dir") is not None
        if obs is None or obs.get("timeout") or obs.get("skipped") or (obs.get("error") and "emit" not in obs):
            # a hang / crash of the worker itself
            if in_dom and obs and obs.get("timeout"):
                chk.failure({"emitter": emitter, "field": "emit", "kind": "timeout"}, "emitting does not terminate", {"case": case})
            stats["worker_problem"] = stats.get("worker_problem", 0) + 1
            continue
        stats["emit:" + obs.get("emit", "?")] = stats.get("emit:" + obs.get("emit", "?"), 0) + 1
        if "file_same_ast" in obs:
            stats["via_file_checked"] = stats.get("via_file_checked", 0) + 1
        if len(obs.get("parses", [])) > 1:
            stats["parse_args_legal:" + ("ok" if "ok" in obs["parses"][1] else "exit")] = stats.get("parse_args_legal:" + ("ok" if "ok" in obs["parses"][1] else "exit"), 0) + 1
        # ---- unparse → re-parse (observed on every emitted AST) ----
        if "reparse_equal" in obs:
            stats["reparse_checked"] = stats.get("reparse_checked", 0) + 1
            if not obs["reparse_equal"] and not in_dom:
                stats["reparse_differs_outside_domain"] = stats.get("reparse_differs_outside_domain", 0) + 1
            elif not obs["reparse_equal"]:
                neg = "value=-" in obs["reparse_diff"][0] and "UnaryOp(op=USub()" in obs["reparse_diff"][1]
                chk.failure({"emitter": emitter, "field": "reparse", "kind": "negative-constant" if neg else "differs"},
                            "ast.parse(ast.unparse(x)) differs from x near %s" % (obs["reparse_diff"],), {"case": case, "src": obs.get("src")})
        # ---- correspondence 1: emitter decisions ----
        if model is None or "error" in model and model["error"].startswith(("bad-", "unknown-op", "no-op")):
            stats["model_skipped"] = stats.get("model_skipped", 0) + 1
        elif obs.get("emit") != "ok" or "error" in model:
            m_err = model.get("error") if isinstance(model, dict) else None
            if (obs.get("emit") != "ok") != (m_err is not None and m_err.startswith("raises:")) or (m_err and m_err.startswith("raises:") and m_err != obs.get("emit")):
                if not (m_err or "").startswith("unsupported"):
                    n_ast += 1
                    chk.disagreement("C04 correspondence 1: emitter decisions (%s)" % ("class" if emitter == "pydantic" else emitter), case, obs.get("emit"), model)
                else:
                    stats["model_unsupported"] = stats.get("model_unsupported", 0) + 1
        elif "ast" in obs:
            mrec = {"class": model, "pydantic": model, "function": model.get("rec"), "argparse": model}[emitter]
            diff = cmp_ast(emitter, obs["ast"], mrec)
            if diff is not None:
                n_ast += 1
                chk.disagreement("C04 correspondence 1: emitter decisions (%s)" % ("class" if emitter == "pydantic" else emitter), case, diff["real"], diff["model"])
            # ---- correspondence 2: semantics ----
            elif "compile" not in obs and "exec" not in obs and "to_code" not in obs and "observe" not in obs:
                if emitter == "argparse" and ("populate" in obs or "error" in (model.get("actions") or {})):
                    m_err = (model.get("actions") or {}).get("error", "")
                    if m_err.startswith("unsupported"):
                        stats["model_unsupported"] = stats.get("model_unsupported", 0) + 1
                    elif obs.get("populate") != (m_err or None):
                        n_sem += 1
                        chk.disagreement("C04 correspondence 2: semantics (argparse)", case, obs.get("populate"), model.get("actions"))
                else:
                    try:
                        diff = cmp_sem(emitter, obs, model)
                    except Exception as e:  # noqa
                        diff = {"what": "comparison raised %r" % e, "real": None, "model": None}
                    if diff is not None:
                        n_sem += 1
                        chk.disagreement("C04 correspondence 2: semantics (%s)" % ("class" if emitter == "pydantic" else emitter), case, diff, None)
        # ---- the property's oracle ----
        if in_dom and desc is not None:
            if case.get("lean") and not desc.get("wf"):
                stats["not_wf"] = stats.get("not_wf", 0) + 1
            # description ↔ IR: the Lean `toIR` of the description is the IR the real emitter was given
            if case.get("lean") and json.dumps(desc["ir"], sort_keys=True) != json.dumps(_strip_ev(ir_json(case["ir"])), sort_keys=True):
                n_desc += 1
                chk.disagreement("C04 description ↔ IR (DTyp.toExpr = ast.parse of the rendered type)", case, ir_json(case["ir"]), desc["ir"])

            def fail(sig, what, case=case, obs=obs):
                chk.failure(sig, what, {"case": case, "src": obs.get("src")})

            try:
                oracle(chk, case, obs, desc, fail)
            except Exception as e:  # noqa
                raise core.HarnessError("oracle crashed on %s: %r" % (json.dumps(case)[:500], e))
    return n_ast, n_sem, n_desc


def _strip_ev(irj):
    for p in irj["params"] + ([irj["returns"]] if irj["returns"] else []):
        if p["default"] and p["default"]["k"] == "code":
            p["default"].pop("ev", None)
    return irj


def make_domain_cases(r, d, emitters=EMITTERS, styles=STYLES, func_both=False):
    """`func_both`: the function emitter once with and once without type annotations per style"""
    irj = dir_to_ir(d)
    probes = [[k, t] for k, p in enumerate(d["params"]) for t in probe_texts(p["typ"])]
    cases = []
    for e in emitters:
        for st in styles:
            for ta in ((True, False) if (func_both and e == "function") else (None,)):
                cfg = gen_cfg(r, e, st)
                if ta is not None:
                    cfg["type_annotations"] = ta
                cases.append({"emitter": e, "cfg": cfg, "ir": irj, "dir": d, "argvs": [[]], "probes": probes if e == "argparse" else [],
                              "via_file": r.random() < 0.25})
    return cases


# ----------------------------------------------------------------------------------------------
# the described interface, computed in Python (same JSON shape as the driver op `c04.describe`).  On every description inside
# EmitIface.DIR it is compared with the Lean `describe…` (obligation "py_describe = Lean describe"); it is the oracle's expectation for the
# widened spellings / kinds that DTyp does not have (PEP 604 / 585, dotted, forward references, Optional[Union], list | None, dict, bool members)
# ----------------------------------------------------------------------------------------------
import re

_INT_RE, _FLOAT_RE = re.compile(r"-?[0-9]+\Z"), re.compile(r"-?[0-9]+\.[0-9]+\Z")


def dd_const(dd):
    return {"k": "none"} if dd["k"] == "none" else {"k": dd["k"], "v": dd["v"]}


def litm_const(m):
    return {"k": {"s": "str", "i": "int", "b": "bool"}[m["k"]], "v": m["v"]}


def legal_text(dt, text):
    def sc(s):
        return {"int": bool(_INT_RE.match(text)), "float": bool(_INT_RE.match(text) or _FLOAT_RE.match(text)), "bool": True, "str": True}[s]

    k = dt["k"]
    if k in NO_CLI:
        return False
    if k in SCALARLIKE:
        return sc(dt["s"])
    if k in UNIONS:
        return any(sc(x) for x in dt["members"])
    return any((m["k"] == "s" and text == m["v"]) or (m["k"] == "i" and _INT_RE.match(text) and int(text) == m["v"]) or (m["k"] == "b" and text == str(m["v"]))
               for m in dt["members"])


def py_describe(d, cfg, probes):
    fc = func_cfg(cfg)
    ann = lambda dt: typ_json(render_typ(dt))  # noqa: E731
    val = lambda p: None if p["default"] is None else {"k": "const", "c": dd_const(p["default"])}  # noqa: E731
    first = [] if fc["functionType"] in (None, "static") else [{"name": fc["functionType"], "kind": "positional", "ann": None, "default": None}]
    acts = []
    for p in d["params"]:
        k = p["typ"]["k"]
        acts.append({"dest": p["name"], "required": p["default"] is None and k not in OPTIONALS,
                     "default": None if p["default"] is None or p["default"]["k"] == "none" else dd_const(p["default"]),
                     "choices": [litm_const(m) for m in p["typ"]["members"]] if k in LITERALS else None,
                     "help": p["doc"] or None, "cli": k not in NO_CLI, "append": k in ("list", "optList")})
    if any(a["required"] for a in acts):
        pe = {"error": "exit: required"}
    else:
        pe = {"ok": [[a["dest"], {"one": a["default"] or {"k": "none"}}] for a in acts]}
    return {"wf": None,
            "class": {"annotations": [[p["name"], ann(p["typ"])] for p in d["params"]] + ([["return_type", ann(d["returns"]["typ"])]] if d["returns"] else []),
                      "values": [[p["name"], val(p)] for p in d["params"] if p["default"] is not None]},
            "sig": {"params": first + [{"name": p["name"], "kind": "kwonly" if fc["kwOnly"] else "positional",
                                        "ann": ann(p["typ"]) if fc["typeAnnotations"] else None, "default": val(p)} for p in d["params"]],
                    "returns": ann(d["returns"]["typ"]) if (fc["typeAnnotations"] and d["returns"]) else None},
            "actions": acts, "parse_empty": pe, "legal": [legal_text(d["params"][i]["typ"], t) for i, t in probes]}


def describe_diff(py, lean):
    for key in ("class", "sig", "actions", "parse_empty", "legal"):
        if json.dumps(py[key], sort_keys=True) != json.dumps(lean[key], sort_keys=True):
            return {"field": key, "py": py[key], "lean": lean[key]}
    return None


def describe_request(case):
    return {"op": "c04.describe", "ir": case["dir"], "cfg": func_cfg(case["cfg"]), "probes": case["probes"]}


def _worker_problem(o):
    return o is None or o.get("timeout") or o.get("skipped") or (o.get("error") and "emit" not in o)


def guarded_cases(cases, stats):
    """Run the cases in forked workers.  Time must not turn into a verdict under machine load: the first pass has a generous per-item limit
    (an item normally takes milliseconds; the first one of a worker pays the imports of cdd and black), and every item that did not come back
    (timeout, skipped after several timeouts, crashed worker) is run again, few at a time, with a very long limit.  Only an item that still
    does not return then is reported as non-terminating; a worker that cannot produce a result at all is a harness problem (exit 2)."""
    obs = core.guarded_map(run_case, cases, per_item_timeout=120.0, max_timeouts=8)
    bad = [k for k, o in enumerate(obs) if _worker_problem(o)]
    if bad:
        stats["worker_retries"] = stats.get("worker_retries", 0) + len(bad)
        again = core.guarded_map(run_case, [cases[k] for k in bad], per_item_timeout=600.0, nproc=4, max_timeouts=8)
        for k, o in zip(bad, again):
            obs[k] = o
        still = [k for k in bad if _worker_problem(obs[k]) and not (obs[k] or {}).get("timeout")]
        if still:
            raise core.HarnessError("worker produced no result for %d cases even on retry (first: %s → %s)"
                                    % (len(still), json.dumps(cases[still[0]])[:300], obs[still[0]]))
    return obs


def run_batch(chk, cases, stats):
    descs = [None] * len(cases)
    dom = [k for k, c in enumerate(cases) if c.get("dir") is not None]
    lean = [k for k in dom if cases[k].setdefault("lean", lean_describable(cases[k]["dir"]))]
    if lean:
        outs = core.model_batch([describe_request(cases[k]) for k in lean])
        for k, o in zip(lean, outs):
            if "error" in o:
                raise core.HarnessError("c04.describe failed: %s on %s" % (o, json.dumps(cases[k]["dir"])[:300]))
            descs[k] = o
    for k in dom:
        c = cases[k]
        pd = py_describe(c["dir"], c["cfg"], c["probes"])
        if descs[k] is None:
            descs[k] = pd  # outside DTyp: the Python description is the expectation
        else:
            stats["py_describe_checked"] = stats.get("py_describe_checked", 0) + 1
            df = describe_diff(pd, descs[k])
            if df is not None:
                stats["py_describe_differs"] = stats.get("py_describe_differs", 0) + 1
                stats.setdefault("py_describe_first_diff", json.dumps({"dir": c["dir"], "diff": df})[:1500])
        if c["emitter"] == "argparse":
            # second argv: one legal value per option (legality from the spec)
            legal_of = {}
            for (idx, t), lg in zip(c["probes"], descs[k]["legal"]):
                if lg:
                    legal_of.setdefault(idx, []).append(t)
            av = legal_argv(chk.rng, c["dir"], legal_of)
            if av is not None and c["dir"]["params"]:
                c["argvs"] = [[], av]
    obs = guarded_cases(cases, stats)
    for c, o in zip(cases, obs):
        if c.get("dir") is not None and c["emitter"] == "argparse" and len(c["argvs"]) > 1 and o and "probes" in o:
            ok_texts = {(idx, t) for (idx, t), pr in zip(c["probes"], o["probes"]) if pr and "ok" in pr}
            c["legal_argv_ok"] = all((k, t) in ok_texts for k, (_, t) in enumerate(c["argvs"][1]))
    models = core.model_batch([model_request(c) for c in cases])
    return obs, models, descs


def check_classify(chk):
    texts = sorted({t for v in SC_TEXTS.values() for t in v} | set(ILLEGAL) | {str(i) for i in INTS} | {repr(f) for f in FLOATS} | set(MEMBERS) | {"-0", "007", "1.", ".5", "1e3", " 7", "+3", "--2", "3.0.1", "-"})
    canonical = [t for t in texts if t not in ("1.", ".5", "1e3", " 7", "+3", "007", "-0")]  # spellings outside the canonical grammar are not sent by the checks
    outs = core.model_batch([{"op": "c04.argparse", "ir": {"name": "F", "doc": "", "params": [
        {"name": "i", "typ": {"k": "name", "id": "int"}, "doc": "", "default": None},
        {"name": "f", "typ": {"k": "name", "id": "float"}, "doc": "", "default": None}], "returns": None}, "argvs": [], "probes": [[0, t], [1, t]]} for t in canonical])
    bad = []
    for t, o in zip(canonical, outs):
        def ok(fn):
            try:
                fn(t)
                return True
            except ValueError:
                return False
        if o.get("accepts") != [ok(int), ok(float)]:
            bad.append((t, o.get("accepts"), [ok(int), ok(float)]))
    chk.oblige("correspondence: Lean `classify` (int()/float() on canonical spellings) = CPython on %d strings" % len(canonical), "correspondence", not bad, str(bad[:5]))


def run(chk: core.Check) -> int:
    chk.lean(MODULE, THEOREMS)
    chk.trusted_base += [
        "CPython's compiler, ast.parse/ast.unparse, inspect.signature, argparse, typing: not modelled; the denotational semantics of the emitted subset "
        "(EmitIface.classAttrs / signature / actionOf / parseArgs / accepts) is validated against them on every generated program",
        "type strings are modelled by their ast.parse tree (TExpr); `typ in simple_types` / `typ == 'dict'` are structural predicates on it; checked per case "
        "(DTyp.toExpr = ast.parse(rendered type))",
        "command-line strings are classified (int()/float()) for canonical decimal spellings only (`classify`); the probes use only such spellings",
        "docstring emission inside the emitted nodes, `fill` (textwrap) and black are not modelled: help/description text is compared with whitespace removed; "
        "parameter prose is generated without the word 'default' (extract_default belongs to C01)",
        "the sub-claim `ast.parse(ast.unparse(x)) == x` is a statement about CPython's printer/parser pair: observed on every emitted AST, not proved",
        "pydantic-shaped classes are executed against a stub `BaseModel` (pydantic is not installed): only the class-body semantics is checked",
    ]
    chk.assumptions += [
        "reading of `required flag agrees with the description` (the IR has no such field): an option must be supplied iff the parameter has no default "
        "and its type is not Optional[...] (EmitIface.describedRequired)",
        "reading of `type conversion agrees`: every legal command-line spelling of a value of the described type is accepted and converted to a value of "
        "that type, every illegal one is rejected; equality of the value is demanded for int/str only (`bool('False')` is True in CPython: for bool only "
        "the result type is demanded); Tuple[T, ...] and Callable[..., T] have no command-line reading: only choices/default/required/help are checked",
        "a class attribute must be absent when the description has no default; the `return_type` attribute is the class form of the return entry",
        "help/description text is compared with all whitespace removed (textwrap.fill may re-wrap it)",
    ]
    if not core.DRIVER.exists():
        raise core.HarnessError("Lean driver not built")
    core.repo_on_path()
    rng = chk.rng
    stats: dict = {}
    check_classify(chk)
    # ---- domain stream ------------------------------------------------------------------------------------------
    n_dom = 150 if chk.quick else 5000
    cases = []
    tcs: dict = {}
    dks: dict = {}
    for i in range(n_dom):
        d = gen_dir(rng)
        for p in d["params"]:
            tcs[typ_class(p["typ"])] = tcs.get(typ_class(p["typ"]), 0) + 1
            dk = "absent" if p["default"] is None else p["default"]["k"] + (":falsy" if p["default"].get("v") in (0, "0.0", False, "") and p["default"]["k"] != "none" else "")
            dks[dk] = dks.get(dk, 0) + 1
        cases += make_domain_cases(rng, d)
    # hand-picked corner interfaces (the ones named in the property's rationale)
    for d in CORNERS:
        cases += make_domain_cases(rng, d)
    # sparsely / un-documented interfaces: no interface doc; parameter docs present with probability 0 / 0.5; with and without return entry and
    # defaults; every emitter x style, the function emitter with and without type annotations
    n_sparse = 40 if chk.quick else 1200
    n_sparse_cases = 0
    for i in range(n_sparse):
        d = gen_dir(rng, nparams=rng.choice([0, 1, 1, 2, 3, 4]), sparse=0.0 if i % 2 == 0 else 0.5)
        if i % 5 == 0:
            for p in d["params"]:  # an interface with no default at all / all defaults
                p["default"] = None if i % 10 == 0 else (p["default"] or gen_ddefault(rng, p["typ"]))
        cs = make_domain_cases(rng, d, func_both=True)
        n_sparse_cases += len(cs)
        cases += cs
    for d in SPARSE_CORNERS:
        cs = make_domain_cases(rng, d, func_both=True)
        n_sparse_cases += len(cs)
        cases += cs
    stats["sparse_doc_programs"] = n_sparse_cases
    # the spellings people write today: PEP 604 `X | None`, PEP 585 `list[int]`, dotted `typing.Optional[...]` / `t.…`, string (forward-reference)
    # annotations, nested Optional[Union[...]], `list[str] | None`, `dict[str, int]`, Literal with int / str / bool members — with defaults of every kind
    n_modern = 100 if chk.quick else 2500
    n_modern_cases = 0
    spells: dict = {}
    for d in [gen_xdir(rng) for _ in range(n_modern)] + XCORNERS:
        for p in d["params"]:
            key = "%s/%s" % (p["typ"].get("spell", "typing"), p["typ"]["k"])
            spells[key] = spells.get(key, 0) + 1
        cs = make_domain_cases(rng, d)
        n_modern_cases += len(cs)
        cases += cs
    stats["modern_spelling_programs"] = n_modern_cases
    chk.coverage["spellings"] = dict(sorted(spells.items()))
    obs, models, descs = run_batch(chk, cases, stats)
    n_ast, n_sem, n_desc = evaluate(chk, cases, obs, models, descs, stats)
    chk.oblige("the Python description (py_describe: expectation for the widened spellings) = EmitIface.describe… on all %d programs whose description is inside DIR"
               % stats.get("py_describe_checked", 0), "correspondence", stats.get("py_describe_differs", 0) == 0 and stats.get("py_describe_checked", 0) > 0,
               stats.get("py_describe_first_diff", ""))
    for c, o, ds in zip(cases, obs, descs):
        nontrivial = bool(ds and ds.get("wf")) and any(p["default"] is not None for p in c["dir"]["params"])
        chk.count((c["emitter"], json.dumps(c["dir"], sort_keys=True), json.dumps(c["cfg"], sort_keys=True)), nontrivial)
    for c, o in list(zip(cases, obs))[:3]:
        chk.sample({"emitter": c["emitter"], "style": c["cfg"]["style"], "params": [[p["name"], render_typ(p["typ"]), p["default"]] for p in c["dir"]["params"]],
                    "src": (o or {}).get("src", "")[:400]})
    n_cases_dom = len(cases)
    # ---- wide stream (correspondence only) -------------------------------------------------------------------
    n_wide = 250 if chk.quick else 6000
    wcases = []
    for i in range(n_wide):
        irj = gen_wide(rng)
        for e in ("class", "function", "argparse"):
            wcases.append({"emitter": e, "cfg": gen_cfg(rng, e, rng.choice(STYLES)), "ir": irj, "dir": None, "argvs": [[]],
                           "probes": [[k, t] for k in range(len(irj["params"])) for t in ("7", "abc", "a")] if e == "argparse" else []})
    wobs, wmodels, wdescs = run_batch(chk, wcases, stats)
    w_ast, w_sem, _ = evaluate(chk, wcases, wobs, wmodels, wdescs, stats)
    for c in wcases:
        chk.count(("wide", c["emitter"], json.dumps(c["ir"], sort_keys=True)), True)
    chk.oblige("correspondence 1: real emitted AST records = EmitIface.emitClass/emitFunction/emitArgparse on %d domain programs + %d wide programs"
               % (n_cases_dom, len(wcases)), "correspondence", n_ast + w_ast == 0, "%d disagreements" % (n_ast + w_ast))
    chk.oblige("correspondence 2: CPython/inspect/argparse observations = EmitIface.classAttrs/signature/actionOf/parseArgs/accepts on the same programs",
               "correspondence", n_sem + w_sem == 0, "%d disagreements" % (n_sem + w_sem))
    chk.oblige("correspondence 3: DIR.toIR (DTyp.toExpr) = the IR given to the real emitters (ast.parse of the rendered type strings)", "correspondence",
               n_desc == 0, "%d disagreements" % n_desc)
    stale = [it["id"] for it in chk.kf.items if it["seen"] == 0]
    for fid in stale:
        chk.notes.append("STALE finding %s: its witness did not fail in this run" % fid)
        print("STALE-FINDING: property=C04 %s was not observed in this run" % fid)
    chk.coverage["type_classes"] = dict(sorted(tcs.items()))
    chk.coverage["default_kinds"] = dict(sorted(dks.items()))
    chk.coverage["programs_by_stream"] = {"domain": n_cases_dom, "wide": len(wcases)}
    chk.coverage["stats"] = dict(sorted(stats.items()))
    return chk.finish("domain: %d generated interface descriptions (0-5 parameters; scalars, Optional, Union, List, Literal[str...], Literal single / with int members, "
                      "Optional[Literal], Annotated[T, 'note'], Tuple[T, ...], Callable[..., T]; literal defaults incl. 0 / 0.0 / False / '' / None) + %d corner "
                      "interfaces + %d sparsely/un-documented interfaces (no interface doc, parameter docs with probability 0 / 0.5, function with and "
                      "without type annotations) + %d interfaces in today's spellings (PEP 604 / 585, dotted typing, forward references, Optional[Union], "
                      "list | None, dict, Literal with bool members), each x {class, pydantic, function, argparse} x {rest, google, numpydoc} with random flags; non-trivial = well-formed per EmitIface.DIR.WF (the theorems' domain) and has a parameter with a default; "
                      "wide stream: %d IRs outside the domain (dict, nested, absent type, code-quoted defaults, *kwargs names) x 3 emitters, model-vs-code only"
                      % (n_dom, len(CORNERS), n_sparse + len(SPARSE_CORNERS), n_modern + len(XCORNERS), n_wide))


def _p(name, typ, default=None, doc="the thing"):
    return {"name": name, "typ": typ, "doc": doc, "default": default}


CORNERS = [
    {"name": "F", "doc": "Summary.", "returns": None, "params": [
        _p("a", {"k": "optional", "s": "int"}, {"k": "int", "v": 0}), _p("b", {"k": "union", "members": ["int", "float"]}, {"k": "float", "v": "0.0"}),
        _p("c", {"k": "optional", "s": "bool"}, {"k": "bool", "v": False}), _p("d", {"k": "union", "members": ["int", "float"]}, {"k": "int", "v": 0}),
        _p("e", {"k": "optional", "s": "str"}, {"k": "str", "v": ""})]},
    {"name": "F", "doc": "Summary.", "returns": None, "params": [
        _p("a", {"k": "annotated", "s": "int", "note": "seconds"}, {"k": "int", "v": 5}), _p("b", {"k": "tupleEllipsis", "s": "int"}),
        _p("c", {"k": "callableEllipsis", "s": "int"}), _p("d", {"k": "annotated", "s": "int", "note": "seconds"})]},
    {"name": "F", "doc": "Summary.", "returns": {"typ": {"k": "scalar", "s": "int"}, "doc": "the result"}, "params": [
        _p("a", {"k": "literal", "members": [{"k": "s", "v": "np"}, {"k": "s", "v": "tf"}]}, {"k": "str", "v": "np"}),
        _p("b", {"k": "literal", "members": [{"k": "s", "v": "a"}, {"k": "i", "v": 1}]}),
        _p("c", {"k": "literal", "members": [{"k": "s", "v": "only"}]}),
        _p("d", {"k": "optLiteral", "members": [{"k": "s", "v": "x"}, {"k": "s", "v": "y"}]}, {"k": "none"})]},
    {"name": "F", "doc": "Summary.", "returns": None, "params": [
        _p("a", {"k": "optional", "s": "int"}), _p("b", {"k": "optional", "s": "str"}, {"k": "none"}), _p("c", {"k": "list", "s": "int"}),
        _p("d", {"k": "scalar", "s": "bool"}), _p("e", {"k": "scalar", "s": "int"}, {"k": "int", "v": -3})]},
    {"name": "F", "doc": "Summary.", "returns": None, "params": []},
    # witnesses of the findings about quote-wrapped strings and the word None (re-verified on every run)
    {"name": "F", "doc": "Summary.", "returns": None, "params": [
        _p("a", {"k": "scalar", "s": "str"}, {"k": "str", "v": "'q'"}), _p("b", {"k": "scalar", "s": "str"}, {"k": "str", "v": "None"}),
        _p("c", {"k": "literal", "members": [{"k": "s", "v": "'q'"}, {"k": "s", "v": "eps"}]}),
        _p("d", {"k": "optional", "s": "int"}, {"k": "none"})]},
    {"name": "F", "doc": "Summary.", "returns": None, "params": [_p("a", {"k": "optional", "s": "str"}, {"k": "str", "v": "'q'"})]},
    # the witnesses of the Lean negations
    {"name": "F", "doc": "Summary.", "returns": None, "params": [_p("x", {"k": "scalar", "s": "int"}, doc="the x")]},
    {"name": "F", "doc": "Summary.", "returns": None, "params": [_p("x", {"k": "scalar", "s": "int"}, {"k": "int", "v": 5})]},
    {"name": "F", "doc": "Summary.", "returns": None, "params": [_p("x", {"k": "scalar", "s": "bool"})]},
    {"name": "F", "doc": "Summary.", "returns": None, "params": [_p("x", {"k": "union", "members": ["int", "float"]}, {"k": "int", "v": 0})]},
    {"name": "F", "doc": "Summary.", "returns": None, "params": [_p("x", {"k": "literal", "members": [{"k": "s", "v": "only"}]})]},
    {"name": "F", "doc": "Summary.", "returns": None, "params": [_p("x", {"k": "literal", "members": [{"k": "s", "v": "a"}, {"k": "i", "v": 1}]})]},
]


# fully undocumented interfaces (what cdd.class_.parse.class_ gives for an undocumented class): with / without defaults, return entry
SPARSE_CORNERS = [
    {"name": "configure", "doc": "", "returns": None, "params": [
        dict(_p("retries", {"k": "scalar", "s": "int"}, {"k": "int", "v": 3}, doc=""), nodoc=True),
        dict(_p("verbose", {"k": "scalar", "s": "bool"}, {"k": "bool", "v": False}, doc=""), nodoc=True),
        dict(_p("label", {"k": "optional", "s": "str"}, {"k": "none"}, doc=""), nodoc=True)]},
    {"name": "configure", "doc": "", "returns": {"typ": {"k": "scalar", "s": "int"}, "doc": "", "nodoc": True}, "params": [
        dict(_p("retries", {"k": "scalar", "s": "int"}, doc=""), nodoc=True)]},
    {"name": "configure", "doc": "", "returns": None, "params": []},
    {"name": "configure", "doc": "", "returns": {"typ": {"k": "optional", "s": "float"}, "doc": "", "nodoc": True}, "params": []},
]


def _x(k, spell, **kw):
    return dict({"k": k, "spell": spell}, **kw)


# widened spellings, every seed: the two interfaces of the `needs_quoting` regression (a str-containing PEP 604 union with a string default) first
XCORNERS = [
    {"name": "Config", "doc": "Summary.", "returns": None, "params": [
        _p("mode", _x("optional", "pep604", s="str"), {"k": "str", "v": "auto"}),
        _p("label", _x("union", "pep604", members=["int", "str"]), {"k": "str", "v": "first batch"}),
        _p("tags", _x("optList", "pep604", s="str"), {"k": "none"}),
        _p("quoted", _x("optional", "pep604", s="str"), {"k": "str", "v": "it's"}),
        _p("empty", _x("union", "pep604", members=["str", "float"]), {"k": "str", "v": ""})]},
    {"name": "Config", "doc": "", "returns": None, "params": [
        _p("a", _x("optional", "dotted-typing", s="int"), {"k": "int", "v": 0}), _p("b", _x("optional", "dotted-t", s="str"), {"k": "str", "v": "bar baz"}),
        _p("c", _x("scalar", "fwdref", s="int"), {"k": "int", "v": 5}), _p("d", _x("optional", "fwdref", s="str"), {"k": "str", "v": "foo"}),
        _p("e", _x("optUnion", "typing", members=["int", "float"]), {"k": "float", "v": "0.0"})]},
    {"name": "Config", "doc": "Summary.", "returns": {"typ": _x("list", "pep585", s="int"), "doc": "the result"}, "params": [
        _p("a", _x("list", "pep585", s="int")), _p("b", _x("dict", "pep585")), _p("c", _x("tupleEllipsis", "pep585", s="int")),
        _p("d", _x("literal", "typing", members=[{"k": "b", "v": True}, {"k": "s", "v": "a"}, {"k": "i", "v": 1}]), {"k": "str", "v": "a"}),
        _p("e", _x("optUnion", "pep604", members=["str", "int"]), {"k": "none"})]},
    {"name": "Config", "doc": "Summary.", "returns": None, "params": [
        _p("a", _x("optional", "pep604", s="int")), _p("b", _x("optional", "pep604", s="bool"), {"k": "bool", "v": False}),
        _p("c", _x("optLiteral", "pep604", members=[{"k": "s", "v": "x"}, {"k": "s", "v": "y"}]), {"k": "str", "v": "x"}),
        _p("d", _x("annotated", "dotted-typing", s="str", note="x"), {"k": "str", "v": "say \"hi\" twice"})]},
    # witnesses of the findings about spellings the argparse type resolution does not understand (re-verified on every run)
    {"name": "Config", "doc": "Summary.", "returns": None, "params": [_p("a", _x("optional", "pep604", s="int"))]},
    {"name": "Config", "doc": "Summary.", "returns": None, "params": [
        _p("a", _x("optional", "dotted-typing", s="int")), _p("b", _x("list", "dotted-t", s="int")), _p("c", _x("optList", "pep604", s="str"), {"k": "none"}),
        _p("d", _x("literal", "typing", members=[{"k": "s", "v": "beta"}, {"k": "b", "v": True}]), {"k": "bool", "v": True}),
        _p("e", _x("optUnion", "typing", members=["bool", "int"])),
        _p("f", _x("optLiteral", "typing", members=[{"k": "b", "v": False}, {"k": "s", "v": "alpha"}, {"k": "i", "v": 1}]), {"k": "bool", "v": False})]},
    {"name": "Config", "doc": "Summary.", "returns": None, "params": [
        _p("a", _x("scalar", "fwdref", s="int")), _p("b", _x("optional", "fwdref", s="float")), _p("c", _x("list", "fwdref", s="int")),
        _p("d", _x("literal", "fwdref", members=[{"k": "i", "v": 10}, {"k": "i", "v": 7}]))]},
]


def replay(path: str) -> int:
    d = json.loads(Path(path).read_text())
    case = (d.get("replay") or {}).get("case")
    if case is None:
        print("replay: no case in %s" % path)
        return 2
    core.repo_on_path()
    chk = core.Check("C04", "quick", 0)
    stats: dict = {}
    obs, models, descs = run_batch(chk, [case], stats)
    print("emitted source:\n%s" % (obs[0] or {}).get("src"))
    evaluate(chk, [case], obs, models, descs, stats)
    for v in chk.violations:
        print("FAIL", json.dumps(v["sig"]), v["what"])
    for k, v in chk.known_seen.items():
        print("KNOWN", k, v["count"])
    for b in chk.broken:
        print("BROKEN", b["name"], b["detail"][:600])
    return 1 if (chk.violations or chk.broken) else 0
