"""C20 — exmod --dry-run writes nothing; a real run stays inside the output dir (DESIGN.md §4 C20).

* Lean: `CddVerif.Properties.C20` (effect-trace model `Model/Exmod.lean`): dry-run purity, confinement, gating.
* Correspondence: the real `cdd exmod` (through `cdd.__main__.main`) runs in a forked child under `sys.addaudithook` on
  generated package trees in temp dirs; the ordered list of observed `os.mkdir` / `open(…,"a")` / `open(…,"w")` events,
  the lines printed to EXMOD_OUT_STREAM, the exception class and the set of files/directories afterwards must equal the
  model's trace / status / final file system for the same (scanned) tree and configuration.
* Oracle (the property itself, on the real file system): before/after snapshot of the whole temp tree.
"""
from __future__ import annotations

import ast
import concurrent.futures as cf
import json
import os
import random
import shutil
import time
from pathlib import Path

from harness import core
from harness.gen import c20_trees as G
from harness.impl import c20_runner as R

MODULE = "CddVerif.Properties.C20"
THEOREMS = [
    "C20.dry_run_pure", "C20.dry_run_fs_unchanged", "C20.dry_run_no_target",
    "C20.confined_partial", "C20.source_never_target",
    "C20.confined_fails_init_above_output", "C20.confined_fails_source_written", "C20.confined_fails_root_escape",
    "C20.confined_full_false",
    "C20.gated_blacklist", "C20.gated_whitelist", "C20.gated_packages", "C20.gated_run", "C20.modPath_undotted",
    "C20.gated_fqn_fails_undotted",
]


# ----------------------------------------------------------------------------------------------------------------------
# scenarios
# ----------------------------------------------------------------------------------------------------------------------
def gen_scenario(r: random.Random, idx: int, force=None) -> dict:
    """A tree, and a short history of exmod runs in one temp root (each run is checked)."""
    force = force or {}
    tree = G.gen_tree(r, clash=force.get("clash"))
    cfg = G.gen_config(r, tree)
    if force.get("cfg"):
        cfg.update(force["cfg"])
    pre = G.gen_prestate(r, tree, cfg)
    dry = r.random() < 0.5
    runs = []
    if pre["kind"] == "earlier-run":
        runs.append({"cfg": pre["cfg"], "dry": False})
        pre = {"kind": "absent"}
    runs.append({"cfg": cfg, "dry": dry})
    x = r.random()
    if x < 0.15:
        runs.append({"cfg": cfg, "dry": not dry})  # dry after real / real after dry, same configuration
    elif x < 0.22:
        runs.append({"cfg": cfg, "dry": dry})  # the same again (idempotence region of the model's state handling)
    return {"idx": idx, "tree": tree, "pre": pre, "runs": runs}


# ----------------------------------------------------------------------------------------------------------------------
# fixed minimal witnesses of the known findings (replayed on every run; a witness that stops failing is reported as stale)
# ----------------------------------------------------------------------------------------------------------------------
_CLS = 'class %s(object):\n    """\n    %s thing\n\n    :cvar a: the a\n    """\n\n    a: int = 5\n'
_FN = 'def %s(x=3):\n    """\n    %s does it\n\n    :param x: the x\n    :type x: ```int```\n\n    :return: the result\n    :rtype: ```int```\n    """\n    return x\n'


def _tree(top, files, packages, modules, symbols):
    return {"top": top, "files": files, "packages": packages, "modules": modules, "symbols": symbols, "levels": max(p.count(".") for p in packages) + 1}


def _cfg(module, out_rel="out/o1", **kw):
    c = {"module": module, "emit": ["class"], "target": None, "out_rel": out_rel, "blacklist": [], "whitelist": [], "recursive": False, "sqlsub": False}
    c.update(kw)
    return c


def witnesses():
    mypkg = _tree("mypkg", {
        "mypkg/__init__.py": '"""mypkg"""\nfrom mypkg.alpha import Alpha\n\n__all__ = ["Alpha"]\n',
        "mypkg/alpha.py": '"""alpha"""\n\n\n' + _CLS % ("Alpha", "Alpha") + '\n\n__all__ = ["Alpha"]\n',
        "mypkg/sub/__init__.py": '"""sub"""\nfrom mypkg.sub.gamma import Gamma\n\n__all__ = ["Gamma"]\n',
        "mypkg/sub/gamma.py": '"""gamma"""\n\n\n' + _CLS % ("Gamma", "Gamma") + '\n\n__all__ = ["Gamma"]\n',
    }, ["mypkg", "mypkg.sub"], ["mypkg.alpha", "mypkg.sub.gamma"], {"mypkg.alpha": ["Alpha"], "mypkg.sub.gamma": ["Gamma"]})
    conf = _tree("conf", {"conf/__init__.py": '"""conf"""\n\n\n' + _FN % ("conf_from_env", "conf_from_env") + '\n\n__all__ = ["conf_from_env"]\n'},
                 ["conf"], [], {})
    ut = _tree("ut", {
        "ut/__init__.py": '"""ut"""\nfrom utx.h import H\n\n__all__ = ["H"]\n',
        "utx/__init__.py": '"""utx"""\n',
        "utx/h.py": '"""h"""\n\n\n' + _CLS % ("H", "H") + '\n\n__all__ = ["H"]\n',
    }, ["ut"], [], {})
    cafe = _tree("cafe", {
        "cafe/__init__.py": '"""cafe"""\nfrom cafe.alpha import Café\n\n__all__ = ["Café"]\n',
        "cafe/alpha.py": '"""alpha"""\n\n\n' + _CLS % ("Café", "Café") + '\n\n__all__ = ["Café"]\n',
    }, ["cafe"], ["cafe.alpha"], {"cafe.alpha": ["Café"]})
    return [
        ("C20-src-init-overwrite", conf, _cfg("conf")),
        ("C20-init-above-output", mypkg, _cfg("mypkg", out_rel="out/gold")),
        ("C20-blacklist-top-undotted", mypkg, _cfg("mypkg", blacklist=["mypkg"])),
        ("C20-blacklist-subpackage", mypkg, _cfg("mypkg", blacklist=["mypkg.sub"], recursive=True)),
        ("C20-blacklist-module-file", mypkg, _cfg("mypkg", blacklist=["mypkg.alpha"])),
        ("C20-root-escape", ut, _cfg("ut")),
        ("C20-table-name-non-ascii", cafe, _cfg("cafe", emit=["sqlalchemy_table"])),
    ]


def corners():
    """Fixed corner scenarios run on every seed: 2- and 3-level package trees x the three sqlalchemy emit kinds x
    --emit-sqlalchemy-submodule on/off x --recursive on/off x output directory pre-existing or not (real runs; every file
    written, sqlalchemy_mod/* included, goes through the generated-file oracle)."""
    def files(levels):
        f = {
            "exposed/__init__.py": '"""exposed"""\nfrom exposed.alpha import Alpha, alpha_fn\n\n__all__ = ["Alpha", "alpha_fn"]\n',
            "exposed/alpha.py": '"""alpha"""\n\n\n' + _CLS % ("Alpha", "Alpha") + '\n\n' + _FN % ("alpha_fn", "alpha_fn") + '\n\n__all__ = ["Alpha", "alpha_fn"]\n',
            "exposed/models/__init__.py": '"""models"""\nfrom exposed.models.user import User\n\n__all__ = ["User"]\n',
            "exposed/models/user.py": '"""user"""\n\n\n' + _CLS % ("User", "User") + '\n\n__all__ = ["User"]\n',
        }
        if levels == 3:
            f["exposed/models/audit/__init__.py"] = '"""audit"""\nfrom exposed.models.audit.log import Log, log_fn\n\n__all__ = ["Log", "log_fn"]\n'
            f["exposed/models/audit/log.py"] = '"""log"""\n\n\n' + _CLS % ("Log", "Log") + '\n\n' + _FN % ("log_fn", "log_fn") + '\n\n__all__ = ["Log", "log_fn"]\n'
        return f

    res = []
    for levels in (2, 3):
        pk = ["exposed", "exposed.models"] + (["exposed.models.audit"] if levels == 3 else [])
        md = ["exposed.alpha", "exposed.models.user"] + (["exposed.models.audit.log"] if levels == 3 else [])
        sy = {"exposed.alpha": ["Alpha", "alpha_fn"], "exposed.models.user": ["User"]}
        if levels == 3:
            sy["exposed.models.audit.log"] = ["Log", "log_fn"]
        tree = _tree("exposed", files(levels), pk, md, sy)
        for emit in ("sqlalchemy", "sqlalchemy_table", "sqlalchemy_hybrid"):
            for sqlsub in (True, False):
                for recursive in (True, False):
                    for pre in ("absent", "empty"):
                        res.append({"idx": -100 - len(res), "tree": tree, "pre": {"kind": pre},
                                    "runs": [{"cfg": _cfg("exposed", out_rel="out/exposed_out", emit=[emit], sqlsub=sqlsub, recursive=recursive), "dry": False}]})
        # the submodule already present (second real run over the first one's output) and a dry run over it
        for emit in ("sqlalchemy_table", "sqlalchemy_hybrid"):
            c = _cfg("exposed", out_rel="out/exposed_out", emit=[emit], sqlsub=True, recursive=True)
            res.append({"idx": -100 - len(res), "tree": tree, "pre": {"kind": "absent"},
                        "runs": [{"cfg": c, "dry": False}, {"cfg": c, "dry": False}, {"cfg": c, "dry": True}]})
    # awkward but legal names exported through __all__: builtins / exceptions, soft keywords, keyword + underscore, leading
    # underscore, digits, names differing only in case, a stdlib-named module — every working emit kind x recursive
    nf = {
        "names/__init__.py": '"""names"""\nfrom names.errors import TimeoutError, format, Config\n\n__all__ = ["TimeoutError", "format", "Config"]\n',
        "names/errors.py": '"""errors"""\n\n\n' + _CLS % ("TimeoutError", "TimeoutError") + '\n\n' + _FN % ("format", "format") + '\n\n'
                           + _CLS % ("Config", "Config") + '\n\n__all__ = ["TimeoutError", "format", "Config"]\n',
        "names/kw/__init__.py": '"""kw"""\nfrom names.kw.types import match, class_, _Private, Alpha2Beta, config, type, id\n\n'
                                '__all__ = ["match", "class_", "_Private", "Alpha2Beta", "config", "type", "id"]\n',
        "names/kw/types.py": '"""types"""\n\n\n' + "\n\n".join([_FN % ("match", "match"), _CLS % ("class_", "class_"), _CLS % ("_Private", "_Private"),
                                                                  _CLS % ("Alpha2Beta", "Alpha2Beta"), _FN % ("config", "config"),
                                                                  _CLS % ("type", "type"), _FN % ("id", "id")])
                             + '\n\n__all__ = ["match", "class_", "_Private", "Alpha2Beta", "config", "type", "id"]\n',
    }
    ntree = _tree("names", nf, ["names", "names.kw"], ["names.errors", "names.kw.types"],
                  {"names.errors": ["TimeoutError", "format", "Config"], "names.kw.types": ["match", "class_", "_Private", "Alpha2Beta", "config", "type", "id"]})
    for emit in ("sqlalchemy_table", "class", "function", "argparse", "sqlalchemy_hybrid"):
        for recursive in (True, False):
            res.append({"idx": -100 - len(res), "tree": ntree, "pre": {"kind": "absent"},
                        "runs": [{"cfg": _cfg("names", out_rel="out/names_out", emit=[emit], recursive=recursive), "dry": False}]})
    return res


def excluded_units(tree: dict, cfg: dict):
    """Modules the statement calls excluded, for lists made of fully-qualified names of the tree only (else None).
    Conservative reading: a blacklist entry excludes exactly that module; a whitelist excludes a package only when
    neither it nor one of its ancestors is listed; module files follow their package for the whitelist."""
    universe = set(tree["packages"]) | set(tree["modules"])
    bl, wl = cfg["blacklist"], cfg["whitelist"]
    if not (set(bl) | set(wl)) <= universe:
        return None
    top = cfg["module"]
    res = []
    is_pkg_top = top in tree["packages"]
    top_pkg = top if is_pkg_top else top.rsplit(".", 1)[0]
    visited = [top] + ([p for p in tree["packages"] if p.startswith(top + ".")] if (cfg["recursive"] and is_pkg_top) else [])
    for p in visited:
        rel = "" if p == top else p[len(top) + 1:].replace(".", "/")
        children = [q[len(top) + 1:].replace(".", "/") for q in tree["packages"] if q.startswith(p + ".") and q.count(".") == p.count(".") + 1] if is_pkg_top else []
        anc = [p.rsplit(".", k)[0] for k in range(p.count(".") + 1)]
        why = None
        if p in bl:
            why = "blacklist"
        elif wl and not any(a in wl for a in anc):
            why = "whitelist"
        if why:
            res.append({"unit": "package" if p in tree["packages"] else "module-file", "fqn": p, "why": why, "rel": rel, "children": children,
                        "position": ("top-dotted" if "." in top else "top-undotted") if p == top else "subpackage", "stems": None})
        else:
            # blacklisted module files of a visited package
            for m in tree["modules"]:
                if m in bl and m.rsplit(".", 1)[0] == (p if p in tree["packages"] else top_pkg) and m != top:
                    res.append({"unit": "module-file", "fqn": m, "why": "blacklist", "rel": rel, "children": children, "position": "file",
                                "stems": [m.rsplit(".", 1)[1]]})
    return res


# ----------------------------------------------------------------------------------------------------------------------
# running one scenario against the real code
# ----------------------------------------------------------------------------------------------------------------------
def diff_snap(a: dict, b: dict):
    created = sorted(k for k in b if k not in a)
    deleted = sorted(k for k in a if k not in b)
    changed = sorted(k for k in a if k in b and a[k] != b[k] and not (a[k][0] == "d" and b[k][0] == "d"))
    dir_mtime = sorted(k for k in a if k in b and a[k] != b[k] and a[k][0] == "d" and b[k][0] == "d")
    return created, deleted, changed, dir_mtime


def check_generated_file(path: str):
    """valid Python (it compiles) whose __all__ names symbols it defines or imports → None, else a short reason"""
    try:
        src = open(path).read()
        mod = ast.parse(src)
        compile(src, path, "exec", dont_inherit=True)
    except (SyntaxError, ValueError) as e:
        return "syntax-error: %s" % (getattr(e, "msg", None) or e,)
    known = set()
    alls = []
    for st in mod.body:
        if isinstance(st, (ast.ClassDef, ast.FunctionDef, ast.AsyncFunctionDef)):
            known.add(st.name)
        elif isinstance(st, (ast.Import, ast.ImportFrom)):
            for a in st.names:
                known.add((a.asname or a.name).split(".")[0])
        elif isinstance(st, (ast.Assign, ast.AnnAssign)):
            tg = st.targets if isinstance(st, ast.Assign) else [st.target]
            for t in tg:
                for n in ast.walk(t):
                    if isinstance(n, ast.Name):
                        known.add(n.id)
            if any(isinstance(t, ast.Name) and t.id == "__all__" for t in tg) and isinstance(st.value, (ast.List, ast.Tuple)):
                alls += [e.value for e in st.value.elts if isinstance(e, ast.Constant)]
    missing = [n for n in alls if n not in known]
    if not missing:
        return None
    # root-cause marker of the signature: what kind of name is exported without being bound
    return "__all__ names undefined [%s]: %s (bound: %s)" % ("+".join(sorted({name_marker(n) for n in missing})), missing, sorted(known)[:8])


def name_marker(n: str) -> str:
    import builtins
    import keyword

    if not n.isascii():
        return "non_ascii_name"
    if keyword.iskeyword(n):
        return "keyword_name"
    if n in vars(builtins):
        return "builtin_name"
    return "plain_name"


_SPEC_CACHE: dict = {}


def foreign_imports(fs: dict, specs: list) -> list:
    """module strings of `from … import` statements in the source tree that the tree itself cannot resolve but the
    interpreter can (exmod ignores the import level, so `from .types import x` makes it read the *stdlib* `types`):
    the model's find_spec table only covers the tree, so such a run is outside its domain."""
    import importlib.util

    table = {k for k, _ in specs}
    res = set()
    for f in fs["files"]:
        if not f["path"].startswith(R.CANON + "/src/"):
            continue
        for imp in f["walk"]:
            m = imp.get("module")
            if not m or m in table:
                continue
            first = m.split(".")[0]
            if first in table:
                continue
            if first not in _SPEC_CACHE:
                try:
                    _SPEC_CACHE[first] = importlib.util.find_spec(first) is not None
                except (ValueError, ImportError, AttributeError):
                    _SPEC_CACHE[first] = True  # cannot tell: treat as resolvable elsewhere
            if _SPEC_CACHE[first]:
                res.add(m)
    return sorted(res)


def run_scenario(sc: dict, timeout: float = 120.0) -> dict:
    """Materialise, run every step of the history on the real code, collect observations + model requests."""
    root = R.new_root()
    steps = []
    try:
        R.materialise(root, sc["tree"])
        pre = sc["pre"]
        first_cfg = sc["runs"][0]["cfg"]
        out0 = os.path.join(root, first_cfg["out_rel"])
        if pre["kind"] == "empty":
            os.makedirs(out0)
        elif pre["kind"] == "hand":
            os.makedirs(out0, exist_ok=True)
            R.write_files(out0, pre["files"])
        for k, run in enumerate(sc["runs"]):
            cfg, dry = run["cfg"], run["dry"]
            out = os.path.join(root, cfg["out_rel"])
            fs = R.scan(root)
            specs = R.specs_and_packages(root, cfg["module"])
            foreign = foreign_imports(fs, specs)
            req = {"op": "c20.trace",
                   "cfg": {"emit": cfg["emit"], "module": cfg["module"], "blacklist": cfg["blacklist"], "whitelist": cfg["whitelist"],
                           "out": R.CANON + "/" + cfg["out_rel"], "target": cfg["target"], "sqlsub": cfg["sqlsub"],
                           "recursive": cfg["recursive"], "dry_run": dry},
                   "env": {"specs": specs, "packages": R.packages_for(root, cfg["module"], specs)}, "fs": fs}
            out_existed = os.path.isdir(out)
            before = R.snapshot(root)
            res = R.run_forked(R.child_run, (root, cfg, dry), timeout=timeout)
            after = R.snapshot(root)
            if "events" not in res:
                steps.append({"harness_error": res, "cfg": cfg, "dry": dry})
                break
            created, deleted, changed, dir_mtime = diff_snap(before, after)
            gen_bad = []
            for rel in created + changed:
                if rel.endswith(".py") and after.get(rel, ("d",))[0] == "f" and not rel.startswith("src/"):
                    why = check_generated_file(os.path.join(root, rel))
                    if why:
                        gen_bad.append([rel, why])
            steps.append({
                "cfg": cfg, "dry": dry, "req": req, "out_existed": out_existed, "foreign": foreign,
                "events": [[e[0], R.canon(e[1], root)] for e in res["events"]],
                "prints": [R.canon(x, root) for x in res["prints"]],
                "err": res["err"], "tb": R.canon(res.get("tb") or "", root)[-600:], "raised_in": res.get("raised_in"),
                "created": created, "deleted": deleted, "changed": changed, "dir_mtime": dir_mtime, "gen_bad": gen_bad,
                "after_py": sorted(R.CANON + "/" + k for k, v in after.items() if v[0] == "f" and k.endswith(".py")),
                "after_dirs": sorted(R.CANON + "/" + k for k, v in after.items() if v[0] == "d"),
            })
            if any(p.startswith("src/") for p in created + deleted + changed):
                break  # exmod rewrote its own input (a finding, reported by the oracle): later steps would run on a corrupted tree
    finally:
        R.cleanup(root)
    return {"idx": sc["idx"], "steps": steps}


# ----------------------------------------------------------------------------------------------------------------------
# oracle + correspondence for one step
# ----------------------------------------------------------------------------------------------------------------------
def under(base: str, p: str) -> bool:
    return p == base or p.startswith(base + "/")


def init_defs_clash(tree: dict, cfg: dict, rel_src_path: str) -> bool:
    """does the source file define, at top level, a name starting with the module name exmod uses for its folder?"""
    src = tree["files"].get(rel_src_path[len("src/"):])
    if src is None:
        return False
    try:
        names = [st.name for st in ast.parse(src).body if hasattr(st, "name")]
    except SyntaxError:
        return False
    fqn_pkg = os.path.dirname(rel_src_path[len("src/"):]).replace("/", ".")
    top = cfg["module"]
    # the folder exmod starts from: the package itself, or the package holding the module file named by --module;
    # packages found by the recursion are visited under their name relative to that folder
    base_pkg = top if top in tree["packages"] else top.rpartition(".")[0]
    mname = top if fqn_pkg == base_pkg else (fqn_pkg[len(base_pkg) + 1:] if fqn_pkg.startswith(base_pkg + ".") else None)
    return bool(mname) and any(n.startswith(mname) for n in names)


def new_module_name(cfg: dict) -> str:
    root = cfg["module"].rpartition(".")[0]
    return ((cfg["target"] or "___".join((root, "gold"))) if root else "gold")


def oracle(chk: core.Check, sc: dict, k: int, st: dict):
    """The statement of C20 evaluated on what the real run did to the real file system (one failure per run and kind)."""
    cfg, dry = st["cfg"], st["dry"]
    tree = sc["tree"]
    replay = {"tree": tree, "pre": sc["pre"], "runs": sc["runs"][: k + 1], "step": k}
    out_rel = cfg["out_rel"]
    touched = st["created"] + st["deleted"] + st["changed"]
    blocked = [e for e in st["events"] if e[0] == "blocked"]
    fails = {}  # signature (json) -> [sig, messages]

    def fail(sig, msg):
        fails.setdefault(json.dumps(sig, sort_keys=True), [sig, []])[1].append(msg)

    if dry:
        if touched or st["dir_mtime"] or blocked:
            where = "output" if all(under(out_rel, p) for p in touched + st["dir_mtime"]) else "elsewhere"
            fail({"kind": "dry-run-changed-fs", "where": where, "sqlsub": bool(cfg["sqlsub"]), "emit": cfg["emit"][0]},
                 "created %s deleted %s changed %s dir-mtime %s blocked %s" % (st["created"][:4], st["deleted"][:4], st["changed"][:4], st["dir_mtime"][:4], blocked[:2]))
    else:
        nmn = new_module_name(cfg)
        for p in touched:
            how = "created" if p in st["created"] else "deleted" if p in st["deleted"] else "changed"
            if under("src", p):
                clash = p.endswith("__init__.py") and init_defs_clash(tree, cfg, p)
                fail({"kind": "source-modified", "file": os.path.basename(p), "init_def_prefixed_by_module_name": clash}, "%s (%s)" % (p, how))
            elif not under(out_rel, p):
                if p in st["created"] and under(p, out_rel) and not st["out_existed"]:
                    continue  # a missing ancestor of the output directory itself
                parent_init = p == os.path.join(os.path.dirname(out_rel), "__init__.py")
                odim = ("/" + out_rel).replace("/", ".").endswith(nmn)
                fail({"kind": "outside-output", "path": "parent-of-output/__init__.py" if parent_init else "other",
                      "output_dir_name_ends_with_new_module_name": odim}, "%s (%s; output directory %s)" % (p, how, out_rel))
        for e in blocked:
            fail({"kind": "outside-output", "path": "outside-temp-root", "output_dir_name_ends_with_new_module_name": False},
                 "write outside the temp root attempted (refused by the harness): %s" % (e[1],))
        for rel, why in st["gen_bad"]:
            fail({"kind": "generated-file-invalid", "why": why.split(":")[0], "emit": cfg["emit"][0], "file": os.path.basename(rel)}, "%s: %s" % (rel, why))
        ex = excluded_units(tree, cfg)
        for u in ex or []:
            base = out_rel + ("/" + u["rel"] if u["rel"] else "")
            outs = []
            for p in st["created"] + st["changed"]:
                if not under(base, p) or p == base:
                    continue
                tail = p[len(base) + 1:]
                if u["rel"] == "" and under("sqlalchemy_mod", tail):
                    continue  # the per-run submodule requested by --emit-sqlalchemy-submodule is not a module's output
                if any(under(c[len(u["rel"]) + 1:] if u["rel"] else c, tail) for c in u["children"]):
                    continue
                if p not in st["changed"] and not p.endswith(".py"):
                    continue  # a bare directory
                if u["stems"] is not None and not any(c == s_ or c == s_ + ".py" for c in tail.split("/") for s_ in u["stems"]):
                    continue
                outs.append(p)
            if outs:
                fail({"kind": "excluded-module-output", "list": u["why"], "unit": u["unit"], "position": u["position"]},
                     "module %s is excluded (%s) but produced %s" % (u["fqn"], u["why"], outs[:4]))
    kinds = {"dry-run-changed-fs": "dry run changed the file system", "source-modified": "source package modified",
             "outside-output": "created/changed outside the output directory", "generated-file-invalid": "generated file invalid",
             "excluded-module-output": "excluded module produced output"}
    for sig, msgs in fails.values():
        chk.failure(sig, "%s [%s]: %s%s" % (kinds[sig["kind"]], " ".join(R.cli_args(cfg, out_rel, dry)), "; ".join(msgs[:5]),
                                             " (+%d more)" % (len(msgs) - 5) if len(msgs) > 5 else ""), replay)


def first_source_write(trace):
    for i, e in enumerate(trace):
        if under(R.CANON + "/src", e[1]):
            return i
    return None


ANCHORED = ("cdd/compound/exmod.py", "cdd/compound/exmod_utils.py", "cdd/shared/emit/file.py", "cdd/shared/pkg_utils.py", "cdd/__main__.py",
            "cdd/shared/pure_utils.py")


def outside_domain(st: dict) -> bool:
    """the real run ended with an exception raised *inside code the model assumes to return* (parsers, emitters, import
    inference / module merging in ast_utils, black, …), i.e. not in one of the modelled files"""
    f = st.get("raised_in")
    return bool(st["err"]) and bool(f) and "/cdd/" in f and not f.endswith(ANCHORED)


def compare(st: dict, m: dict):
    """observed vs model. Returns None when they agree, "outside-domain" when the model abstains, else a description."""
    if "error" in m:
        return "model error: %s" % m["error"]
    obs = [e for e in st["events"] if e[0] in ("mkdir", "open-a", "open-w")]
    extra = [e for e in st["events"] if e[0] not in ("mkdir", "open-a", "open-w")]
    mt = [e for e in m["trace"] if e[0] != "print"]
    mp = [e[1] for e in m["trace"] if e[0] == "print"]
    if st.get("foreign"):
        return "outside-domain"
    if outside_domain(st) and not extra:
        # the model's trace must still begin with everything that was observed before the exception
        if obs == mt[: len(obs)] and st["prints"] == mp[: len(st["prints"])]:
            return "outside-domain"
        return "before an exception in assumed code (%s in %s) the effects differ: real %s model %s" % (st["err"], st["raised_in"], obs[-2:], mt[max(0, len(obs) - 2): len(obs)])
    blocked = [e for e in st["events"] if e[0] == "blocked"]
    if blocked:
        # the harness refused a write outside the temp root (and thereby ended the run): up to there the model must agree,
        # and its next effect must be the refused one
        n = len(obs)
        if obs == mt[:n] and len(mt) > n and mt[n][1] == blocked[0][1] and not under(R.CANON, mt[n][1]):
            return None
        return "before the refused write %s the effects differ: real %s model %s" % (blocked[0], obs[-2:], mt[max(0, n - 2): n + 1])
    i1, i2 = first_source_write(obs), first_source_write(mt)
    if i1 is not None or i2 is not None:
        # exmod overwrote part of its own input: from there on its behaviour depends on re-parsing generated code
        # (outside the model's assumptions) — the tie is checked up to and including that write
        if i1 != i2 or obs[: i1 + 1] != mt[: i2 + 1]:
            return "trace prefix up to the first write into the source differs: real %s model %s" % (obs[: (i1 or 0) + 1][-3:], mt[: (i2 or 0) + 1][-3:])
        return None
    if extra:
        return "file-system event outside the model's vocabulary: %s" % extra[:3]
    if obs != mt:
        k = next((i for i, (a, b) in enumerate(zip(obs, mt)) if a != b), min(len(obs), len(mt)))
        return "effect %d differs: real %s model %s (lengths %d/%d)" % (k, obs[k: k + 2], mt[k: k + 2], len(obs), len(mt))
    if st["prints"] != mp:
        return "printed lines differ: real %s model %s" % (st["prints"][:3], mp[:3])
    status = "ok" if st["err"] is None else "raises:" + st["err"]
    if status != m["status"]:
        return "status differs: real %s model %s" % (status, m["status"])
    if sorted(p for p in m["files"] if p.endswith(".py")) != st["after_py"]:
        return "python files afterwards differ: real-only %s model-only %s" % (sorted(set(st["after_py"]) - set(m["files"]))[:3], sorted(set(m["files"]) - set(st["after_py"]))[:3])
    if sorted(set(m["dirs"]) - {R.CANON, "/"}) != st["after_dirs"]:
        return "directories afterwards differ: real-only %s model-only %s" % (sorted(set(st["after_dirs"]) - set(m["dirs"]))[:3], sorted(set(m["dirs"]) - set(st["after_dirs"]) - {R.CANON, "/"})[:3])
    return None


# ----------------------------------------------------------------------------------------------------------------------
def private_driver() -> Path:
    """Other checks relink the shared driver concurrently; work from a private copy of the binary just built."""
    dst = Path("/tmp") / ("c20_driver_%d" % os.getpid())
    for _ in range(120):
        try:
            if core.DRIVER.exists() and core.DRIVER.stat().st_size > 1000000:
                shutil.copy2(core.DRIVER, dst)
                os.chmod(dst, 0o755)
                core.DRIVER = dst
                out = core.model_batch([{"op": "c20.gate", "module_root": "", "module_name": "p", "blacklist": [], "whitelist": []}])
                if out and out[0].get("mod_path") == ".p":
                    return dst
        except (OSError, core.HarnessError, ValueError):
            pass
        time.sleep(1.0)
    raise core.HarnessError("Lean driver not available")


def child_second_of_two(root: str, cfg_a: dict, cfg_b: dict) -> dict:
    """In ONE process: a --dry-run preview with cfg_a, then a real run with cfg_b; returns what the SECOND run did (write events, prints, error).
    (with cfg_a = None: the second run alone — the reference)"""
    import io
    import sys

    events, rec = [], [False]

    def hook(ev, args):
        if not rec[0]:
            return
        if ev == "open":
            pth, mode, flags = args
            if isinstance(pth, bytes):
                pth = pth.decode()
            if isinstance(pth, str) and isinstance(mode, str) and any(c in mode for c in "wax+"):
                events.append(["open", pth])
        elif ev in ("os.mkdir", "os.remove", "os.rmdir", "os.rename", "os.replace"):
            events.append([ev, str(args[0])])

    sys.dont_write_bytecode = True
    os.chdir(root)
    sys.path.insert(0, os.path.join(root, "src"))
    import cdd.compound.exmod_utils as eu
    from cdd.__main__ import main

    sys.addaudithook(hook)
    err = None
    out = {}
    for cfg, dry, record in ((cfg_a, True, False), (cfg_b, False, True)):
        if cfg is None:
            continue
        buf = io.StringIO()
        eu.EXMOD_OUT_STREAM = buf
        err = None  # (per run: an exception of the preview is not an outcome of the second run)
        rec[0] = record
        try:
            main(R.cli_args(cfg, os.path.join(root, cfg["out_rel"]), dry))
        except SystemExit as e:
            err = "SystemExit:%s" % (e.code,)
        except BaseException as e:  # noqa
            err = type(e).__name__
        rec[0] = False
        if record:
            out = {"events": events, "prints": buf.getvalue().split("\n"), "err": err}
    return out


def run_two(sc):
    """(second run after a preview in the same process, second run alone) on two copies of the same tree"""
    res = []
    for with_preview in (True, False):
        root = R.new_root()
        try:
            R.materialise(root, sc["tree"])
            r = R.run_forked(child_second_of_two, (root, sc["a"] if with_preview else None, sc["b"]), timeout=240.0)
            if "events" in r:
                r = {"events": [[e[0], R.canon(e[1], root)] for e in r["events"]], "prints": [R.canon(x, root) for x in r["prints"]], "err": r["err"]}
            res.append(r)
        finally:
            R.cleanup(root)
    return res


def same_process_stream(chk: core.Check, rng):
    """exmod called twice in one process (a --dry-run preview of the whole package, then a real run that blacklists part of it): the second call must do exactly what
    it does alone — what a module contributes is gated by THIS call's lists, not by what an earlier call has seen"""
    scs = []
    for i in range(10 if chk.quick else 80):
        tree = G.gen_tree(rng)
        cfg = G.gen_config(rng, tree)
        a = dict(cfg, blacklist=[], whitelist=[], out_rel="out/preview")
        mods = [m for m in list(tree.get("modules") or []) + list(tree.get("packages") or []) if m != tree["top"]]
        if not mods:
            continue
        b = dict(cfg, blacklist=[rng.choice(mods)], whitelist=[], out_rel="out/o2")
        scs.append({"tree": tree, "a": a, "b": b})
    with cf.ThreadPoolExecutor(core.NCPU) as ex:
        results = list(ex.map(run_two, scs))
    n = 0
    for sc, (two, alone) in zip(scs, results):
        if "events" not in two or "events" not in alone:
            continue  # a child that did not answer is not a verdict
        n += 1
        chk.count(("two-in-one-process", json.dumps([sc["tree"]["files"], sc["a"], sc["b"]], sort_keys=True)), bool(alone["events"]))
        if two != alone:
            extra = [e for e in two["events"] if e not in alone["events"]]
            chk.failure({"kind": "history-dependent-effects", "emit": sc["b"]["emit"][0] if sc["b"]["emit"] else None},
                        "exmod --blacklist %s after a --dry-run preview in the same process does not do what it does alone: e.g. extra effects %s" % (sc["b"]["blacklist"], extra[:3]),
                        {"fn": "two", "scenario": sc, "after_preview": two, "alone": alone})
    chk.coverage["two_calls_in_one_process"] = n


def evaluate(chk: core.Check, scenarios: list, label: str):
    """run scenarios on the real code (parallel), the model on the same inputs, compare, apply the oracle"""
    with cf.ThreadPoolExecutor(core.NCPU) as ex:
        results = list(ex.map(run_scenario, scenarios))
    # a child that did not answer within 120 s (machine under load) or died is not a verdict: the whole scenario is run
    # again, alone, in a fresh temp root with a 600 s limit; only if that fails too the check stops with exit 2
    for i, (sc, res) in enumerate(zip(scenarios, results)):
        if any("harness_error" in st for st in res["steps"]):
            chk.coverage["child_retries"] = chk.coverage.get("child_retries", 0) + 1
            results[i] = run_scenario(sc, timeout=600.0)
            bad = [st for st in results[i]["steps"] if "harness_error" in st]
            if bad:  # stop at the FIRST scenario that fails twice (do not spend 600 s on each of many)
                raise core.HarnessError("exmod child did not answer twice (120 s in parallel, 600 s alone): %s" % (bad[0]["harness_error"],))
    reqs, where = [], []
    for sc, res in zip(scenarios, results):
        for k, st in enumerate(res["steps"]):
            if "harness_error" in st:
                raise core.HarnessError("exmod child did not answer twice (120 s in parallel, 600 s alone): %s" % (st["harness_error"],))
            reqs.append(st["req"])
            where.append((sc, k, st))
    model = core.model_batch(reqs, timeout=1800)
    n_dis = 0
    cov = chk.coverage
    for (sc, k, st), m in zip(where, model):
        cfg = st["cfg"]
        why = compare(st, m)
        key = json.dumps([sc["tree"]["files"], cfg, st["dry"], sc["pre"] if k == 0 else "after-%d" % k], sort_keys=True)
        # non-trivial = inside the domain of the theorem that speaks about this run, and the run does something:
        # dry run: at least one item reaches emit_file_on_hierarchy; real run: in `Exmod.inDomain` with at least one item
        nontrivial = m.get("items", 0) > 0 and (st["dry"] or bool(m.get("in_domain")))
        chk.count(key, nontrivial)
        if not st["dry"]:
            dd = cov.setdefault("confined_partial_domain", {"in": 0, "out:output-dir-is-module": 0, "out:item-not-ok": 0, "out:other": 0})
            if m.get("in_domain"):
                dd["in"] += 1
                if not m.get("all_under_out"):
                    chk.oblige("model instance of C20.confined_partial", "theorem-instance", False, "in_domain but an effect outside out: %s" % key[:300])
            elif m.get("out_is_module"):
                dd["out:output-dir-is-module"] += 1
            elif m.get("items_not_ok"):
                dd["out:item-not-ok"] += 1
            else:
                dd["out:other"] += 1
        for name, val in (("emit", "+".join(cfg["emit"])), ("mode", "dry" if st["dry"] else "real"),
                          ("prestate", (sc["pre"]["kind"] if k == 0 else ("after-real" if not sc["runs"][k - 1]["dry"] else "after-dry"))),
                          ("recursive", str(cfg["recursive"])), ("levels", str(sc["tree"]["levels"])),
                          ("module_arg", "dotted" if "." in cfg["module"] else "undotted"),
                          ("lists", "bl%d/wl%d%s" % (min(len(cfg["blacklist"]), 2), min(len(cfg["whitelist"]), 2), "/both" if set(cfg["blacklist"]) & set(cfg["whitelist"]) else "")),
                          ("status", "ok" if st["err"] is None else st["err"]),
                          ("effects", "0" if not st["events"] else "1-9" if len(st["events"]) < 10 else "10-49" if len(st["events"]) < 50 else "50+")):
            d = cov.setdefault("dist_" + name, {})
            d[val] = d.get(val, 0) + 1
        if why == "outside-domain":
            cov["outside_domain"] = cov.get("outside_domain", 0) + 1
            d = cov.setdefault("outside_domain_kinds", {})
            kd = ("source imports a module outside the tree (import level ignored by exmod)" if st.get("foreign")
                  else "%s in %s" % (st["err"], (st.get("raised_in") or "").split("/cdd/")[-1]))
            d[kd] = d.get(kd, 0) + 1
        elif why:
            n_dis += 1
            if n_dis <= 5:
                rd = core.VERIF / "replays" / "C20"
                rd.mkdir(parents=True, exist_ok=True)
                (rd / ("disagreement_%s_%d_%s_%d.json" % (chk.tier, chk.seed, label.split()[0], n_dis))).write_text(json.dumps(
                    {"property": "C20", "kind": "correspondence", "what": why,
                     "replay": {"tree": sc["tree"], "pre": sc["pre"], "runs": sc["runs"][: k + 1], "step": k}}, indent=1))
            chk.disagreement("C20 correspondence: exmod effects = Exmod.trace (%s)" % label,
                             {"tree": sc["tree"]["files"], "pre": sc["pre"], "runs": sc["runs"][: k + 1]}, why, m.get("status"))
        if len(cov["samples"]) < 3 and st["events"]:
            chk.sample({"argv": R.cli_args(cfg, R.CANON + "/" + cfg["out_rel"], st["dry"]), "files": sorted(sc["tree"]["files"]),
                        "prestate": sc["pre"]["kind"], "first_effects": st["events"][:5], "n_effects": len(st["events"]), "err": st["err"]})
        oracle(chk, sc, k, st)
    return len(reqs), n_dis


def run(chk: core.Check) -> int:
    import cdd.class_.parse  # noqa: F401  (import order, see BUILDER_GUIDE)
    import cdd.__main__  # noqa: F401  loaded once here; every run happens in a forked child
    import cdd.compound.exmod  # noqa: F401

    chk.lean(MODULE, THEOREMS)
    chk.trusted_base += [
        "model lean/CddVerif/Model/Exmod.lean: hand port of exmod / exmod_single_folder / emit_files_from_module_and_return_imports / emit_file_on_hierarchy / _emit_symbol / _create_sqlalchemy_mod / get_module_contents / find_module_filepath; tied by ordered effect traces, printed lines, exception class and final file set",
        "assumed, not modelled: importlib find_spec (table computed by the harness from the source tree), setuptools.find_packages (unfiltered list computed by the real function, include/exclude applied by the model as equality on metacharacter-free names), the parsers/emitters called per symbol (three emit kinds raise TypeError for every symbol; the others return on the generated symbols), black, the OS",
        "harness/impl/c20_runner.py: abstraction of a Python file to its top-level statements (def / from-import / __all__ / other) and ast.walk order of ImportFrom nodes; audit hook vocabulary (open-for-write, os.mkdir/remove/rmdir/rename/replace/…); byte-code caches are switched off in the child (sys.dont_write_bytecode): cache files the interpreter writes next to imported sources are not counted as exmod's writes",
        "after exmod has overwritten one of its own input files (known finding C20-src-init-overwrite) the tie is only checked up to that write",
        "a source tree whose `from … import` names a module the tree cannot resolve but the interpreter can (exmod ignores the import level, so `from .types import x` reads the stdlib `types`) is outside the model's find_spec table: the model abstains (counted in outside_domain_kinds), the oracle is still evaluated",
        "a forked exmod child that does not answer within 120 s is re-run alone with a 600 s limit; only a second failure stops the check, with exit 2 (never a verdict)",
        "oracle for excluded modules: only evaluated when black-/whitelist consist of fully-qualified names of packages/modules of the tree; conservative reading (blacklist entry = exactly that module; whitelist is hierarchical)",
    ]
    private = None
    try:
        if core.DRIVER.exists():
            private = private_driver()
        else:
            raise core.HarnessError("Lean driver not built")
        rng = chk.rng
        same_process_stream(chk, random.Random(chk.seed * 7919 + 20))  # first, with its own generator: independent of the streams below
        n = 520 if chk.quick else 8000
        scenarios = [gen_scenario(rng, i) for i in range(n)]
        # directed stream: the regions of the known findings and the statement's corners, every run
        directed = []
        for i in range(8 if chk.quick else 60):
            directed.append(gen_scenario(rng, n + len(directed), {"clash": True, "cfg": {"blacklist": [], "whitelist": []}}))
        for i in range(8 if chk.quick else 60):
            sc = gen_scenario(rng, n + len(directed))
            for run_ in sc["runs"]:
                run_["cfg"]["out_rel"] = "out/" + new_module_name(run_["cfg"]).replace(".", "/")
                run_["cfg"]["blacklist"], run_["cfg"]["whitelist"] = [], []
            directed.append(sc)
        for i in range(12 if chk.quick else 80):
            sc = gen_scenario(rng, n + len(directed))
            for run_ in sc["runs"]:
                c = run_["cfg"]
                c["emit"] = [rng.choice(["sqlalchemy", "sqlalchemy_table", "sqlalchemy_hybrid"])]
                c["sqlsub"] = True
            directed.append(sc)
        wit = witnesses()
        wsc = [{"idx": -1 - i, "tree": t, "pre": {"kind": "absent"}, "runs": [{"cfg": c, "dry": False}]} for i, (_, t, c) in enumerate(wit)]
        t0 = time.time()
        for (fid, _, _), sc in zip(wit, wsc):
            before = {it["id"]: it["seen"] for it in chk.kf.items}
            _, dw = evaluate(chk, [sc], "witness %s" % fid)
            after = {it["id"]: it["seen"] for it in chk.kf.items}
            if after.get(fid, 0) <= before.get(fid, 0):
                chk.notes.append("known finding %s: its witness no longer fails (stale line in known_findings.d/C20.txt, or not listed)" % fid)
            if dw:
                chk.oblige("correspondence on the witness of %s" % fid, "correspondence", False, "model and code differ on the witness")
        chk.coverage["witnesses"] = [w[0] for w in wit]
        cor = corners()
        n0, d0 = evaluate(chk, cor, "fixed corners")
        chk.coverage["fixed_corner_scenarios"] = len(cor)
        n1, d1 = evaluate(chk, scenarios, "generated stream")
        n2, d2 = evaluate(chk, directed, "directed stream")
        n1, d1 = n1 + n0, d1 + d0
        chk.coverage["real_runs"] = n1 + n2
        chk.coverage["real_run_seconds"] = round(time.time() - t0, 1)
        chk.oblige("correspondence: observed exmod effects (audit events, prints, exception, final files) = Exmod.trace on %d runs of %d scenarios" % (n1 + n2, len(scenarios) + len(directed) + len(cor)),
                   "correspondence", d1 + d2 == 0, "%d disagreements" % (d1 + d2))
    except core.HarnessError as e:
        # children that do not answer are never a verdict by themselves — but a concrete failing input found before that is one
        if not chk.violations:
            raise
        chk.notes.append("the run was cut short by a harness problem after a failing input had been found: %s" % str(e)[:300])
    finally:
        if private is not None:
            try:
                os.unlink(private)
            except OSError:
                pass
        # every temp root is removed by run_scenario; sweep leftovers of killed children, if any
        for p in Path(os.environ.get("C20_TMP", "/tmp")).glob("c20_*"):
            if p.is_dir() and time.time() - p.stat().st_mtime > 3600:
                shutil.rmtree(p, ignore_errors=True)
    return chk.finish("package trees 1-3 levels (modules with classes/functions, re-exports through __init__/__all__, aliases, nested and relative imports, defs in __init__; 40% of the trees with awkward legal names for classes/functions/modules/sub-packages: builtins and exceptions, soft keywords, keyword+underscore, leading underscore/dunder, digits, non-ASCII, 109-character, case-only differences, stdlib module names) x emit kind(s) x recursive x black/whitelist subsets (FQNs, relative names, both lists) x dry/real x output absent/empty/hand-written __init__.py/earlier real run; "
                      "non-trivial = the run reaches emit_file_on_hierarchy and (dry run, or real run inside Exmod.inDomain = the domain of confined_partial, evaluated by the driver); compared: ordered effect list, printed lines, exception class, final files/dirs; oracle: before/after snapshot (paths, sizes, sha1, mtime_ns)")


def replay(path: str) -> int:
    d = json.loads(Path(path).read_text())
    rp = d.get("replay") or {}
    if "tree" not in rp:
        print("replay file holds no concrete input (%s)" % d.get("kind"))
        return 2
    import cdd.class_.parse  # noqa: F401
    import cdd.__main__  # noqa: F401

    chk = core.Check("C20", "quick", 0)
    sc = {"idx": 0, "tree": rp["tree"], "pre": rp["pre"], "runs": rp["runs"]}
    res = run_scenario(sc)
    k = len(res["steps"]) - 1
    st = res["steps"][k]
    oracle(chk, sc, k, st)
    print("replay: step %d err=%s created=%s changed=%s" % (k, st["err"], st["created"][:6], st["changed"][:6]))
    if core.DRIVER.exists():
        why = compare(st, core.model_batch([st["req"]])[0])
        print("replay: model vs code: %s" % (why or "agree"))
        if why and why != "outside-domain" and d.get("kind") == "correspondence":
            return 1
    for v in chk.violations:
        print("  FAILS:", v["what"])
    for kf, v in chk.known_seen.items():
        print("  KNOWN-FINDING %s: %s" % (kf, v["first"] and v["text"]))
    return 1 if chk.violations else 0  # a listed known finding that reproduces is printed, not counted
