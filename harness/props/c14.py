"""C14 — every parser returns a well-formed interface description (DESIGN.md §4 C14)."""
from __future__ import annotations

import ast
import copy
import itertools
import json
from pathlib import Path

from harness import core
from harness.gen import ir as G
from harness.props.c11 import ALPHABET, mutate, repo_docstrings
from harness.props.c15 import render_section
from harness.props import c14gn

MODULE = "CddVerif.Properties.C14"
THEOREMS = ["C14.parseRest_wf", "C14.upsert_nodup", "C14.upsert_keys", "C14.mapVals_keys", "C14.setNameAndType_ok_name",
            "C14.empty_name_witness", "C14.C14_full_false"]
IFACE = ["shape_by_typing", "class_keys", "function_keys", "argparse_keys", "class_names_distinct", "function_names_distinct", "argparse_names_distinct", "parse_names_distinct",
         "class_distinct_needs_doc", "function_distinct_needs_doc", "function_distinct_needs_sig", "class_names_no_star", "function_names_no_star", "argparse_names_no_star",
         "argparse_no_star_false", "parse_names_no_star", "class_names_nonempty", "function_names_nonempty", "argparse_names_nonempty", "class_nonempty_needs_doc",
         "function_nonempty_needs_doc", "argparse_nonempty_false", "names_full_false", "sigNames_drop", "sig_complete_mem", "sig_complete", "sig_order_exact", "sig_order_undocumented",
         "sig_order_false", "class_typ_nonempty", "function_typ_nonempty", "argparse_typ_nonempty", "argparse_return_typ_empty", "class_typ_needs_doc"]
SQLJSON = ["sql_names_distinct", "sql_names_distinct_assign", "sql_names_distinct_class", "sql_names_first_occurrences", "sql_no_column_merged_iff", "sql_repeated_column_dropped",
           "sql_names_good_iff", "sql_empty_name_witness", "sql_star_name_witness", "sql_names_good_full_false", "sql_names_no_star_false", "sql_class_names", "sql_class_names_good",
           "sql_class_names_good_identifiers", "sql_typ_nonempty", "sql_typ_nonempty_assign", "sql_typ_nonempty_class", "sql_table_values_nonempty", "sql_type_table_miss",
           "sql_result_ignores_header", "sql_none_key_witness", "sql_only_documented_keys_false", "json_names_are_property_keys", "json_names_distinct_iff", "json_names_distinct",
           "json_names_distinct_full_false", "json_names_good_iff", "json_bad_names_witness", "json_names_good_full_false", "json_names_no_star_false", "json_typ_nonempty",
           "json_table_values_nonempty", "json_typ_present_iff", "json_type_miss_raises", "json_falsy_type_kept", "json_returns_none_iff", "json_return_typ_nonempty_full_false"]
MODULE_ALL = "CddVerif.Properties.C14All"  # aggregator: C14 (ReST), C14GN (Google / NumPy), C14Iface (class / function / argparse), C14SqlJson (SQLAlchemy, JSON schema)
ALLOWED_KEYS = {"typ", "doc", "default", "x_typ"}
# the negation witnesses of C14Iface / C14SqlJson, replayed on the REAL parsers in every run (each is a known finding; a witness that stops failing is reported as stale)
WITNESSES = [
    ("argparse-star-name", "argparse", "def set_cli_args(argument_parser):\n    \"\"\"\n    Set CLI arguments\n\n    :param argument_parser: argument parser\n    :type argument_parser: ```ArgumentParser```\n\n"
     "    :return: argument_parser\n    :rtype: ```ArgumentParser```\n    \"\"\"\n    argument_parser.description = 'd'\n    argument_parser.add_argument('--*a', type=int, help='the a')\n    return argument_parser\n", "name-star"),
    ("argparse-empty-name", "argparse", "def set_cli_args(argument_parser):\n    \"\"\"\n    Set CLI arguments\n\n    :param argument_parser: argument parser\n    :type argument_parser: ```ArgumentParser```\n\n"
     "    :return: argument_parser\n    :rtype: ```ArgumentParser```\n    \"\"\"\n    argument_parser.description = 'd'\n    argument_parser.add_argument('--', type=int, help='the a')\n    return argument_parser\n", "name-empty"),
    ("sqlalchemy-table-empty-name", "table", 't = Table("t", metadata, Column("", Integer), Column("b", String))\n', "name-empty"),
    ("sqlalchemy-table-star-name", "table", 't = Table("t", metadata, Column("*args", String), Column("b", String))\n', "name-star"),
    ("json-schema-empty-name", "json_schema", {"$id": "https://x/T.schema.json", "$schema": "https://json-schema.org/draft/2020-12/schema", "description": "T.", "type": "object",
                                               "properties": {"": {"description": "a", "type": "integer"}, "b": {"description": "b", "type": "string"}}, "required": ["b"]}, "name-empty"),
    ("json-schema-star-name", "json_schema", {"$id": "https://x/T.schema.json", "$schema": "https://json-schema.org/draft/2020-12/schema", "description": "T.", "type": "object",
                                              "properties": {"*args": {"description": "a", "type": "integer"}, "b": {"description": "b", "type": "string"}}, "required": ["b"]}, "name-star"),
]


def impl_witness(w):
    import cdd.argparse_function.parse
    import cdd.class_.parse  # noqa: F401
    import cdd.json_schema.parse
    import cdd.sqlalchemy.parse

    wid, kind, payload, _ = w
    try:
        if kind == "json_schema":
            return {"ir": strip_ir(cdd.json_schema.parse.json_schema(copy.deepcopy(payload)))}
        node = ast.parse(payload).body[0]
        if kind == "argparse":
            return {"ir": strip_ir(cdd.argparse_function.parse.argparse_ast(node))}
        return {"ir": strip_ir(cdd.sqlalchemy.parse.sqlalchemy_table(node))}
    except Exception as e:  # noqa
        return {"raises": core.exc_name(e)}


def wf_problems(ir, sig_params=None):
    """the statement's clauses on a real parser result → list of (clause, detail)"""
    out = []
    if not isinstance(ir, dict):
        return [("not-a-mapping", type(ir).__name__)]
    if not (ir.get("name") is None or isinstance(ir.get("name"), str)):
        out.append(("name-not-str", type(ir.get("name")).__name__))
    if not isinstance(ir.get("doc"), str):
        out.append(("doc-not-str", type(ir.get("doc")).__name__))
    params = ir.get("params")
    if not hasattr(params, "items"):
        return out + [("params-not-mapping", type(params).__name__)]
    entries = [("param", k, v) for k, v in params.items()]
    rt = ir.get("returns")
    if rt is not None:
        if not hasattr(rt, "items") or list(rt.keys()) != ["return_type"]:
            out.append(("returns-shape", repr(list(rt.keys()) if hasattr(rt, "keys") else rt)[:60]))
        else:
            entries.append(("return", "return_type", rt["return_type"]))
    for ent, k, v in entries:
        if ent == "param":
            if not isinstance(k, str) or k == "":
                out.append(("name-empty", repr(k)))
            elif k.startswith("*"):
                out.append(("name-star", k))
        if not isinstance(v, dict):
            out.append(("entry-not-dict", ent))
            continue
        extra = set(v) - ALLOWED_KEYS
        if extra:
            out.append(("extra-keys", ",".join(sorted(extra))))
        if "typ" in v and v["typ"] is not None:
            t = v["typ"]
            if not isinstance(t, str):
                out.append(("typ-not-str", ent + ":" + type(t).__name__))
            elif t == "":
                out.append(("typ-empty", ent))
            else:
                try:
                    ast.parse(t.strip(), mode="eval")
                except SyntaxError:
                    out.append(("typ-unparsable", ent + ":" + ("multiline" if "\n" in t else "single-line")))
        if "doc" in v and v["doc"] is not None and not isinstance(v["doc"], str):
            out.append(("doc-not-str", ent))
        # a key that is present with the value None is neither "a string" nor absent
        if "doc" in v and v["doc"] is None:
            out.append(("doc-none", ent))
        if "typ" in v and v["typ"] is None:
            out.append(("typ-none", ent))
    if sig_params is not None:
        for kind, name in sig_params:
            if name not in params:
                out.append(("sig-param-missing", kind))
    return out


# ---------------------------------------------------------------------------------------------------------------
# generators
# ---------------------------------------------------------------------------------------------------------------
EXTRA_SECTIONS = {
    "rest": [":raises ValueError: when the input is bad", ".. note::\n   Remember this.", "Usage:\n>>> f(1)\n2"],
    "google": ["Raises:\n  ValueError: when the input is bad", "Note:\n  Remember this.", "Example:\n  >>> f(1)\n  2"],
    "numpydoc": ["Raises\n------\nValueError\n    when the input is bad", "Notes\n-----\nRemember this.", "Examples\n--------\n>>> f(1)\n2"],
}


def gen_docstring(r):
    style = r.choice(("rest", "google", "numpydoc"))
    ir = G.gen_ir(r, nparams=r.randint(0, 4), none_ok=True, with_return=r.random() < 0.6)
    if r.random() < 0.3:
        ir["params"][r.choice(["*args", "*args", "*rest", "*values"])] = {"typ": "tuple", "doc": "extra positional things"}
    if r.random() < 0.3:
        ir["params"][r.choice(["**kwargs", "**kwargs", "**options", "**extra", "**model_kwargs"])] = {"typ": "dict", "doc": "extra keyword things"}
    for n, p in ir["params"].items():
        if r.random() < 0.25:
            p["doc"] = p.get("doc", "thing") + "\n    continued on a second line\n    and a third"
        if r.random() < 0.1:
            p["typ"] = ""  # `name :` with an empty type / `:type x:` left blank
    ret_lines = 1
    if ir.get("returns") and r.random() < 0.5:
        ret_lines = r.randint(2, 4)
        extra = ["computed on the validation split", "and averaged over the folds", "unless told otherwise"][: ret_lines - 1]
        ind = {"rest": "    ", "google": "  ", "numpydoc": "    "}[style]
        ir["returns"]["return_type"]["doc"] = ir["returns"]["return_type"].get("doc", "result") + "".join("\n" + ind + e for e in extra)
    sec = render_section(r, ir, style)
    blocks = ["Summary line.", sec] + r.sample(EXTRA_SECTIONS[style], r.randint(0, 2))
    if r.random() < 0.5:
        head, rest = blocks[0], blocks[1:]
        r.shuffle(rest)  # sections in any order
        blocks = [head] + rest
    d = "\n\n".join(b for b in blocks if b)
    if r.random() < 0.4:
        d = "\n" + "\n".join(("    " + l) if l else l for l in d.split("\n")) + "\n    "
    return {"doc": d, "style": style, "shuffled": blocks[1] != sec, "has_empty_typ": any(p.get("typ") == "" for p in ir["params"].values()),
            "has_star": any(n.startswith("*") for n in ir["params"]), "extra": len(blocks) - 2, "ret_lines": ret_lines}


def gen_function(r):
    ir = G.gen_ir(r, nparams=r.randint(1, 4), none_ok=False)
    names = list(ir["params"])
    shape = r.choice(["plain", "posonly", "star", "kwonly", "kwargs", "all", "receiver-posonly"])
    parts, sig = [], []

    def one(n):
        p = ir["params"][n]
        s = "%s: %s" % (n, p["typ"]) if r.random() < 0.6 else n
        if "default" in p:
            s += " = " + G.render_default(p["default"])
        return s

    defaults_started = False
    rendered = []
    for n in names:
        if "default" in ir["params"][n]:
            defaults_started = True
        elif defaults_started:
            ir["params"][n]["default"] = 1
        rendered.append(one(n))
    if shape == "receiver-posonly":
        # a method whose receiver is positional-only: `def m(self, /, a, b)` — the ordinary parameters are all of a, b
        parts += [r.choice(["self", "cls"]), "/"] + rendered
        sig += [("arg", n) for n in names]
    elif shape in ("posonly", "all") and len(names) >= 2:
        parts += [rendered[0], "/"] + rendered[1:]
        sig += [("posonly", names[0])] + [("arg", n) for n in names[1:]]
    else:
        parts += rendered
        sig += [("arg", n) for n in names]
    if shape in ("star", "all"):
        parts.append("*args")
        sig.append(("vararg", "args"))
    if shape in ("kwonly", "all"):
        if shape == "kwonly":
            parts.append("*")
        parts.append("kw_only_flag: bool = False")
        sig.append(("kwonly", "kw_only_flag"))
    if shape in ("kwargs", "all"):
        parts.append("**kwargs")
        sig.append(("kwarg", "kwargs"))
    documented = r.sample(names, r.randint(0, len(names)))
    doc = "\n".join(["    Summary.", ""] + ["    :param %s: %s" % (n, ir["params"][n].get("doc", "x")) for n in documented])
    src = 'def f(%s):\n    """\n%s\n    """\n    return None\n' % (", ".join(parts), doc)
    # how the parser is invoked: directly (function_type given or inferred), or through the class parser merging an inner function
    mode = r.choice(["plain", "plain", "function_type=self", "function_type=cls", "function_type=static", "merge_inner_function"])
    return {"src": src, "sig": sig, "shape": shape, "mode": mode}


def gen_sqlalchemy(r):
    """a hand-written declarative class / Table with explicit keyword spellings the emitters never produce"""
    cols = []
    names = r.sample(["id", "name", "ref_id", "amount", "flag", "_rev", "payload"], r.randint(1, 5))
    for n in names:
        typ = r.choice(["Integer", "String", "Float", "Boolean", "JSON", "Text", "BigInteger", "Enum('a', 'b', name='kind')"])
        kws = []
        pk = r.choice([None, None, "True", "False"])
        if pk:
            kws.append("primary_key=%s" % pk)
        nl = r.choice([None, "True", "False"])
        if nl:
            kws.append("nullable=%s" % nl)
        if r.random() < 0.4:
            kws.append("default=%s" % r.choice(["0", "'x'", "1.5", "True", "None"]))
        if r.random() < 0.5:
            kws.append("%s=%r" % (r.choice(["doc", "comment"]), r.choice(["the thing", "[FK(other.id)] a reference", "a count."])))
        if r.random() < 0.2:
            kws.append(r.choice(["index=True", "unique=True", "autoincrement=True"]))
        pos = [typ] + (["ForeignKey('other.id')"] if n == "ref_id" and r.random() < 0.7 else [])
        cols.append((n, pos, kws))
    form = r.choice(["class", "class", "table"])
    documented = r.sample(names, r.randint(0, len(names)))
    if form == "class":
        def entry(n):
            k = r.random()
            if k < 0.7:
                return ["    :cvar %s: documented %s" % (n, n)]
            if k < 0.85:
                return ["    :cvar %s:" % n]  # listed without a description
            return ["    :type %s: ```int```" % n]  # listed with a type only
        doc = "\n".join(["    A model.", ""] + [l for n in documented for l in entry(n)])
        body = "\n".join("    %s = Column(%s)" % (n, ", ".join(pos + kws)) for n, pos, kws in cols)
        src = 'class Foo(Base):\n    """\n%s\n    """\n    __tablename__ = "foo"\n%s\n' % (doc, body)
    else:
        body = ",\n    ".join("Column(%r, %s)" % (n, ", ".join(pos + kws)) for n, pos, kws in cols)
        src = 'foo = Table(\n    "foo",\n    metadata,\n    %s,\n    comment="A model.",\n)\n' % body
    return {"src": src, "form": form, "explicit_pk_false": any("primary_key=False" in k for _, _, ks in cols for k in ks)}


def gen_class(r):
    """a hand-written class (plain or pydantic-shaped) with the attribute shapes people write and the project's emitters never produce"""
    names = r.sample(["a", "b", "name", "count", "tags", "ref", "mode", "payload", "text", "node", "_private"], r.randint(1, 6))
    lines, documented = [], r.sample(names, r.randint(0, len(names)))
    shapes = {}
    for n in names:
        shape = r.choice(["ann=val", "ann=val", "ann", "ann", "ann-none", "ann-str-forward", "ann-str-prose", "bare=val", "ann-subscript", "ann-attr", "ann=call"])
        shapes[n] = shape
        if shape == "ann=val":
            lines.append("    %s: %s = %s" % (n, r.choice(["int", "str", "float", "bool"]), r.choice(["0", "'x'", "1.5", "True", "None"])))
        elif shape == "ann":
            lines.append("    %s: %s" % (n, r.choice(["int", "str", "Optional[int]", "List[str]"])))
        elif shape == "ann-none":
            lines.append("    %s: None" % n)
        elif shape == "ann-str-forward":
            lines.append("    %s: %s" % (n, r.choice(['"Node"', "'Optional[Node]'", '"List[Node]"'])))
        elif shape == "ann-str-prose":
            lines.append("    %s: %s" % (n, r.choice(['"the displayed text"', "'a label, shown to the user'"])))
        elif shape == "bare=val":
            lines.append("    %s = %s" % (n, r.choice(["0", "'x'", "(1, 2)", "None", "[]"])))
        elif shape == "ann-subscript":
            lines.append("    %s: %s = %s" % (n, r.choice(["Dict[str, int]", "Tuple[int, ...]", "Literal['a', 'b']", "Callable[[int], str]"]), r.choice(["None", "{}", "'a'"])))
        elif shape == "ann-attr":
            lines.append("    %s: %s" % (n, r.choice(["np.ndarray", "typing.Any", "tf.data.Dataset"])))
        else:
            lines.append("    %s: %s = %s" % (n, r.choice(["int", "List[int]"]), r.choice(["field(default=3)", "Field(3, description='x')", "list()"])))
    doc = "\n".join(["    A thing.", ""] + ["    :cvar %s: documented %s" % (n, n) for n in documented])
    base = r.choice(["object", "", "BaseModel"])
    extra = r.choice(["", "", "\n    def __call__(self):\n        return self.a\n", "\n    class Meta:\n        x = 1\n"])
    merge = None
    if base != "BaseModel" and r.random() < 0.3:
        # an __init__ whose arguments repeat some attributes (documented in neither place or in one): parsed with merge_inner_function="__init__"
        args = r.sample(names, r.randint(1, len(names))) + r.sample(["seed", "verbose"], r.randint(0, 2))
        idoc = r.choice(["", '        """\n        Build it.\n\n%s\n        """\n' % "\n".join("        :param %s: the %s" % (a, a) for a in r.sample(args, r.randint(0, len(args))))])
        extra += "\n    def __init__(self, %s):\n%s        self.x = 1\n" % (", ".join("%s=None" % a if r.random() < 0.5 else a for a in sorted(args, key=lambda a: r.random())) , idoc)
        extra = extra.replace("=None, ", "=None, ")
        merge = "__init__"
    src = 'class Foo%s:\n    """\n%s\n    """\n%s\n%s' % ("(%s)" % base if base else "", doc, "\n".join(lines), extra)
    return {"src": src, "form": "pydantic" if base == "BaseModel" else "class", "shapes": sorted(set(shapes.values())), "attrs": [[n, shapes[n]] for n in names], "merge": merge}


def impl_class(payload):
    import cdd.class_.parse
    import cdd.pydantic.parse

    try:
        node = ast.parse(payload["src"]).body[0]
        f = cdd.pydantic.parse.pydantic if payload["form"] == "pydantic" else cdd.class_.parse.class_
        if payload.get("merge"):
            return {"ir": strip_ir(f(node, merge_inner_function=payload["merge"]))}
        return {"ir": strip_ir(f(node))}
    except Exception as e:  # noqa
        return {"raises": core.exc_name(e)}


def gen_argparse(r):
    """a hand-written argparse-building function with the add_argument spellings people write"""
    names = r.sample(["alpha", "beta", "count", "mode", "tags", "path", "flag", "level", "config"], r.randint(1, 6))
    lines, shapes = [], {}
    for n in names:
        shape = r.choice(["type-default", "type-required", "choices-list", "choices-tuple", "choices-set", "append", "store_true", "no-type", "loads", "nargs", "help-default"])
        shapes[n] = shape
        kws = []
        if shape == "type-default":
            kws = ["type=%s" % r.choice(["int", "str", "float", "bool"]), "default=%s" % r.choice(["0", "'x'", "1.5", "True", "None"])]
        elif shape == "type-required":
            # incl. converters written as dotted names (pathlib.Path, os.path.abspath): the parser accepts them or refuses them, it must not return a non-string type
            kws = ["type=%s" % r.choice(["int", "str", "float", "pathlib.Path", "os.path.abspath", "int", "str"]), "required=True"]
        elif shape.startswith("choices-"):
            ms = r.sample(["'alpha'", "'beta'", "'gamma'", "'delta'"], r.randint(2, 4))
            o, c = {"list": "[]", "tuple": "()", "set": "{}"}[shape.split("-")[1]]
            kws = ["choices=%s%s%s" % (o, ", ".join(ms), c)] + (["default=%s" % ms[0]] if r.random() < 0.5 else [])
        elif shape == "append":
            kws = ["type=%s" % r.choice(["int", "str"]), "action='append'"] + (["required=True"] if r.random() < 0.5 else [])
        elif shape == "store_true":
            kws = ["action='store_true'"]
        elif shape == "loads":
            kws = ["type=loads", "default=%s" % r.choice(["None", "'{}'"])]
        elif shape == "nargs":
            kws = ["type=int", "nargs=%s" % r.choice(["'+'", "'*'", "2"])]
        elif shape == "help-default":
            kws = ["type=int", "help='%s'" % r.choice(["the level. Defaults to 3", "a count, defaults to 2", "plain help"])]
        if shape != "help-default" and r.random() < 0.6:
            kws.append("help=%r" % r.choice(["the thing", "a count.", "one, two or three"]))
        lines.append("    argument_parser.add_argument('--%s', %s)" % (n, ", ".join(kws)) if kws else "    argument_parser.add_argument('--%s')" % n)
    ret = r.choice(["    return argument_parser", "    return argument_parser, %s" % r.choice(["None", "'x'", "(1, 2)"])])
    doc = r.choice(['    """\n    Set CLI arguments\n\n    :param argument_parser: argument parser\n    :type argument_parser: ```ArgumentParser```\n\n    :return: argument_parser\n    :rtype: ```ArgumentParser```\n    """',
                    '    """Set CLI arguments"""', ""])
    descr = r.choice(["    argument_parser.description = 'A tool'\n", ""])
    src = "def set_cli_args(argument_parser):\n%s\n%s%s\n%s\n" % (doc, descr, "\n".join(lines), ret)
    return {"src": src, "shapes": sorted(set(shapes.values())), "attrs": [[n, shapes[n]] for n in names]}


def impl_argparse(payload):
    import cdd.class_.parse  # noqa: F401
    import cdd.argparse_function.parse

    try:
        return {"ir": strip_ir(cdd.argparse_function.parse.argparse_ast(ast.parse(payload["src"]).body[0]))}
    except Exception as e:  # noqa
        return {"raises": core.exc_name(e)}


def gen_json_schema(r):
    props = {}
    names = r.sample(["a", "b", "name", "count", "tags", "ref", "mode"], r.randint(1, 5))
    for n in names:
        shape = r.choice(["type", "type", "anyOf1", "anyOfN", "ref", "literal", "array"])
        p = {}
        if shape == "type":
            p["type"] = r.choice(["string", "integer", "number", "boolean", "object", "array"])
        elif shape == "anyOf1":
            p["anyOf"] = [r.choice([{"type": "string"}, {"type": "integer"}, {"$ref": "#/components/schemas/Other"}])]
        elif shape == "anyOfN":
            p["anyOf"] = r.sample([{"type": "string"}, {"type": "integer"}, {"type": "number"}, {"$ref": "#/components/schemas/Other"}], r.randint(2, 3))
        elif shape == "ref":
            p["$ref"] = "#/components/schemas/Other"
        elif shape == "literal":
            p.update({"type": "string", "pattern": r.choice(["alpha|beta", "x_1|b2", "only"])})
        else:
            p.update({"type": "array", "items": {"type": r.choice(["string", "integer"])}})
        if r.random() < 0.7:
            p["description"] = r.choice(["the thing", "a count.", ""])
        if r.random() < 0.3:
            p["default"] = r.choice([0, "x", 1.5, True, None])
        if r.random() < 0.15:
            p["format"] = r.choice(["date-time", "uri"])
        props[n] = p
    sch = {"$id": "https://offscale.io/Foo.schema.json", "$schema": "https://json-schema.org/draft/2020-12/schema", "type": "object", "properties": props,
           "required": r.sample(names, r.randint(0, len(names)))}
    if r.random() < 0.8:
        sch["description"] = r.choice(["A thing.", "A thing.\n\n:return: x\n:rtype: ```int```", ""])
    return sch


def impl_handwritten(case):
    import cdd.class_.parse  # noqa: F401
    import cdd.json_schema.parse
    import cdd.sqlalchemy.parse

    kind, payload = case
    try:
        if kind == "json_schema":
            return {"ir": strip_ir(cdd.json_schema.parse.json_schema(copy.deepcopy(payload)))}
        node = ast.parse(payload["src"]).body[0]
        if payload["form"] == "class":
            return {"ir": strip_ir(cdd.sqlalchemy.parse.sqlalchemy(node))}
        return {"ir": strip_ir(cdd.sqlalchemy.parse.sqlalchemy_table(node))}
    except Exception as e:  # noqa
        return {"raises": core.exc_name(e)}


OPT_NAMES = ("emit_default_doc", "emit_default_prop", "parse_original_whitespace", "infer_type")


def opts_of(k):
    """the k-th of the 16 option combinations of the docstring parser (k = 0b0011 is the default one)"""
    return {n: bool(k >> i & 1) for i, n in enumerate(OPT_NAMES)}


def opts_tag(o):
    return "".join("1" if o[n] else "0" for n in OPT_NAMES)


def impl_docstring(d):
    """d: the docstring (default options) or (docstring, options)"""
    import cdd.class_.parse  # noqa: F401
    from cdd.docstring.parse import docstring as parse

    opts = {}
    if not isinstance(d, str):
        d, opts = d
    try:
        return {"ir": strip_ir(parse(d, **opts))}
    except Exception as e:  # noqa
        return {"raises": core.exc_name(e)}


def strip_ir(ir):
    """JSON-able copy keeping types of values visible"""
    def val(v):
        return v if isinstance(v, (str, int, float, bool, type(None))) else {"__type__": type(v).__name__}

    def ent(p):
        return {k: val(v) for k, v in p.items()} if isinstance(p, dict) else {"__type__": type(p).__name__}
    out = {"name": ir.get("name"), "doc": ir.get("doc"), "params": [[k, ent(v)] for k, v in (ir.get("params") or {}).items()],
           "returns": None if ir.get("returns") is None else [[k, ent(v)] for k, v in ir["returns"].items()]}
    return out


def unstrip(j):
    from collections import OrderedDict

    return {"name": j["name"], "doc": j["doc"], "params": OrderedDict((k, v) for k, v in j["params"]),
            "returns": None if j["returns"] is None else OrderedDict((k, v) for k, v in j["returns"])}


def impl_function(g):
    import cdd.class_.parse  # noqa: F401
    import cdd.function.parse

    mode = g.get("mode", "plain")
    try:
        if mode == "merge_inner_function":
            import textwrap

            cls_src = 'class K(object):\n    """\n    A class.\n    """\n\n    @staticmethod\n' + textwrap.indent(g["src"], "    ")
            return {"ir": strip_ir(cdd.class_.parse.class_(ast.parse(cls_src).body[0], merge_inner_function="f"))}
        kw = {}
        if mode.startswith("function_type="):
            kw["function_type"] = mode.split("=", 1)[1]
        return {"ir": strip_ir(cdd.function.parse.function(ast.parse(g["src"]).body[0], **kw))}
    except Exception as e:  # noqa
        return {"raises": core.exc_name(e)}


def impl_emitted(case):
    """formats whose well-formed inputs are produced by the project's own emitters: emit → render → re-read → parse"""
    from harness.impl import hops

    fmt, ir = case
    try:
        return {"ir": strip_ir(hops.hop(fmt, copy.deepcopy(ir)))}
    except Exception as e:  # noqa
        return {"raises": core.exc_name(e)}


def run(chk: core.Check) -> int:
    chk.lean(MODULE_ALL, THEOREMS + c14gn.THEOREMS + ["C14Iface." + t for t in IFACE] + ["C14SqlJson." + t for t in SQLJSON])
    chk.trusted_base += [
        "theorem: the ReST reference parser of lean/CddVerif/Model/Doc.lean (tied to the real parser by C01's correspondence on emitter images and line-level perturbations); "
        "Properties/C14GN.lean: the same for a character-level port of the Google and NumPy scan/parse phases (Model/DocGN.lean), every text, both styles, tied to the real "
        "_scan_phase/_parse_phase/parse_docstring by exact comparison (results, exception classes) with abstention where literal_eval/float()/prose type inference is not modelled; "
        "the clause 'type parses as a Python expression' is evaluated on the real parsers' outputs only",
        "Properties/C14Iface.lean: names distinct / no leading star / signature completeness / non-empty present types for EVERY input of the class, function and argparse model parsers "
        "(Model/IfaceParse.lean, tied to the real parsers stage by stage by the C02 check), with the docstring layer as a parameter whose answers are assumed well-formed "
        "(that assumption is what C14 / C14GN prove for the docstring models) and CPython's own guarantees (distinct argument names, non-empty annotations) as explicit hypotheses; "
        "Properties/C14SqlJson.lean: the same for the SQLAlchemy and JSON-schema model parsers (Model/Sql.lean, Model/JsonSchema.lean, tied by the C05 / C06 checks); "
        "their negation witnesses (names `*a`, `` from add_argument / Column / property keys) are replayed on the real parsers in every run",
    ]
    rng = chk.rng
    n = 400 if chk.quick else 6000
    # (1) grammar-generated docstrings, three styles
    gens = [gen_docstring(rng) for _ in range(n)]
    res = core.guarded_map(impl_docstring, [g["doc"] for g in gens], 10.0)
    accepted = {}
    for g, r in zip(gens, res):
        ok = bool(r) and "ir" in r
        chk.count(("doc", g["doc"]), ok)
        if not ok:
            continue
        accepted["docstring-" + g["style"]] = accepted.get("docstring-" + g["style"], 0) + 1
        for clause, detail in wf_problems(unstrip(r["ir"])):
            chk.failure({"parser": "docstring", "style": g["style"], "clause": clause, "detail": detail.split(":")[-1] if clause == "typ-unparsable" else None,
                         "has_empty_typ": g["has_empty_typ"] if clause in ("typ-empty", "typ-unparsable") else None},
                        "docstring parser (%s): %s %s" % (g["style"], clause, detail), {"fn": "docstring", "doc": g["doc"]})
    # (1b) the same docstrings under every combination of the parser's options (emit_default_doc, emit_default_prop, parse_original_whitespace, infer_type),
    #      cycled deterministically, plus entries that have a type but no description text
    bare = [":param x:\n:type x: ```int```\n:param y: the y\n", ":type x: ```int```\n", "Summary.\n\n:param x:\n:param y: the y. Defaults to 5\n:type y: ```int```\n:return:\n:rtype: ```int```\n",
            "Summary.\n\nArgs:\n  x (int):\n  y (int): the y. Defaults to 5\n", "Summary.\n\nParameters\n----------\nx : int\ny : int\n    the y. Defaults to 5\n"]
    docs_o = [(g["doc"], opts_of(k % 16), g["style"], g["has_empty_typ"]) for k, g in enumerate(gens)] + [(t, opts_of(k), "handwritten-bare", False) for t in bare for k in range(16)]
    res = core.guarded_map(impl_docstring, [(d, o) for d, o, _, _ in docs_o], 10.0)
    n_acc_o = 0
    for (d, o, style, het), r in zip(docs_o, res):
        ok = bool(r) and "ir" in r
        chk.count(("doc-opts", d, opts_tag(o)), ok)
        if not ok:
            continue
        n_acc_o += 1
        for clause, detail in wf_problems(unstrip(r["ir"])):
            chk.failure({"parser": "docstring", "style": style, "clause": clause, "detail": detail.split(":")[-1] if clause == "typ-unparsable" else None,
                         "has_empty_typ": het if clause in ("typ-empty", "typ-unparsable") else None, "opts": opts_tag(o)},
                        "docstring parser (%s, options %s): %s %s" % (style, o, clause, detail), {"fn": "docstring", "doc": d, "opts": o})
    accepted["docstring-under-16-option-combinations"] = n_acc_o
    # (2) arbitrary text
    base = repo_docstrings()
    texts = ["".join(t) for k in range(3) for t in itertools.product(ALPHABET, repeat=k)] + [mutate(rng, rng.choice(base), ALPHABET) for _ in range(n)]
    texts += [":param : x", ":param *args: x\n:param **kwargs: y", "Args:\n  : x\n", "Parameters\n----------\n : int\n    x\n"]
    res = core.guarded_map(impl_docstring, texts, 10.0)
    for t, r in zip(texts, res):
        ok = bool(r) and "ir" in r
        chk.count(("text", t), ok and bool(r["ir"]["params"]))
        if not ok:
            continue
        accepted["docstring-arbitrary-text"] = accepted.get("docstring-arbitrary-text", 0) + 1
        for clause, detail in wf_problems(unstrip(r["ir"])):
            chk.failure({"parser": "docstring", "style": "arbitrary-text", "clause": clause, "detail": detail.split(":")[-1] if clause == "typ-unparsable" else None},
                        "docstring parser on arbitrary text: %s %s" % (clause, detail), {"fn": "docstring", "doc": t})
    # (3) functions with arbitrary signatures
    fns = [gen_function(rng) for _ in range(n)]
    res = core.guarded_map(impl_function, fns, 10.0)
    for g, r in zip(fns, res):
        ok = bool(r) and "ir" in r
        chk.count(("fn", g["src"]), ok)
        if not ok:
            continue
        accepted["function"] = accepted.get("function", 0) + 1
        for clause, detail in wf_problems(unstrip(r["ir"]), g["sig"]):
            chk.failure({"parser": "function", "clause": clause, "detail": detail if clause == "sig-param-missing" else None, "mode": g["mode"] if detail == "arg" else None},
                        "function parser: %s %s on %s" % (clause, detail, g["src"].split("\n")[0]), {"fn": "function", "g": g})
    # (4) inputs produced by the project's own emitters
    cases = []
    for fmt in ("class", "pydantic", "argparse", "json_schema", "sqlalchemy", "sqlalchemy_table", "sqlalchemy_hybrid"):
        kinds = ("scalar", "optional", "literal") if fmt in ("json_schema", "sqlalchemy", "sqlalchemy_table", "sqlalchemy_hybrid") else None
        for _ in range(n // 8):
            cases.append((fmt, G.gen_ir(rng, nparams=rng.randint(1, 4), kinds=kinds, none_ok=True)))
    res = core.guarded_map(impl_emitted, cases, 20.0)
    for (fmt, ir), r in zip(cases, res):
        ok = bool(r) and "ir" in r
        chk.count((fmt, json.dumps(ir, sort_keys=True, default=repr)), ok)
        if not ok:
            continue
        accepted[fmt] = accepted.get(fmt, 0) + 1
        for clause, detail in wf_problems(unstrip(r["ir"])):
            chk.failure({"parser": fmt, "clause": clause, "detail": detail.split(":")[-1] if clause == "typ-unparsable" else (detail if clause == "extra-keys" else None)},
                        "%s parser: %s %s" % (fmt, clause, detail), {"fn": "emitted", "fmt": fmt, "ir": json.loads(json.dumps(ir, default=repr))})
    # (4b) hand-written SQLAlchemy models and JSON-schemas (keyword spellings and shapes the project's emitters never produce)
    hw = [("sqlalchemy", gen_sqlalchemy(rng)) for _ in range(n)] + [("json_schema", gen_json_schema(rng)) for _ in range(n)]
    res = core.guarded_map(impl_handwritten, hw, 10.0)
    for (kind, payload), r in zip(hw, res):
        ok = bool(r) and "ir" in r
        chk.count((kind, json.dumps(payload, sort_keys=True)), ok)
        if not ok:
            continue
        key = "handwritten-" + (kind if kind == "json_schema" else "sqlalchemy-" + payload["form"])
        accepted[key] = accepted.get(key, 0) + 1
        for clause, detail in wf_problems(unstrip(r["ir"])):
            if clause == "extra-keys":
                # unrecognised Column keywords / schema keywords are copied into the entry verbatim (one root cause); keywords the
                # parsers are meant to CONSUME (primary_key, foreign_key, nullable, required, type, anyOf, ...) are kept apart
                passthrough = {"index", "unique", "autoincrement", "server_default", "onupdate", "format", "items", "enum", "minimum", "maximum"}  # `pattern` is CONSUMED (-> Literal[...]) on the unchanged tree
                ks = set(detail.split(","))
                detail = "passthrough-keyword" if ks <= passthrough else ",".join(sorted(ks - passthrough))
            chk.failure({"parser": key, "clause": clause, "detail": detail.split(":")[-1] if clause == "typ-unparsable" else (detail if clause == "extra-keys" else None)},
                        "%s parser: %s %s" % (key, clause, detail), {"fn": "handwritten", "kind": kind, "payload": payload})
    # (4c) hand-written classes (plain and pydantic-shaped): constant / string / None annotations, bare assignments, calls as values, methods
    cls = [gen_class(rng) for _ in range(n)]
    res = core.guarded_map(impl_class, cls, 10.0)
    for payload, r in zip(cls, res):
        ok = bool(r) and "ir" in r
        chk.count(("class", payload["src"]), ok)
        if not ok:
            continue
        key = "handwritten-" + payload["form"]
        accepted[key] = accepted.get(key, 0) + 1
        by_name = dict(payload["attrs"])
        for clause, detail in wf_problems(unstrip(r["ir"])):
            ent = detail.split(":")[0] if ":" in detail else detail
            chk.failure({"parser": key, "clause": clause, "detail": detail.split(":")[-1] if clause == "typ-unparsable" else (detail if clause == "extra-keys" else None),
                         "attr_shape": by_name.get(ent.replace("param ", "").strip(), by_name.get(ent)), **({"merged_init": True} if payload.get("merge") else {})},
                        "%s parser: %s %s" % (key, clause, detail), {"fn": "class", "payload": payload})
    # (4d) hand-written argparse functions: choices as list / tuple / set display, append, store_true, nargs, loads, defaults in the help text
    aps = [gen_argparse(rng) for _ in range(n)]
    res = core.guarded_map(impl_argparse, aps, 10.0)
    for payload, r in zip(aps, res):
        ok = bool(r) and "ir" in r
        chk.count(("argparse", payload["src"]), ok)
        if not ok:
            continue
        accepted["handwritten-argparse"] = accepted.get("handwritten-argparse", 0) + 1
        by_name = dict(payload["attrs"])
        for clause, detail in wf_problems(unstrip(r["ir"])):
            ent = detail.split(":")[0] if ":" in detail else detail
            chk.failure({"parser": "handwritten-argparse", "clause": clause, "detail": detail.split(":")[-1] if clause == "typ-unparsable" else (detail if clause == "extra-keys" else None),
                         "arg_shape": by_name.get(ent.replace("param ", "").strip(), by_name.get(ent))},
                        "handwritten-argparse parser: %s %s" % (clause, detail), {"fn": "argparse", "payload": payload})
    chk.coverage["accepted_inputs_by_parser"] = accepted
    # (5) the model's witness replayed on the real parser + model/real agreement on WF-relevant structure for ReST texts
    if core.DRIVER.exists():
        rest_texts = [g["doc"] for g in gens if g["style"] == "rest"][:300] + [":param : x", ":param a: x\n:type a: ```int```\n:param b: y"]
        mr = core.model_batch([{"op": "c01.parse", "text": t, "edd": True} for t in rest_texts])
        rr = core.guarded_map(impl_docstring, rest_texts, 10.0)
        n_dis = n_out = 0
        for t, m, r in zip(rest_texts, mr, rr):
            if "outside" in m or not r or "ir" not in r:
                n_out += 1
                continue
            if [k for k, _ in m["ir"]["params"]] != [k for k, _ in r["ir"]["params"]]:
                n_dis += 1
                chk.disagreement("C14 correspondence: parameter names of the ReST parser", {"text": t}, [k for k, _ in r["ir"]["params"]], [k for k, _ in m["ir"]["params"]])
        chk.oblige("correspondence: names/order returned by Doc.parseRest = real parser on %d ReST texts incl. the empty-name witness (%d outside the model)" % (len(rest_texts), n_out),
                   "correspondence", n_dis == 0, "%d disagreements" % n_dis)
    # (5b) negation witnesses of C14Iface / C14SqlJson on the real parsers
    stale = 0
    for w, r in zip(WITNESSES, core.guarded_map(impl_witness, WITNESSES, 10.0)):
        chk.count(("witness", w[0]), True)
        probs = [c for c, _ in wf_problems(unstrip(r["ir"]))] if r and "ir" in r else []
        if w[3] in probs:
            chk.failure({"parser": "witness", "witness": w[0], "clause": w[3]}, "%s: the real parser returns a parameter name that violates %s" % (w[0], w[3]), {"fn": "witness", "id": w[0]})
        else:
            stale += 1
    chk.oblige("negation witnesses of C14Iface / C14SqlJson fail on the real parsers too (%d witnesses)" % len(WITNESSES), "correspondence", stale == 0, "%d witnesses no longer fail" % stale)
    # (6) Google / NumPy parsers: Model/DocGN.lean against the real scan and parse phases (C14GN theorems)
    c14gn.run_gn(chk, rng, core.DRIVER.exists())
    chk.sample({"docstring": gens[0]["doc"], "style": gens[0]["style"]})
    chk.sample({"function": fns[0]["src"]})
    return chk.finish("grammar-generated docstrings (3 styles, sections in any order, raises/notes/usage sections, multi-line descriptions, *args/**kwargs entries, blank types), "
                      "arbitrary text, functions with posonly/*args/kw-only/**kwargs signatures, and classes/pydantic/argparse/JSON-schema/SQLAlchemy inputs produced by the project's own emitters; "
                      "non-trivial = the parser returns")


def replay(path: str) -> int:
    d = json.loads(Path(path).read_text())["replay"]
    if d["fn"] == "docstring":
        r = impl_docstring((d["doc"], d["opts"]) if d.get("opts") else d["doc"])
        sig = None
    elif d["fn"] == "function":
        r = impl_function(d["g"])
        sig = [tuple(x) for x in d["g"]["sig"]]
    elif d["fn"] == "witness":
        w = [x for x in WITNESSES if x[0] == d["id"]][0]
        r = impl_witness(w)
        sig = None
    elif d["fn"] == "handwritten":
        r = impl_handwritten((d["kind"], d["payload"]))
        sig = None
    elif d["fn"] == "class":
        r = impl_class(d["payload"])
        sig = None
    elif d["fn"] == "argparse":
        r = impl_argparse(d["payload"])
        sig = None
    else:
        from collections import OrderedDict

        ir = d["ir"]
        ir["params"] = OrderedDict(ir["params"])
        r = impl_emitted((d["fmt"], ir))
        sig = None
    probs = wf_problems(unstrip(r["ir"]), sig) if "ir" in r else []
    print("replay:", probs or "well-formed")
    return 1 if probs else 0
