"""C03 — any chain of format conversions preserves the interface (DESIGN.md §4 C03)."""
from __future__ import annotations

import itertools
import json
from pathlib import Path

from harness import core
from harness.gen import ir as G
from harness.impl import docir, hops

MODULE = "CddVerif.Properties.C02Rest"  # imports C08Iface, C03Iface;  # imports Properties.C03 (parametric chain theorem) and Properties.C02 (single-hop round trips)
THEOREMS = ["C03.chain_preserves", "C03.chains_commute", "C03.chain_append", "C03.broken_hop_breaks_chain",
            "C03Iface.single", "C03Iface.chain_iface", "C03Iface.chains_commute_iface", "C03Iface.irC_dom"]
FMTS = hops.CHAIN_FORMATS


def gen_ir(r):
    """the common representable domain: scalar, Optional[scalar], Literal[str,..]; signature-legal (suffix) defaults"""
    stable = r.random() < 0.6  # every parameter has a non-None default: the region where the unchanged code keeps all chains
    ir = G.gen_ir(r, nparams=r.randint(1, 4), kinds=("scalar", "scalar", "optional", "literal"), none_ok=not stable, with_return=r.random() < 0.4)
    if stable:
        for n, p in ir["params"].items():
            if "default" not in p:
                d = G.gen_default(r, p["typ"], none_ok=False)
                p["default"] = d if d is not None else 1
    # falsy defaults and Optional with a non-None default are inside the domain
    for n, p in ir["params"].items():
        if "default" in p and r.random() < 0.3:
            base = p["typ"][9:-1] if p["typ"].startswith("Optional[") else p["typ"]
            falsy = {"int": 0, "float": 0.0, "bool": False, "str": ""}.get(base)
            if falsy is not None and falsy != "":
                p["default"] = falsy
    # parameter names with special-looking endings that are ordinary names (only `...kwargs` and `*`-names are special); floats whose repr uses exponent notation
    renames = {}
    for n in list(ir["params"]):
        if r.random() < 0.07:
            renames[n] = r.choice(["extra_args", "model_args", "n_args", "args_list", "my_kwargs_like", "type_", "self_weight", "_seed", "_private_x", "__mangled", "größe", "données_2", "λ"])
    if renames:
        from collections import OrderedDict as _OD

        ir["params"] = _OD((renames.get(n, n) if renames.get(n, n) not in ir["params"] else n, p) for n, p in ir["params"].items())
    for n, p in ir["params"].items():
        if r.random() < 0.06:
            p["typ"], p["default"] = r.choice([("float", 1e+20), ("float", 2.5e+16), ("float", 1e-10), ("Optional[float]", 1e+20), ("float", 123456789.125)])
    # an enumeration may have the empty string among its members (a legal choice), also as the default
    for n, p in ir["params"].items():
        if p["typ"].startswith("Literal[") and r.random() < 0.25:
            p["typ"] = p["typ"][:-1] + ", '']" if r.random() < 0.5 else "Literal['', " + p["typ"][8:]
            if "default" in p and r.random() < 0.4:
                p["default"] = ""
    # parameters without a description (two or more of them, next to documented ones)
    if len(ir["params"]) >= 3 and r.random() < 0.12:
        for n in r.sample(list(ir["params"]), r.randint(2, len(ir["params"]) - 1)):
            ir["params"][n].pop("doc", None)
    # negative numbers (a UnaryOp node in a signature) under scalar and Optional types; True/False under Optional[bool]
    for n, p in ir["params"].items():
        k = r.random()
        if k < 0.08:
            p["typ"], p["default"] = r.choice([("Optional[int]", -1), ("Optional[float]", -0.5), ("int", -7), ("float", -2.5), ("Optional[int]", -12)])
        elif k < 0.13:
            p["typ"], p["default"] = "Optional[bool]", r.choice([True, False])
    # long string defaults (they wrap inside the docstring prose) and complex numbers are scalars of the domain too
    for n, p in ir["params"].items():
        k = r.random()
        if k < 0.12:
            p["typ"] = "str"
            words = ["alpha", "beta", "gamma", "delta", "the", "quick", "brown", "fox", "path", "to", "data"]
            d = "long"
            target = r.randint(40, 90)
            while len(d) < target:
                d += " " + r.choice(words)
            p["default"] = d
        elif k < 0.18:
            p["typ"] = "complex"
            p["default"] = r.choice([2j, 1 + 2j, -3j])
    # prose that mentions, as ordinary words, the section keywords of the other docstring styles (the interface is still an ordinary one)
    if r.random() < 0.12:
        kw = r.choice(KW_PROSE)
        if r.random() < 0.5:
            ir["doc"] = "Build the thing. " + kw
        else:
            ir["params"][r.choice(list(ir["params"]))]["doc"] = kw
    return ir


KW_PROSE = ["what the function Returns: see below", "positional Args: forwarded verbatim", "extra Kwargs: none", "on failure it Raises: nothing", "the Parameters of the model"]


def kw_in_prose(ir):
    texts = [ir.get("doc") or ""] + [p.get("doc") or "" for p in ir["params"].values()]
    return next((k for k in ("Returns:", "Args:", "Kwargs:", "Raises:", "Parameters") if any(k in t for t in texts)), None)


def view3(ir):
    """names, order, types, defaults (descriptions are not part of this property)"""
    v = docir.ir_view(ir)
    return [[n, {"typ": p["typ"], "default": p["default"]}] for n, p in v["params"]]


def impl_tree(case):
    """all chains up to length L from one interface, sharing prefixes: {chain tuple: view | raises}"""
    ir, L, extra, cfg = case
    out = {}
    # two configurations: "doc" — every format also writes the default into its docstring (emit_default_doc=True);
    # "sig" — the default travels through the signature / assignment / add_argument only (the emitters' own default,
    # emit_default_doc=False); the docstring format, which has no other carrier, then writes it and the parser strips the prose
    kw = {} if cfg == "doc" else {"emit_default_doc": False}

    def one(f, cur):
        if cfg == "sig" and f.startswith("docstring-"):
            return hops.hop(f, cur, emit_default_doc=True, parse_default_doc=False)
        return hops.hop(f, cur, **kw)

    state = {(): ir}

    def walk(prefix, cur, depth):
        if depth == 0:
            return
        for f in FMTS:
            key = prefix + (f,)
            try:
                nxt = one(f, cur)
            except Exception as e:  # noqa
                out[key] = {"raises": core.exc_name(e)}
                continue
            out[key] = {"view": view3(nxt)}
            state[key] = nxt
            walk(key, nxt, depth - 1)

    walk((), ir, L)
    for seq in extra:  # sampled longer chains
        cur = ir
        for k, f in enumerate(seq):
            key = tuple(seq[: k + 1])
            if key in out:
                if "raises" in out[key]:
                    break
                cur = state.get(key, cur)
                if key in state:
                    continue
            try:
                cur = one(f, cur)
            except Exception as e:  # noqa
                out[key] = {"raises": core.exc_name(e)}
                break
            out[key] = {"view": view3(cur)}
            state[key] = cur
    return {"|".join(k): v for k, v in out.items()}


def kind(tag):
    return "absent" if tag is None else tag[0]


def typ_class(t):
    if t is None:
        return "absent"
    if t.startswith("Optional["):
        return "Optional"
    if t.startswith("Literal["):
        return "Literal"
    return "scalar" if t in ("int", "float", "str", "bool") else "other"


def compare(chk, ir, tree, cfg="doc"):
    """end-to-end: the view after every chain equals the starting view.  A chain is reported at its FIRST diverging hop
    (the hop after which the view differs from the start while it still agreed before it); what follows is a cascade."""
    start = view3(ir)
    rp_ir = docir.ir_to_model(ir)
    kwp = kw_in_prose(ir)
    if kwp:
        class _MarkedK:  # root-cause marker on every signature of the case: a description mentions a section keyword as prose
            def __init__(self, inner):
                self.inner = inner

            def failure(self, sig, what, replay):
                return self.inner.failure({**sig, "keyword_in_doc": kwp}, what, replay)

            def __getattr__(self, k):
                return getattr(self.inner, k)
        chk = _MarkedK(chk)
    n_chains = 0
    kept = chk.coverage.setdefault("chains_fully_preserved_by_length", {})
    for key in sorted(tree, key=lambda k: (k.count("|"), k)):
        seq = key.split("|")
        after = tree[key]
        before = start if len(seq) == 1 else tree.get("|".join(seq[:-1]), {}).get("view")
        if before is None or before != start:
            continue  # the prefix already diverged (reported there) or raised
        n_chains += 1
        f = seq[-1]
        rp = {"ir": rp_ir, "chain": seq, "cfg": cfg}
        if "raises" in after:
            chk.failure({"hop": f, "field": "raises", "exc": after["raises"]}, "chain %s: hop %s raises %s" % (seq, f, after["raises"]), rp)
            continue
        a, b = start, after["view"]
        if a == b:
            kept[str(len(seq))] = kept.get(str(len(seq)), 0) + 1
        if [x[0] for x in a] != [x[0] for x in b]:
            # root-cause marker: parameters WITHOUT a description are absent from the emitted docstring, merge_params then lists the documented ones first and the
            # others in signature order — exactly that order is the known deviation; any other order is something else
            na, nb = [x[0] for x in a], [x[0] for x in b]
            docd = [n for n in na if (ir["params"].get(n) or {}).get("doc")]
            sig_n = {"hop": f, "field": "names"}
            if len(docd) < len(na) and nb == docd + [n for n in na if n not in docd]:
                sig_n["order"] = "documented-first"
            chk.failure(sig_n, "chain %s: names %s -> %s" % (seq, na, nb), rp)
            continue
        for (n, pa), (_, pb) in zip(a, b):
            if pa["default"] != pb["default"]:
                sig = {"hop": f, "field": "default", "from": kind(pa["default"]), "to": kind(pb["default"]), "typ": typ_class(pa["typ"]), "cfg": cfg}
                if pa["default"] is not None and pa["default"][0] == "str" and len(pa["default"][1]) >= 40:
                    sig["long"] = True
                if not (ir["params"].get(n) or {}).get("doc"):
                    sig["no_doc"] = True  # root cause: an entry without description carries its default nowhere when the default prose is not kept
                if pa["default"] is not None and pa["default"][0] == "str" and pa["default"][1] == "":
                    sig["empty_str"] = True  # root cause: "Defaults to " + '' announces nothing, so the docstring carries no default
                chk.failure(sig, "chain %s: %s.default %r -> %r (type %r)" % (seq, n, pa["default"], pb["default"], pa["typ"]), rp)
            elif pa["typ"] != pb["typ"]:
                chk.failure({"hop": f, "field": "typ", "from": typ_class(pa["typ"]), "to": typ_class(pb["typ"]), "default": kind(pa["default"])},
                            "chain %s: %s.typ %r -> %r (default %r)" % (seq, n, pa["typ"], pb["typ"], pa["default"]), rp)
    return n_chains


def run(chk: core.Check) -> int:
    chk.lean(MODULE, THEOREMS + ["C08Iface.hop_keeps_inD02", "C08Iface.closed_of_stable", "C08Iface.chain_iface_stable", "C08Iface.closure_fails",
                                 "C02Rest.C03Rest_closed", "C02Rest.C03Rest_docLayerStable", "C02Rest.C03Rest_chain", "C02Rest.C03Rest_commute", "C02Rest.irE_domR"])
    chk.trusted_base.append("closure of the region under hops: reduced to the docstring layer (C08Iface.hop_keeps_inD02 proved, residue DocLayerStable shown necessary by closure_fails) and DISCHARGED for the "
                            "concrete ReST layer on the region DomR (C02Rest.C03Rest_closed, C03Rest_chain: every chain of class / pydantic / function / argparse hops of any length succeeds, preserves the view and "
                            "stays in DomR; only hypothesis: pyExpr rejects code-quoted text); DomR forces ReST, emit_default_doc=False, no return entry; docstring / JSON-schema / SQLAlchemy hops are evaluated only")
    chk.trusted_base += [
        "the chain theorem is parametric: its premises (each hop keeps names/order/types/defaults and stays in the domain) are the per-format round trips of C01/C02; "
        "for class/pydantic/function/argparse the single-hop premise is proved from the C02 theorems over the emitter/parser model (C03Iface.single, chain_iface: any chain length); "
        "the closure of the region under hops (what the docstring layer, a parameter of that model, answers for the next docstring) stays a hypothesis; "
        "on the real code both are evaluated on the emit -> render -> re-read -> parse pipeline after every hop of every chain",
        "the C02 model (lean/CddVerif/Model/Iface*.lean) is tied to the code by the C02 check's stage-wise correspondence, not by this check",
    ]
    rng = chk.rng
    n = 110 if chk.quick else 700
    cases = []
    for _ in range(n):
        extra = [[rng.choice(FMTS) for _ in range(rng.choice([4, 5]))] for _ in range(4 if chk.quick else 12)]
        cases.append((gen_ir(rng), 3, extra, "doc" if len(cases) % 2 == 0 else "sig"))
    trees = core.guarded_map(impl_tree, cases, 120.0, max_timeouts=2)
    total = 0
    for (ir, _, _, cfg), tree in zip(cases, trees):
        if not isinstance(tree, dict) or tree.get("timeout") or tree.get("skipped"):
            if isinstance(tree, dict) and tree.get("timeout"):
                chk.failure({"field": "timeout"}, "chain conversion does not terminate", {"ir": docir.ir_to_model(ir)})
            continue
        k = compare(chk, ir, tree, cfg)
        total += k
        for key in tree:
            chk.count((json.dumps(docir.ir_to_model(ir), sort_keys=True), key, cfg), key.count("|") >= 1)
    chk.coverage["chains_evaluated"] = total
    chk.coverage["exhaustive_part"] = "all %d chains of length <= 3 over %s for each interface; plus sampled chains of length 4-5" % (sum(len(FMTS) ** k for k in (1, 2, 3)), list(FMTS))
    t0 = trees[0] if isinstance(trees[0], dict) else {}
    chk.sample({"interface": docir.ir_to_model(cases[0][0]), "chain": "class|function|argparse", "view_after": t0.get("class|function|argparse")})
    return chk.finish("interfaces of the common domain (scalar / Optional[scalar] / Literal[str..], suffix defaults incl. falsy ones and None) x every chain of length <= 3 over 5 formats "
                      "(exhaustive) + sampled length 4-5; non-trivial = chains of length >= 2")


def replay(path: str) -> int:
    d = json.loads(Path(path).read_text())["replay"]
    from collections import OrderedDict

    ir = {"name": "F", "doc": d["ir"]["doc"], "type": "static",
          "params": OrderedDict((n, {k: (docir.from_tag(v) if k == "default" else v) for k, v in p.items() if v is not None}) for n, p in d["ir"]["params"]),
          "returns": None if d["ir"]["returns"] is None else OrderedDict([("return_type", {k: (docir.from_tag(v) if k == "default" else v) for k, v in d["ir"]["returns"].items() if v is not None})])}
    cur, start = ir, view3(ir)
    cfg = d.get("cfg", "doc")
    for f in d.get("chain", []):
        try:
            if cfg == "sig":
                cur = hops.hop(f, cur, emit_default_doc=True, parse_default_doc=False) if f.startswith("docstring-") else hops.hop(f, cur, emit_default_doc=False)
            else:
                cur = hops.hop(f, cur)
        except Exception as e:  # noqa
            print("replay: hop %s raises %s" % (f, core.exc_name(e)))
            return 1
    end = view3(cur)
    print("replay: chain", d.get("chain"), "preserves the interface" if end == start else "CHANGES the interface:\n  %s\n  %s" % (start, end))
    return 0 if end == start else 1
