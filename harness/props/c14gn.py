"""C14, Google / NumPy docstring parser — model correspondence (lean/CddVerif/Model/DocGN.lean) and the C14 oracle on the real outputs.

Not a property check of its own: `harness/props/c14.py : run` calls `run_gn(chk, chk.rng, core.DRIVER.exists())`.
Theorems: `MODULE` (CddVerif.Properties.C14GN, which imports Properties/C14.lean, so one `chk.lean(c14gn.MODULE, THEOREMS + c14gn.THEOREMS)`
audits both theorem sets).
"""
from __future__ import annotations

import copy
import json
import warnings

from harness import core
from harness.gen import ir as G
from harness.impl import docir

MODULE = "CddVerif.Properties.C14GN"
THEOREMS = ["C14GN.parseGN_wf", "C14GN.parseDocstring_wf", "C14GN.parsePhase_wf", "C14GN.shape_by_construction", "C14GN.units_nonempty", "C14GN.star_names_merge",
            "C14GN.dup_last_wins", "C14GN.empty_name_google", "C14GN.empty_name_numpydoc", "C14GN.empty_typ_google", "C14GN.empty_typ_numpydoc", "C14GN.optional_empty_google",
            "C14GN.C14GN_full_false", "C14GN.colonless_entry_truncates", "DocGN.sntName_no_star", "DocGN.dictInsert_keys", "DocGN.dictInsert_nodup", "DocGN.dictInsert_lookup",
            "DocGN.foldParams_wf", "DocGN.scanPhase_args_ne"]
GN = ("google", "numpydoc")

# ---------------------------------------------------------------------------------------------------------------
# hand-written renderers (independent of cdd's emitter)
# ---------------------------------------------------------------------------------------------------------------
NAMES = ["a", "b", "foo", "bar_baz", "x1", "dataset_name", "K", "as_numpy", "lr", "epochs", "alpha", "n_items", "path_to", "verbose_flag", "_private", "kwargs", "my_kwargs"]
# free of the words `parse_adhoc_doc_for_typ` reacts to …
DOCS = ["the alpha thing", "dataset name", "learning rate used", "a thing", "some text here", "flag for verbosity", "batch count here", "Random seed",
        "the size (in items)", "weights: one per layer", "x", "Optional scaling applied first", "(Optional) extra offset",
        "the value, see section 2.3 for details", "first axis. Second sentence here", "tolerance; lower is stricter"]
# … and descriptions that make it propose a type (evaluated by `eval`; the model follows only whitelisted proposals)
DOCS_TRIGGER = ["whether to shuffle", "number of passes", "path to the file", "a string or None", "list of names", "either `a` or `b`", "True if verbose", "ratio a/b kept as is",
                "a dictionary of options", "the filename", "integer count", "called at every step"]
# types that are Python expressions (after the parser's own rewriting of `, optional` / ` or `), `None` = no type written, "" = empty type
TYPES = [None, None, "", "int", "float", "str", "bool", "Optional[int]", "Optional[str]", "List[str]", "Dict[str, int]", "Union[int, str]", "np.ndarray", "tf.data.Dataset",
         "Callable[[int], int]", "Tuple[int, ...]", "Literal['a', 'b']", "int, optional", "str, optional", "int or None", "str or int or float", "complex",
         "dict", "tuple", "object", "Any", 'Literal["x y", "z"]', "torch.Tensor", "Iterator[int]"]
# what people write instead (only in the malformed stream: the parser passes the text through)
TYPES_PROSE = ["list of int", "array-like", "int > 0", "{'a', 'b'}", "str (path)", "callable(x) -> y", "Union[int,\n      str]", "int:", "a b"]
DEFAULTS = ["5", "-3", "0", "42", "3.14", "-2.5", "0.001", "True", "False", '"foo"', "'a b'", "mnist", "None", "7", "1", "2.0", "'x'", "foo.bar", "~/data"]
DEFAULTS_EXOTIC = ["```None```", "```(None)```", "```np.zeros(3)```", "1e5", "10.", "(1, 2)", "[1, 2]", "{'a': 1}", "1_000", "+7", "inf", "", "a*b", "lambda x: x", "0j"]
ANNOUNCE = ["Defaults to {}", "Defaults to {}", "defaults to {}", "Default value is {}", "Default: {}", "Defaults to {}.", "Defaults to {}. More text here", "default is {}",
            "Defaults to\n{}", "defaults to {}, and then some"]
HEADERS = ["", "Summary line.", "Summary line.\n\nLonger description here.", "One\nTwo\nThree", "Does a thing: the thing.", "   "]
EXTRA = {
    "google": ["Raises:\n  ValueError: when the input is bad", "Note:\n  Remember this.", "Example:\n  >>> f(1)\n  2", "Yields:\n  int: the next one", "Kwargs:\n  z (int): zed", "Trailing prose.",
               "Usage notes\nover two lines"],
    "numpydoc": ["Raises\n------\nValueError\n    when the input is bad", "Notes\n-----\nRemember this.", "Examples\n--------\n>>> f(1)\n2", "See Also\n--------\nother : thing", "Trailing prose.",
                 "Usage notes\nover two lines"],
}


def gen_desc(r):
    d = r.choice(DOCS_TRIGGER) if r.random() < 0.1 else r.choice(DOCS)
    if r.random() < 0.4:
        ann = "(defaults to {})" if r.random() < 0.03 else r.choice(ANNOUNCE)
        d += (" " if d[-1] in ".," else ". ") + ann.format(r.choice(DEFAULTS_EXOTIC) if r.random() < 0.12 else r.choice(DEFAULTS))
    return d


def gen_entries(r):
    n = r.choice([0, 1, 1, 2, 2, 3, 3, 4, 5])
    names = r.sample(NAMES, n)
    if r.random() < 0.25:
        names.insert(r.randint(0, len(names)), "*args")
    if r.random() < 0.25:
        names.append(r.choice(["**kwargs", "**kw", "***weird"]))
    if names and r.random() < 0.08:
        names.append(r.choice(names))  # duplicate name
    if r.random() < 0.04:
        names.append("args")  # collides with *args after the star is removed
    ents = []
    for nm in names:
        e = {"name": nm, "typ": r.choice(TYPES), "doc": gen_desc(r) if r.random() < 0.92 else "", "more": []}
        if r.random() < 0.25:
            e["more"] = r.sample(["continued on a second line", "and a third", "Defaults to 9", "", "with: a colon", "final words."], r.randint(1, 3))
        if r.random() < 0.05:
            e["pytorch"] = r.choice(["{'mean', 'sum'}", "{'a'}", "{x, 'it''s', \"q\"}", "{}", "{a}", "{ab}"])
        ents.append(e)
    return ents


def gen_return(r, style):
    if r.random() < 0.4:
        return None
    # a NumPy return entry always has a type line; in Google style it may be missing
    return {"typ": r.choice([t for t in TYPES if t is not None] + ([None] * 6 if style == "google" else [])), "doc": gen_desc(r) if r.random() < 0.9 else "",
            "more": r.sample(["computed on the validation split", "and averaged over the folds", "", "unless told otherwise."], r.randint(1, 3)) if r.random() < 0.3 else []}


def render_google(r, ents, ret, ind=2, cont=4):
    out = []
    if ents:
        out.append("Args:")
        for e in ents:
            head = " " * ind + e["name"] + ("" if e["typ"] is None else " (%s)" % e["typ"]) + ":"
            first = (e.get("pytorch") or e["doc"]).replace("\n", "\n" + " " * (ind + cont))  # a description over two lines stays inside its entry
            out.append(head + (" " + first if first else ""))
            out += [(" " * (ind + cont) + m) if m else "" for m in e["more"]]
    sec_ret = []
    if ret is not None:
        sec_ret.append("Returns:")
        if ret["typ"] is None:
            sec_ret.append(" " * ind + (ret["doc"] or "the result").replace("\n", "\n" + " " * ind))
        else:
            sec_ret.append(" " * ind + ret["typ"] + ":" + (" " + ret["doc"].replace("\n", "\n" + " " * (ind + 1)) if ret["doc"] and r.random() < 0.5 else ""))
            if sec_ret[-1].endswith(":") and ret["doc"]:
                sec_ret.append(" " * (ind + 1) + ret["doc"].replace("\n", "\n" + " " * (ind + 1)))
        sec_ret += [(" " * (ind + cont) + m) if m else "" for m in ret["more"]]
    return "\n".join(out), "\n".join(sec_ret)


def render_numpy(r, ents, ret, cont=4):
    out = []
    if ents:
        out += ["Parameters", "----------"]
        for e in ents:
            out.append(e["name"] + ("" if e["typ"] is None else " : " + e["typ"]))
            if e["doc"]:
                out.append(" " * cont + e["doc"].replace("\n", "\n" + " " * cont))
            out += [(" " * cont + m) if m else "" for m in e["more"]]
    sec_ret = []
    if ret is not None:
        sec_ret += ["Returns", "-------"]
        sec_ret.append(ret["typ"] or "object")
        if ret["doc"]:
            sec_ret.append(" " * cont + ret["doc"].replace("\n", "\n" + " " * cont))
        sec_ret += [(" " * cont + m) if m else "" for m in ret["more"]]
    return "\n".join(out), "\n".join(sec_ret)


def gen_structured(r):
    style = r.choice(GN)
    ents, ret = gen_entries(r), gen_return(r, style)
    if style == "google":
        a, b = render_google(r, ents, ret, ind=r.choice([2, 2, 4, 1]), cont=r.choice([2, 4]))
    else:
        a, b = render_numpy(r, ents, ret, cont=r.choice([4, 4, 2, 8]))
    secs = [s for s in (a, b) if s]
    extra = r.sample(EXTRA[style], r.choice([0, 0, 0, 1, 1, 2]))
    shuffled = False
    if r.random() < 0.25:
        secs = secs[::-1]
        shuffled = True
    for x in extra:
        secs.insert(r.randint(0, len(secs)), x)
    blocks = [b_ for b_ in [r.choice(HEADERS)] + secs if b_]
    d = r.choice(["\n\n", "\n\n", "\n\n", "\n"]).join(blocks) if r.random() < 0.9 else "\n\n".join(blocks[:1]) + "".join("\n" + s for s in blocks[1:])
    d += r.choice(["", "", "\n", "\n\n"])
    indent = r.choice([0, 0, 4, 8])
    if indent:
        d = "\n" + "\n".join((" " * indent + l) if l else l for l in d.split("\n")) + r.choice(["", "\n" + " " * indent])
    return {"doc": d, "style": style, "stream": "structured", "shuffled": shuffled, "indent": indent,
            "has_empty_typ": any(e["typ"] == "" for e in ents) or bool(ret and ret["typ"] == ""),
            "has_star": any(e["name"].startswith("*") for e in ents)}


# ---------------------------------------------------------------------------------------------------------------
# malformed / perturbed stream
# ---------------------------------------------------------------------------------------------------------------
TOKENS = [":", ":", "(", ")", "{", "}", " or ", "*", "**", "Args:", "Returns:", "Returns", "-------", "Parameters", "----------", "Defaults to ", ".", "'", " ", "\t", "\n", "\n\n",
          "kwargs", "Raises:", ", optional", "Optional", "None", "\r\n", "\x0c", "\x0b", "\x1c", "\r", "x", "5"]


def perturb(r, d):
    lines = d.split("\n")
    k = r.randint(0, 18)
    if not lines:
        return d
    i = r.randrange(len(lines))
    if k == 0:  # missing blank line
        blanks = [j for j, l in enumerate(lines) if not l.strip()]
        if blanks:
            del lines[r.choice(blanks)]
    elif k == 1:  # wrong indentation
        lines[i] = " " * r.randint(0, 6) + lines[i].lstrip()
    elif k == 2:  # tab indentation
        n = len(lines[i]) - len(lines[i].lstrip(" "))
        lines[i] = "\t" * max(1, n // 4) + lines[i].lstrip(" ")
    elif k == 3:  # missing colon
        lines[i] = lines[i].replace(":", "", 1)
    elif k == 4:  # duplicate a line (duplicate names)
        lines.insert(r.randint(0, len(lines)), lines[i])
    elif k == 5:  # swap two lines
        j = r.randrange(len(lines))
        lines[i], lines[j] = lines[j], lines[i]
    elif k == 6:  # truncate
        s = "\n".join(lines)
        return s[: r.randint(0, len(s))]
    elif k == 7:  # trailing whitespace / whitespace-only line
        if r.random() < 0.5:
            lines[i] = lines[i] + r.choice([" ", "   ", "\t"])
        else:
            lines.insert(i, r.choice([" ", "    ", "        ", "\t"]))
    elif k == 8:  # a section token at a random place
        tok = r.choice([["Returns:"], ["Returns", "-------"], ["Args:"], ["Parameters", "----------"], ["  Returns:"], ["Returns: int"], ["Returns"]])
        lines[i:i] = tok
    elif k == 9:  # other line terminators
        s = "\n".join(lines)
        t = r.choice(["\r\n", "\r", "\x0c", "\x0b", "\x1c", "\x1d", "\x1e"])
        if r.random() < 0.5:
            return s.replace("\n", t)
        p = [j for j, ch in enumerate(s) if ch == "\n"]
        if p:
            j = r.choice(p)
            return s[:j] + t + s[j + 1:]
    elif k == 10:  # dedent everything / one more level
        if r.random() < 0.5:
            lines = [l.lstrip(" ") if r.random() < 0.8 else l for l in lines]
        else:
            lines = ["  " + l if l else l for l in lines]
    elif k == 11:  # delete a line
        del lines[i]
    elif k == 14:  # blanks around a delimiter: `a ( int ) : x`, `int :`
        s = "\n".join(lines)
        p = [j for j, ch in enumerate(s) if ch in "():"]
        if p:
            j = r.choice(p)
            pad = r.choice([" ", "  ", "\t"])
            return s[:j] + pad + s[j:] if r.random() < 0.5 else s[:j + 1] + pad + s[j + 1:]
    elif k == 15:  # a parameter section without entries (the header directly followed by the next section)
        s = "\n".join(lines)
        for head, nxt in (("Parameters\n----------\n", "Returns\n-------"), ("Args:\n", "Returns:")):
            if head in s:
                a, b = s.split(head, 1)
                return a + head + (nxt + b.split(nxt, 1)[1] if nxt in b and r.random() < 0.7 else "")
    elif k == 12:  # a type in prose instead of a Python expression
        s = "\n".join(lines)
        for t in r.sample(TYPES, len(TYPES)):
            if t and ("(%s)" % t in s or " : %s\n" % t in s or "\n%s\n" % t in s):
                return s.replace(t, r.choice(TYPES_PROSE), 1)
    elif k == 13:  # a NumPy return entry without its type line / a description that triggers the prose type inference
        s = "\n".join(lines)
        if "-------\n" in s and r.random() < 0.5:
            a, b = s.split("-------\n", 1)
            return a + "-------\n" + b.split("\n", 1)[-1]
        for dd in r.sample(DOCS, len(DOCS)):
            if dd in s:
                return s.replace(dd, r.choice(DOCS_TRIGGER), 1)
    else:  # insert a token at a random character position
        s = "\n".join(lines)
        p = r.randint(0, len(s))
        return s[:p] + r.choice(TOKENS) + s[p:]
    return "\n".join(lines)


HANDPICKED = [
    "Parameters\n----------\nReturns\n-------\nint\n    x", "Parameters\n----------\nReturns\n-------\nint\n    x\n\nfoo", "S\n\nParameters\n----------\n\nReturns\n-------\nint\n    x",
    "Args:\n  a ( int ): x", "Args:\n  a (int ) : x\n\nReturns:\n  int :\n    d", "Args:\n  a: x\n\nReturns:\n  int\t:\n   d\n", "Parameters\n----------\na :  int \n    x",
    "Args:\n  : x\n", "Parameters\n----------\n : int\n    x\n", "Args:\n  :", "Parameters\n----------\n : int", "Args:\n  foo (): x", "Parameters\n----------\nb : \n    x",
    "Args:\n  a (int): x. Defaults to 5\n  *args (): y", "Args:\n  a: x\n  nocolon\n  c: z", "Args:\n  *args: x\n  args: y\n  **args: z", "Args:", "Args:\n", "Returns:", "Returns:\n",
    "Returns:\n  int: x", "Returns:\n  x", "Parameters\n----------", "Returns\n-------", "Returns\n-------\nint", "Returns\n-------\nint\n    x", "Parameters\n----------\na\nReturns\n-------\nint\n  x",
    "Parameters\n----------\na : int\n  x\n\nb : int\n  y\nReturns\n-------\nint\n  x", "Args:\n  a: x\n\nReturns:\n  int:\n   d\n", "Args:\n  a: x\n\nReturns:\n  int:\n   d\n   e\n  f\n",
    "  Args:\n    a: x\n  Returns:\n    int: y\n  ", "Args:\n  a: x\n\nfoo\nReturns: y\nz\n \nw", "Parameters\n----------\n  a : int\n    x\nfoo\nReturns\nz", "Args:\n  a (int: x", "Args:\n  a (int) : x",
    "Args:\n  a (int or str): {'p', 'q'}\n    more", "Args:\n  a (str): {'p'}", "Args:\n  a: x\n  Note:\n  b: y", "Args:\n a: x\n\nReturns:\n" + "\n".join(" l%d" % i for i in range(9)),
    "Returns:\n" + "\n".join("l%d" % i for i in range(9)), "Returns:\n" + "\n".join("l%d" % i for i in range(7)), "x Args: y", "Args:Returns:", "Parameters\n----------Returns\n-------",
    "Args:\n  a: b\n\n:\n", "Args:\n  a: x\n\n\n  b: y", "Args:\n  kwargs: x. Defaults to None", "Args:\n  a (int): x. Defaults to None\n  b (str): y\n  c (complex): z\n  d (float): w\n  e (bool): v",
    "Parameters\n----------\n*args : \n    x\n**kwargs : dict\n    y. Defaults to {}", "Args:\n  a (int, optional): x", "Args:\n  a (, optional): x", "Args:\n  a: Optional thing", "Args:\n  a (str): Defaults to 'x'",
]


SOUP = ["Args:", "Returns:", "Parameters\n----------", "Returns\n-------", "Returns", "-------", "\n", "\n", "\n", "\n\n", " ", "  ", "    ", "\t", ":", ":", "(", ")", "int", "a", "b", "x y", "*", "**",
        "kwargs", "Defaults to ", "5", ".", "{", "}", "'", " or ", "Raises:", "Kwargs:", ":param", ", optional", "Optional", "None", "\r", "\x0c", " : ", "-", "----------", "Parameters", "foo (int): bar",
        "foo : int", "Note:", "\n  ", "\n    "]


def gen_soup(r):
    d = "".join(r.choice(SOUP) for _ in range(r.randint(1, 14)))
    return {"doc": d, "style": "google" if ("Args:" in d or "Returns:" in d) else "numpydoc", "stream": "soup"}


# the witnesses of the `∃`-theorems of Properties/C14GN.lean, with what the theorem says about the result (checked on the REAL parser)
WITNESSES = [
    ("empty_name_google", "Args:\n  : x", True, lambda v: "" in [n for n, _ in v["params"]]),
    ("empty_name_numpydoc", "Parameters\n----------\n : int\n    x", True, lambda v: "" in [n for n, _ in v["params"]]),
    ("empty_typ_google", "Args:\n  foo (): x", True, lambda v: any(a["typ"] == "" for _, a in v["params"])),
    ("empty_typ_numpydoc", "Parameters\n----------\nb : \n    x", True, lambda v: any(a["typ"] == "" for _, a in v["params"])),
    ("optional_empty_google", "Args:\n  a (int): x. Defaults to 5\n  *args (): y", True, lambda v: any(a["typ"] == "Optional[]" for _, a in v["params"])),
    ("colonless_entry_truncates", "Args:\n  a: x\n  nocolon\n  c: z", True, lambda v: [n for n, _ in v["params"]] == ["a"]),
    ("star_names_merge", "Args:\n  *args: x\n  b: w\n  args: y\n  **args: z", True, lambda v: [n for n, _ in v["params"]] == ["args", "b"] and dict(v["params"])["args"]["doc"] == "z"),
]


def gen_malformed(r, base):
    g = r.choice(base)
    d = g["doc"]
    for _ in range(r.choice([1, 1, 2, 3])):
        d = perturb(r, d)
    if r.random() < 0.03:
        d = d.replace(" ", r.choice(["\u00a0", "\u2003", "\u2028"]), 1) if r.random() < 0.7 else d + " caf\u00e9"
    return {"doc": d, "style": g["style"], "stream": "malformed"}


# ---------------------------------------------------------------------------------------------------------------
# the real code
# ---------------------------------------------------------------------------------------------------------------
def canon_scanned(sc, style):
    from cdd.shared.docstring_utils import ARG_TOKENS, RETURN_TOKENS

    a, rt = getattr(ARG_TOKENS, style)[0], getattr(RETURN_TOKENS, style)[0]
    out = {"doc": sc.get("doc"), "args": sc.get(a), "returns": sc.get(rt), "afterward": sc.get("scanned_afterward")}
    extra = sorted(set(sc) - {"doc", a, rt, "scanned_afterward"})
    if extra:
        out["extra_keys"] = extra
    return json.loads(json.dumps(out))


def real_keys(stripped):
    """the keys actually present in every entry of a real result (`strip_ir` form)"""
    rt = stripped.get("returns")
    return {"params": [[k, sorted(v)] for k, v in stripped["params"]], "returns": None if rt is None else [[k, sorted(v)] for k, v in rt]}


def model_keys(view):
    """the fields the model result carries: entries are typ / doc / default and nothing else; one return entry called return_type"""
    def present(a):
        return sorted(k for k, v in a.items() if v is not None)
    return {"params": [[k, present(a)] for k, a in view["params"]], "returns": None if view["returns"] is None else [["return_type", present(view["returns"])]]}


def impl_emit(case):
    """the real emitter's docstring for a generated interface"""
    import cdd.class_.parse  # noqa: F401
    import cdd.docstring.emit as E

    ir, style, et, ww, edd = case
    try:
        return E.docstring(copy.deepcopy(ir), docstring_format=style, emit_types=et, word_wrap=ww, emit_default_doc=edd)
    except Exception as e:  # noqa
        return None


def impl_gn(case):
    """text, emit_default_doc, forced style (or None: the style is derived, the public entry point is called)"""
    import cdd.class_.parse  # noqa: F401
    from cdd.docstring.parse import docstring
    from cdd.shared import docstring_parsers as DP
    from cdd.shared.docstring_utils import Style, derive_docstring_format
    from harness.props.c14 import strip_ir

    text, edd, forced = case
    out = {"style": derive_docstring_format(text).name}
    sname = forced or out["style"]
    if sname not in GN:
        return out
    try:
        out["scanned"] = canon_scanned(DP._scan_phase(text, style=Style[sname]), sname)
    except Exception as e:  # noqa
        out["scan_raises"] = type(e).__name__
    try:
        if forced is None:
            ir = docstring(text, emit_default_doc=edd)
        else:
            from collections import OrderedDict

            ir = {"name": None, "type": "static", "doc": "", "params": OrderedDict(), "returns": None}
            if text:
                DP._parse_phase(ir, DP._scan_phase(text, style=Style[sname]), default_search_announce=None, emit_default_doc=edd, emit_default_prop=True,
                                infer_type=False, parse_original_whitespace=False, style=Style[sname], word_wrap=True)
        out["view"] = json.loads(json.dumps(docir.ir_view(ir)))
        out["ir"] = strip_ir(ir)
    except Exception as e:  # noqa
        out["raises"] = type(e).__name__
    return out


# ---------------------------------------------------------------------------------------------------------------
# the stream + comparison + oracle
# ---------------------------------------------------------------------------------------------------------------
def run_gn(chk: core.Check, rng, have_driver: bool) -> None:
    from harness.props import c14

    n = 1400 if chk.quick else 12000
    structured = [gen_structured(rng) for _ in range(n)]
    # the real emitter's output for generated interfaces
    ecases = []
    for _ in range(n // 2):
        ir = G.gen_ir(rng, nparams=rng.randint(0, 5), none_ok=True)
        if rng.random() < 0.2:
            ir["params"]["*args"] = {"typ": "tuple", "doc": "extra positional things"}
        if rng.random() < 0.2:
            ir["params"]["**kwargs"] = {"typ": "dict", "doc": "extra keyword things"}
        for p in ir["params"].values():
            if rng.random() < 0.15:
                p.pop("typ", None)
            if rng.random() < 0.1:
                p.pop("doc", None)
        ecases.append((ir, rng.choice(GN), rng.random() < 0.8, rng.random() < 0.5, rng.random() < 0.7))
    emitted = [{"doc": ds, "style": c[1], "stream": "emitted"} for c, ds in zip(ecases, core.pmap(impl_emit, ecases)) if isinstance(ds, str)]
    base = structured + emitted
    malformed = [gen_malformed(rng, base) for _ in range(n)] + [{"doc": t, "style": "google" if ("Args:" in t or "Returns:" in t) else "numpydoc", "stream": "malformed"} for t in HANDPICKED + [w[1] for w in WITNESSES]]
    soup = [gen_soup(rng) for _ in range(n // 2)]
    gens = structured + emitted + malformed + soup
    cases = []
    for g in gens:
        edd = rng.random() < 0.6
        cases.append((g, (g["doc"], edd, None)))
        if rng.random() < 0.12:  # the other style forced through _scan_phase / _parse_phase (the theorems quantify over both styles for every text)
            cases.append((g, (g["doc"], edd, rng.choice(GN))))
    real = core.guarded_map(impl_gn, [c for _, c in cases], 10.0)
    # ---- the C14 oracle on the real outputs -------------------------------------------------------------------------
    accepted = {}
    for (g, (text, edd, forced)), r in zip(cases, real):
        ok = isinstance(r, dict) and "ir" in r
        chk.count(("gn", text, edd, forced), ok and bool(r["ir"]["params"] or r["ir"]["returns"]))
        if not ok:
            if isinstance(r, dict) and r.get("timeout"):
                chk.failure({"parser": "docstring", "style": g["style"], "clause": "timeout"}, "docstring parser does not return", {"fn": "docstring", "doc": text})
            continue
        style = g["style"] if g["stream"] in ("structured", "emitted") and forced is None else "arbitrary-text"
        accepted["docstring-gn-" + g["stream"]] = accepted.get("docstring-gn-" + g["stream"], 0) + 1
        with warnings.catch_warnings():
            warnings.simplefilter("ignore", SyntaxWarning)  # ast.parse of odd type strings
            problems = c14.wf_problems(c14.unstrip(r["ir"]))
        for clause, detail in problems:
            sig = {"parser": "docstring", "style": style, "clause": clause, "detail": detail.split(":")[-1] if clause == "typ-unparsable" else None}
            if style != "arbitrary-text":
                sig["has_empty_typ"] = g.get("has_empty_typ") if clause in ("typ-empty", "typ-unparsable") else None
            chk.failure(sig, "docstring parser (%s, %s stream): %s %s" % (style, g["stream"], clause, detail), {"fn": "docstring", "doc": text})
    chk.coverage.setdefault("accepted_inputs_by_parser", {}).update(accepted)
    # ---- the theorems' witnesses on the real parser --------------------------------------------------------------------
    wres = core.guarded_map(impl_gn, [(t, edd, None) for _, t, edd, _ in WITNESSES], 10.0)
    bad = [nm for (nm, _, _, pred), r in zip(WITNESSES, wres) if not isinstance(r, dict) or "view" not in r or not pred(r["view"])]
    chk.oblige("witness replay: the %d concrete texts of the ∃-theorems of Properties/C14GN.lean behave on the real parser as the theorems say" % len(WITNESSES),
               "correspondence", not bad, "differs on: %s" % bad)
    if not have_driver:
        return
    # ---- correspondence with the model -------------------------------------------------------------------------------
    reqs, owner = [], []
    for k, ((g, (text, edd, forced)), r) in enumerate(zip(cases, real)):
        if not isinstance(r, dict) or "style" not in r:
            continue
        reqs.append({"op": "c14gn.style", "text": text})
        owner.append((k, "style"))
        sname = forced or r["style"]
        if sname in GN:
            reqs.append({"op": "c14gn.scan", "text": text, "style": sname})
            owner.append((k, "scan"))
            q = {"op": "c14gn.parse", "text": text, "edd": edd}
            if forced is not None:
                q["style"] = forced
            reqs.append(q)
            owner.append((k, "parse"))
    ans = core.model_batch(reqs)
    stat = {"cases": 0, "style": {"agree": 0}, "scan": {"agree": 0, "raises_agree": 0}, "parse": {"agree": 0, "raises_agree": 0, "abstain": {}},
            "by_stream": {}, "rest_style_skipped": 0, "forced_style": 0}
    n_dis = {"style": 0, "scan": 0, "parse": 0}
    for (k, what), m in zip(owner, ans):
        (g, (text, edd, forced)), r = cases[k], real[k]
        case = {"text": text, "edd": edd, "forced": forced}
        if "error" in m:
            n_dis[what] += 1
            chk.disagreement("C14GN correspondence: driver error", case, None, m)
            continue
        if what == "style":
            stat["cases"] += 1
            if forced is not None:
                stat["forced_style"] += 1
            if r["style"] == "rest" and forced is None:
                stat["rest_style_skipped"] += 1
            if m.get("style") == r["style"]:
                stat["style"]["agree"] += 1
            else:
                n_dis["style"] += 1
                chk.disagreement("C14GN correspondence: derive_docstring_format", case, r["style"], m.get("style"))
        elif what == "scan":
            if "scan_raises" in r:
                if m.get("raises") == r["scan_raises"]:
                    stat["scan"]["raises_agree"] += 1
                else:
                    n_dis["scan"] += 1
                    chk.disagreement("C14GN correspondence: _scan_phase", case, {"raises": r["scan_raises"]}, m)
            elif m.get("scanned") == r.get("scanned"):
                stat["scan"]["agree"] += 1
            else:
                n_dis["scan"] += 1
                chk.disagreement("C14GN correspondence: _scan_phase", case, r.get("scanned"), m)
        else:
            bs = stat["by_stream"].setdefault(g["stream"], {"agree": 0, "abstain": 0})
            if "outside" in m:
                stat["parse"]["abstain"][m["outside"]] = stat["parse"]["abstain"].get(m["outside"], 0) + 1
                bs["abstain"] += 1
            elif "raises" in r:
                if m.get("raises") == r["raises"]:
                    stat["parse"]["raises_agree"] += 1
                    bs["agree"] += 1
                else:
                    n_dis["parse"] += 1
                    chk.disagreement("C14GN correspondence: docstring parse (Google/NumPy)", case, {"raises": r["raises"]}, m)
            elif m.get("ir") == r.get("view") and model_keys(m["ir"]) == real_keys(r["ir"]):
                stat["parse"]["agree"] += 1
                bs["agree"] += 1
            else:
                n_dis["parse"] += 1
                chk.disagreement("C14GN correspondence: docstring parse (Google/NumPy)", case, {"view": r.get("view"), "keys": real_keys(r["ir"]) if "ir" in r else None}, m)
    n_parse = stat["parse"]["agree"] + stat["parse"]["raises_agree"] + sum(stat["parse"]["abstain"].values()) + n_dis["parse"]
    n_scan = stat["scan"]["agree"] + stat["scan"]["raises_agree"] + n_dis["scan"]
    stat["parse"]["compared"] = n_parse
    stat["scan"]["compared"] = n_scan
    stat["disagreements"] = n_dis
    chk.coverage["c14gn_model_tie"] = stat
    chk.oblige("correspondence: DocGN.deriveStyle = derive_docstring_format on %d texts" % stat["cases"], "correspondence", n_dis["style"] == 0, "%d disagreements" % n_dis["style"])
    chk.oblige("correspondence: DocGN.scanPhase = _scan_phase (canonicalised dict, or the same exception) on %d Google/NumPy texts "
               "(hand-rendered, emitter-rendered, perturbed; %d with the style forced)" % (n_scan, stat["forced_style"]),
               "correspondence", n_dis["scan"] == 0 and n_scan > 0, "%d disagreements" % n_dis["scan"])
    n_abs = sum(stat["parse"]["abstain"].values())
    chk.oblige("correspondence: DocGN.parseDocstring / parseGN = cdd.docstring.parse.docstring (doc, names in order, typ/doc/default of every entry, the set of keys of every entry; or the same exception) on %d texts; the model abstains on %d (%s)"
               % (n_parse, n_abs, ", ".join("%s: %d" % kv for kv in sorted(stat["parse"]["abstain"].items(), key=lambda kv: -kv[1]))),
               "correspondence", n_dis["parse"] == 0 and n_parse > 0 and n_abs * 2 < n_parse, "%d disagreements, %d abstentions of %d" % (n_dis["parse"], n_abs, n_parse))
    chk.sample({"docstring-gn": structured[0]["doc"], "style": structured[0]["style"]})
    chk.trusted_base += [
        "model lean/CddVerif/Model/DocGN.lean: character-level port of the Google/NumPy scan and parse phases of cdd/shared/docstring_parsers.py (with the "
        "require_default latch, _set_name_and_type incl. star names, dict insertion), tied to the real code by comparison of the scanned dict and of the parsed view; "
        "abstains (counted by reason) where extract_default needs literal_eval/float beyond Doc.parseDefaultText, on needs_quoting outside a small type grammar, "
        "where parse_adhoc_doc_for_typ proposes a type (eval), and on non-ASCII text",
    ]
